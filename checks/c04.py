"""C04 - every raised exception becomes the response its most specific handler defines.
DESIGN.md section 4, C04.

Everything is driven by a pure-data *program spec* (class DAG, handler behaviours, a history of
registrations and requests, each request with a plan "at site S preset the body / raise X").
The harness components (middleware, hooks, responder, sink, media handler, error handlers)
only consult the plan and log what happened; the oracle (vlib/models/c04.py + check_request
below) replays the registration history into a model registry, derives the handler each raised
exception must be given to by an MRO scan, and decodes the final response with independent
JSON / XML parsers.
"""

import json
import re
import warnings
from functools import partial
from urllib.parse import parse_qs

import falcon
import falcon.asgi
import falcon.media

from vlib.drivers import asgi as A
from vlib.drivers import wsgi as W
from vlib.models import c04 as M

LEVEL = 'exploration'
SHARDS = {'quick': 4, 'thorough': 16}
BUDGET = {'quick': 14, 'thorough': 120}

K_RENDER = 'render-stage-error-body-empty'
K_FORM = 'error-body-via-form-handlers'
K_XMLCR = 'xml-error-cr-not-preserved'
K_STALE = 'handler-written-body-survives-reraise'
K_SURR = 'json-error-body-lone-surrogate-escapes'

CUSTOM_TYPE = 'application/x-c04'
BOOM_TYPE = 'application/x-c04-boom'
NOPE_TYPE = 'application/x-nope'
CUSTOM_PREFIX = b'C04!'
PARAM_TYPE = 'application/vnd.c04+yaml; version=2; profile=full'

BUILTIN_ROOTS = {'Exception': Exception, 'ValueError': ValueError, 'LookupError': LookupError,
                 'KeyError': KeyError, 'RuntimeError': RuntimeError,
                 'NotImplementedError': NotImplementedError}

SITES_REQ = ['mw0.req', 'mw1.req']
SITES_MID = ['mw0.rsrc', 'mw1.rsrc', 'before', 'responder', 'after']
SITES_RESP = ['mw1.resp', 'mw0.resp']
ALL_SITES = SITES_REQ + SITES_MID + ['sink'] + SITES_RESP + ['render']

TITLE_RE = re.compile(r'^(\d{3}) \S.*$', re.S)


# ======================================================================== harness side

class Ctl:
    """Plan of the current request + log of what the harness components did."""

    def __init__(self, prog):
        self.prog = prog
        self.plan = {}
        self.log = []
        self.sites = []
        self.harness_error = None
        self.not_constructible = None

    def begin(self, plan):
        self.plan = {}
        for site, preset, exc in plan:
            self.plan[site] = (preset, exc)
        self.log = []
        self.sites = []
        self.not_constructible = None

    def at(self, site, resp):
        render, exc = self._enter(site, resp)
        if render:
            try:
                resp.render_body()      # public API; fills the rendered-media cache before anything is raised
            except Exception as ex:  # noqa - must not be mistaken for a planned raise
                self.harness_error = 'early render_body() failed at %s: %r' % (site, ex)
                return
        self._leave(site, exc)

    async def aat(self, site, resp):
        render, exc = self._enter(site, resp)
        if render:
            try:
                await resp.render_body()
            except Exception as ex:  # noqa
                self.harness_error = 'early render_body() failed at %s: %r' % (site, ex)
                return
        self._leave(site, exc)

    def _enter(self, site, resp):
        self.sites.append(site)
        ent = self.plan.get(site)
        if ent is None:
            return False, None
        preset, exc = ent
        render = False
        if preset and resp is not None:
            apply_preset(resp, preset)
            self.log.append(('preset', site, preset))
            render = bool(preset.get('render'))
            if render and 'media' in preset and 'ctype' not in preset:
                # the component that renders its media says what it is (an earlier error rendering may have left
                # any Content-Type behind)
                resp.content_type = falcon.MEDIA_JSON
        return render, exc

    def _leave(self, site, exc):
        if exc is not None:
            try:
                inst = self.prog.make_exc(exc)
            except Exception as ex:  # noqa
                self.construction_failed(exc, ex, site)
                raise       # what the application's ``raise falcon.X(...)`` statement would do
            self.log.append(('raise', site, inst, exc))
            raise inst

    def construction_failed(self, spec, ex, where):
        """falcon's own constructor refused documented arguments (-> reported as a finding by run_program);
        anything else is a harness problem (-> the shard is inconclusive, never a verdict)"""
        cls = self.prog.resolve(spec['cls'])
        if falcon_root(cls) is not None and not isinstance(ex, BrokenGeneratedClass):
            self.not_constructible = {'exception': spec, 'raised_instead': repr(ex), 'where': where}
        else:
            self.harness_error = 'cannot build %r: %r' % (spec, ex)


def apply_preset(resp, preset):
    if 'status' in preset:
        resp.status = preset['status']
    if 'ctype' in preset:
        resp.content_type = preset['ctype']
    if 'text' in preset:
        resp.text = preset['text']
    if 'data' in preset:
        resp.data = preset['data'].encode('utf-8')
    if 'media' in preset:
        resp.media = preset['media']
    if 'vary' in preset:
        resp.append_header('Vary', preset['vary'])


class C04Handler(falcon.media.BaseHandler):
    """a "configured media type": prefix + JSON text, decoded by the harness itself."""

    def serialize(self, media, content_type):
        return CUSTOM_PREFIX + json.dumps(media, sort_keys=True).encode('ascii')

    def deserialize(self, stream, content_type, content_length):
        raise NotImplementedError


class BoomHandler(falcon.media.BaseHandler):
    """media handler whose serialization is a raise site ('render')."""

    def __init__(self, ctl):
        self.ctl = ctl

    def serialize(self, media, content_type):
        self.ctl.at('render', None)
        return CUSTOM_PREFIX + json.dumps(media, sort_keys=True).encode('ascii')

    def deserialize(self, stream, content_type, content_length):
        raise NotImplementedError


def build_wsgi_parts(ctl):
    class MW:
        def __init__(self, i):
            self.i = i

        def process_request(self, req, resp):
            ctl.at('mw%d.req' % self.i, resp)

        def process_resource(self, req, resp, resource, params):
            ctl.at('mw%d.rsrc' % self.i, resp)

        def process_response(self, req, resp, resource, req_succeeded):
            ctl.at('mw%d.resp' % self.i, resp)

    def hook_before(req, resp, resource, params):
        ctl.at('before', resp)

    def hook_after(req, resp, resource):
        ctl.at('after', resp)

    class Res:
        @falcon.before(hook_before)
        @falcon.after(hook_after)
        def on_get(self, req, resp, id):
            ctl.at('responder', resp)

        on_post = on_get
        on_head = on_get

    def sink(req, resp, **kw):
        ctl.at('sink', resp)

    return [MW(0), MW(1)], Res(), sink


def build_asgi_parts(ctl):
    class MW:
        def __init__(self, i):
            self.i = i

        async def process_request(self, req, resp):
            await ctl.aat('mw%d.req' % self.i, resp)

        async def process_resource(self, req, resp, resource, params):
            await ctl.aat('mw%d.rsrc' % self.i, resp)

        async def process_response(self, req, resp, resource, req_succeeded):
            await ctl.aat('mw%d.resp' % self.i, resp)

    async def hook_before(req, resp, resource, params):
        await ctl.aat('before', resp)

    async def hook_after(req, resp, resource):
        await ctl.aat('after', resp)

    class Res:
        @falcon.before(hook_before)
        @falcon.after(hook_after)
        async def on_get(self, req, resp, id):
            await ctl.aat('responder', resp)

        on_post = on_get
        on_head = on_get

    async def sink(req, resp, **kw):
        await ctl.aat('sink', resp)

    return [MW(0), MW(1)], Res(), sink


def falcon_root(cls):
    """nearest class of the MRO that falcon itself defines (whose __init__ builds the instance)."""
    for c in cls.__mro__:
        if (getattr(c, '__module__', '') or '').startswith('falcon'):
            return c
    return None


def build_class(name, bases, ns, advertised=None):
    """type(name, bases, ns); `advertised`: the instances' __class__ attribute reports that class instead of their
    real type (what proxy/wrapper exceptions and unittest.mock specs do).  raise/except, type(ex) and therefore
    "the exception's MRO" are not affected by it."""
    ns = dict(ns)
    if advertised is not None:
        ns['__class__'] = property(lambda self, _c=advertised: _c)
    return type(name, bases, ns)


def real_isinstance(obj, cls):
    return issubclass(type(obj), cls)


def well_formed(inst):
    """the framework base __init__ really ran: the attributes falcon's default handlers read exist.
    (a builtin between two cooperative falcon __init__s in the MRO swallows the super() call)"""
    if real_isinstance(inst, falcon.HTTPStatus):
        names = ('status', 'headers', 'text')
    elif real_isinstance(inst, falcon.HTTPError):
        names = ('status', 'title', 'description', 'headers', 'link', 'code')
    else:
        return True
    return all(hasattr(inst, n) for n in names)


class BrokenGeneratedClass(Exception):
    """harness-side problem: a generated class hierarchy builds an incomplete instance"""


class Program:
    def __init__(self, spec):
        self.spec = spec
        self.stack = spec['stack']
        self.cfg = dict(spec.get('cfg') or {})
        self.ctl = Ctl(self)
        self.behaviours = dict(spec.get('handlers') or {})
        self.classes = {}
        self.handle_owner = {}
        self.reg_count = {}
        asgi = self.stack == 'asgi'
        for ent in spec.get('classes') or []:
            name, bases, has_handle = ent[0], ent[1], ent[2]
            ns = {}
            if has_handle:
                ns['handle'] = staticmethod(self.make_handler('handle:' + name))
            adv = self.resolve(ent[3]) if len(ent) > 3 and ent[3] else None
            self.classes[name] = build_class(name, tuple(self.resolve(b) for b in bases), ns, adv)
            if has_handle:
                self.handle_owner[self.classes[name]] = 'handle:' + name
        mws, res, sink = (build_asgi_parts if asgi else build_wsgi_parts)(self.ctl)
        appcls = falcon.asgi.App if asgi else falcon.App
        self.app = appcls(middleware=mws, independent_middleware=self.cfg.get('independent', True))
        self.app.add_route('/r/{id}', res)
        self.app.add_sink(sink, '/sink')
        opts = self.app.resp_options
        opts.xml_error_serialization = bool(self.cfg.get('xml', True))
        self.custom_types = set()
        jh = self.cfg.get('json_handler', 'default')
        if jh == 'custom':
            opts.media_handlers[M.JSON] = falcon.media.JSONHandler(
                dumps=partial(json.dumps, ensure_ascii=True, sort_keys=True, separators=(',', ':')))
        elif jh == 'removed':
            del opts.media_handlers[M.JSON]
        if self.cfg.get('custom_media'):
            opts.media_handlers[CUSTOM_TYPE] = C04Handler()
            self.custom_types.add(CUSTOM_TYPE)
        if self.cfg.get('xml_handler'):
            opts.media_handlers['application/xml'] = C04Handler()
            self.custom_types.add('application/xml')
        if self.cfg.get('boom'):
            opts.media_handlers[BOOM_TYPE] = BoomHandler(self.ctl)
            self.custom_types.add(BOOM_TYPE)
        if self.cfg.get('param_media'):
            opts.media_handlers[PARAM_TYPE] = C04Handler()
            self.custom_types.add(PARAM_TYPE)
        if self.cfg.get('odd_handler_key'):
            opts.media_handlers[self.cfg['odd_handler_key']] = C04Handler()
        # the stock response handlers for forms can be dropped (in place, or by installing a new Handlers object),
        # down to a JSON-only or even an empty handler set
        mode = self.cfg.get('handlers_mode', 'stock')
        self.form_types = [M.URLENC, M.MULTIPART]
        if mode != 'stock':
            self.form_types = []
            keep = {k: v for k, v in opts.media_handlers.items() if k not in (M.URLENC, M.MULTIPART)}
            if mode == 'replaced' and keep:
                opts.media_handlers = falcon.media.Handlers(keep)
            else:
                del opts.media_handlers[M.URLENC]
                del opts.media_handlers[M.MULTIPART]
        self.registry = M.Registry({Exception: 'D:py', falcon.HTTPError: 'D:he', falcon.HTTPStatus: 'D:hs'})

    # ---- spec -> objects
    def resolve(self, name):
        if name in self.classes:
            return self.classes[name]
        if name in BUILTIN_ROOTS:
            return BUILTIN_ROOTS[name]
        return getattr(falcon, name)

    def make_handler(self, hid):
        prog = self

        def body(req, resp, ex, params):
            prog.ctl.log.append(('handler', hid, ex, (resp.text, resp.data, resp.media)))
            prog.apply_behaviour(prog.behaviours[hid], resp)

        if self.stack == 'asgi':
            async def handler(req, resp, ex, params):
                body(req, resp, ex, params)
        else:
            def handler(req, resp, ex, params):
                body(req, resp, ex, params)
        return handler

    def apply_behaviour(self, b, resp):
        kind = b[0]
        if kind == 'raise_http' or kind == 'raise_status':
            try:
                inst = self.make_exc(b[1])
            except Exception as ex:  # noqa
                self.ctl.construction_failed(b[1], ex, 'error handler')
                raise
            pre = b[2] if len(b) > 2 else None
            if pre:
                # the handler starts composing a response, then changes its mind and raises
                if 'text' in pre:
                    resp.text = pre['text']
                if 'text_bytes' in pre:
                    resp.text = pre['text_bytes'].encode('utf-8')
                if 'data' in pre:
                    resp.data = pre['data'].encode('utf-8')
                if 'media' in pre:
                    resp.media = pre['media']
                    resp.content_type = falcon.MEDIA_JSON
            self.ctl.log.append(('hraise', inst, b[1]))
            raise inst
        resp.status = b[1]
        if kind == 'text':
            resp.text = b[2]
            resp.content_type = 'text/plain; charset=utf-8'
        elif kind == 'data':
            resp.data = b[2].encode('utf-8')
            resp.content_type = 'application/octet-stream'
        elif kind == 'media':
            resp.media = b[2]
            resp.content_type = falcon.MEDIA_JSON
        for k, v in (b[3] if len(b) > 3 else []):
            resp.set_header(k, v)

    def make_exc(self, es):
        inst = self._make_exc(es)
        if not well_formed(inst):
            raise BrokenGeneratedClass('generated class %s builds a broken instance' % es['cls'])
        return inst

    def _make_exc(self, es):
        cls = self.resolve(es['cls'])
        root = falcon_root(cls)
        if root is None:
            return cls(es.get('msg', 'boom'))
        if issubclass(root, falcon.HTTPStatus):
            hdrs = dict(es['headers']) if es.get('headers') is not None else None
            if root is falcon.HTTPStatus:
                args = (es['status'], hdrs, es.get('text'))
            else:
                args = (es['location'], hdrs)
            if cls is root:
                return cls(*args)
            inst = cls.__new__(cls)
            root.__init__(inst, *args)
            return inst
        kw = {}
        for k in ('title', 'description', 'code', 'href', 'href_text'):
            if k in es:
                kw[k] = es[k]
        if es.get('headers') is not None:
            kw['headers'] = dict(es['headers']) if es.get('hdict') else [tuple(h) for h in es['headers']]
        for k in ('challenges', 'retry_after', 'allowed_methods', 'resource_length'):
            if k in es:
                kw[k] = es[k]
        pos = list(es.get('pos', []))
        if root is falcon.HTTPError:
            st = es['status']
            if isinstance(st, list):             # ['enum', 409]
                import http
                st = http.HTTPStatus(st[1])
            pos = [st]
        if cls is root:
            return cls(*pos, **kw)
        inst = cls.__new__(cls)
        root.__init__(inst, *pos, **kw)
        return inst

    # ---- history
    def register(self, step):
        names, hid = step[1], step[2]
        classes = [self.resolve(n) for n in names]
        if hid is None:
            # documented default: the class's own ``handle`` static method (plain attribute lookup)
            cls = classes[0]
            owner = next(c for c in cls.__mro__ if c in self.handle_owner)
            self.app.add_error_handler(cls)
            self.registry.register([cls], self.handle_owner[owner])
        elif len(classes) == 1 and not (len(step) > 3 and step[3] == 'tuple'):
            self.app.add_error_handler(classes[0], self.make_handler(hid))
            self.registry.register(classes, hid)
        else:
            # an iterable of types: every member gets the handler
            self.app.add_error_handler(tuple(classes) if len(step) < 4 or step[3] != 'list' else list(classes),
                                       self.make_handler(hid))
            self.registry.register(classes, hid)
        for c in classes:
            self.reg_count[c] = self.reg_count.get(c, 0) + 1

    def candidates(self):
        c = [M.JSON]
        if self.cfg.get('xml', True):
            c += list(M.XML_TYPES)
        for t in self.form_types + sorted(self.custom_types):
            if t not in c:
                c.append(t)
        return c

    # ---- one request
    def run_request(self, rq):
        self.ctl.begin(rq.get('plan') or [])
        path = {'r': '/r/7', 'sink': '/sink/x', 'noroute': '/nowhere'}[rq.get('path', 'r')]
        hdrs = [('Accept', rq['accept'])] if rq.get('accept') is not None else []
        method = rq.get('method', 'GET')
        out = {'exc': None, 'problems': [], 'outcome': 'done'}
        if self.stack == 'wsgi':
            res = W.run_wsgi(self.app, W.make_environ(method, path, headers=hdrs))
            out['status'] = res.status
            out['headers'] = [(k.lower(), v) for k, v in res.headers if isinstance(k, str)]
            out['body'] = res.body
            out['exc'] = res.exc
            out['problems'] = list(res.problems)
        else:
            res = A.run_asgi_http(self.app, A.make_scope(method, path, headers=hdrs))
            out['status'] = res.status
            out['headers'] = [(k.decode('latin-1').lower(), v.decode('latin-1')) for k, v in res.headers
                              if isinstance(k, bytes) and isinstance(v, bytes)]
            out['body'] = res.body
            out['exc'] = res.exc
            out['outcome'] = res.outcome
            out['problems'] = list(res.problems) + ['loop error: ' + e for e in res.loop_errors]
        return out


# ======================================================================== oracle side

def hvalues(out, name):
    return [v for k, v in out['headers'] if k == name]


def members(values):
    """comma-separated header members, case-insensitive set"""
    return {t.strip().lower() for v in values for t in v.split(',') if t.strip()}


def essence(ct):
    return (ct or '').split(';', 1)[0].strip().lower()


def error_info(prog, es, inst):
    """What an HTTP error built from spec `es` must render as (docs of HTTPError / subclasses)."""
    cls = type(inst)
    info = {'loose': False}
    root = falcon_root(cls)
    if root is falcon.HTTPError:
        st = es['status']
        if isinstance(st, list):
            info['status'] = st[1]
            info['status_line'] = None
        elif isinstance(st, int):
            info['status'] = st
            info['status_line'] = None
        else:
            info['status'] = int(st[:3])
            info['status_line'] = st if ' ' in st else None
    else:
        name = next(c.__name__ for c in cls.__mro__ if c.__name__ in M.ERROR_STATUS
                    and (c.__module__ or '').startswith('falcon'))
        info['status'] = M.ERROR_STATUS[name]
        info['status_line'] = None
    info['title'] = es.get('title') or None
    # computed descriptions of the specialised classes are read from the instance ("its description")
    info['description'] = es['description'] if 'description' in es else inst.description
    if 'title' not in es and 'pos' in es:
        info['title'] = inst.title
    info['code'] = es.get('code')
    info['href'] = es.get('href') or None
    info['href_text'] = es.get('href_text') or None
    hdrs = [tuple(h) for h in (es.get('headers') or [])]
    if es.get('challenges'):
        hdrs = [h for h in hdrs if h[0].lower() != 'www-authenticate']
        hdrs.append(('WWW-Authenticate', ', '.join(es['challenges'])))
    if es.get('retry_after') is not None:
        hdrs = [h for h in hdrs if h[0].lower() != 'retry-after']
        hdrs.append(('Retry-After', str(es['retry_after'])))
    if es.get('allowed_methods') is not None:
        hdrs = [h for h in hdrs if h[0].lower() != 'allow']
        hdrs.append(('Allow', ', '.join(es['allowed_methods'])))
    if es.get('resource_length') is not None:
        hdrs = [h for h in hdrs if h[0].lower() != 'content-range']
        hdrs.append(('Content-Range', 'bytes */%d' % es['resource_length']))
    info['headers'] = hdrs
    return info


def loose_info(status):
    return {'loose': True, 'status': status, 'status_line': None, 'headers': []}


INFO_500 = {'loose': False, 'status': 500, 'status_line': None, 'title': None, 'description': None,
            'code': None, 'href': None, 'href_text': None, 'headers': []}


def expected_fields(info, xml):
    """field -> expected value; title None means "status line of the error"."""
    exp = {'title': info['title']}
    if info['description'] is not None:
        exp['description'] = info['description']
    if info['code'] is not None:
        exp['code'] = str(info['code']) if xml else info['code']
    if info['href']:
        exp['link'] = True
    return exp


def compare_fields(got, info, xml=False, skip_link=False):
    """-> list of (field, problem) ; got is the decoded document."""
    bad = []
    if not isinstance(got, dict):
        return [('document', 'not an object: %r' % (got,))]
    if info['loose']:
        t = got.get('title')
        m = isinstance(t, str) and TITLE_RE.match(t)
        if not m or int(m.group(1)) != info['status']:
            bad.append(('title', 'expected the %d status line, got %r' % (info['status'], t)))
        extra = set(got) - {'title', 'description', 'code', 'link'}
        if extra:
            bad.append(('keys', 'unexpected members %r' % sorted(extra)))
        return bad
    exp = expected_fields(info, xml)
    gk = set(got)
    ek = set(exp)
    if skip_link:
        gk.discard('link')
        ek.discard('link')
    if gk != ek:
        bad.append(('keys', 'members %r, expected %r' % (sorted(gk), sorted(ek))))
    t = got.get('title')
    if info['title'] is not None:
        if t != info['title']:
            bad.append(('title', 'got %r' % (t,)))
    elif info['status_line'] is not None:
        if t != info['status_line']:
            bad.append(('title', 'expected status line %r, got %r' % (info['status_line'], t)))
    else:
        m = isinstance(t, str) and TITLE_RE.match(t)
        if not m or int(m.group(1)) != info['status']:
            bad.append(('title', 'expected the %d status line, got %r' % (info['status'], t)))
    if 'description' in exp and 'description' in got and got['description'] != exp['description']:
        bad.append(('description', 'got %r' % (got['description'],)))
    if 'code' in exp and 'code' in got and (got['code'] != exp['code'] or type(got['code']) is not type(exp['code'])):
        bad.append(('code', 'got %r' % (got['code'],)))
    if 'link' in exp and 'link' in got and not skip_link:
        link = got['link']
        if not isinstance(link, dict) or set(link) != {'text', 'href', 'rel'}:
            bad.append(('link', 'got %r' % (link,)))
        else:
            if link['rel'] != 'help':
                bad.append(('link.rel', 'got %r' % (link['rel'],)))
            if info['href_text'] is not None:
                if link['text'] != info['href_text']:
                    bad.append(('link.text', 'got %r' % (link['text'],)))
            elif not (isinstance(link['text'], str) and link['text']):
                bad.append(('link.text', 'empty default text'))
            if not M.href_faithful(link['href'], info['href']):
                bad.append(('link.href', 'got %r for %r' % (link['href'], info['href'])))
    return bad


def has_surrogate(s):
    return any(0xD800 <= ord(ch) <= 0xDFFF for ch in s)


def info_strings(info):
    out = []
    for k in ('title', 'description', 'href_text'):
        if isinstance(info.get(k), str):
            out.append(info[k])
    return out


def _cr_norm(s):
    return s.replace('\r\n', '\n').replace('\r', '\n') if isinstance(s, str) else s


class Checker:
    def __init__(self, rec, prog, steps_done):
        self.rec, self.prog, self.steps_done = rec, prog, steps_done
        self.found = []
        self.prewrite = None

    def report(self, kind, rq, detail, known=None):
        self.found.append((kind, detail, known))

    # ---------------------------------------------------------------- whole request
    def check_request(self, rq, out):
        rec, prog = self.rec, self.prog
        log = prog.ctl.log
        accept = rq.get('accept')
        method = rq.get('method', 'GET')
        cands = prog.candidates()
        # ---- the ordered list of raised exceptions: (cls, inst or None, espec or None, site)
        raises = []
        logged = [e for e in log if e[0] == 'raise']
        # falcon's own raise sites; only judged when no harness raise can have pre-empted them
        early_raise = any(e[1] not in SITES_RESP for e in logged)
        internal = None
        if method == 'WEBSOCKET':
            internal = ('meta', falcon.HTTPBadRequest, 400)
        elif not early_raise:
            if rq.get('path') == 'noroute':
                internal = ('noroute', falcon.HTTPRouteNotFound, 404)
            elif rq.get('path', 'r') == 'r' and method not in ('GET', 'POST', 'HEAD', 'OPTIONS'):
                internal = ('nomethod', falcon.HTTPMethodNotAllowed, 405)
        pos = 0
        if internal and internal[0] != 'meta':
            pos = len(logged)
            for i, e in enumerate(logged):
                if e[1] in SITES_RESP:
                    pos = i
                    break
        for i, e in enumerate(logged):
            if internal and i == pos:
                raises.append((internal[1], None, None, internal[0], internal[2]))
            raises.append((type(e[2]), e[2], e[3], e[1], None))
        if internal and pos >= len(logged):
            raises.append((internal[1], None, None, internal[0], internal[2]))
        if rq.get('render_nope') and not logged:
            raises.append((falcon.HTTPUnsupportedMediaType, None, None, 'render', 415))
        if not raises:
            rec.count('req.no_raise')
            return
        # ---- known quirk context: the default serializer negotiates the form media handlers
        #      (multipart/form-data is a candidate although its handler cannot serialize anything: the
        #      signature is a NotImplementedError nobody in the harness raised, or that Content-Type)
        mine = [e[2] for e in logged]
        handler_events = [e for e in log if e[0] == 'handler']
        form_ctx = (
            essence((hvalues(out, 'content-type') or [''])[0]) == M.MULTIPART
            or any(real_isinstance(ev[2], NotImplementedError) and all(ev[2] is not x for x in mine)
                   for ev in handler_events)
            or (out.get('exc') is not None and real_isinstance(out['exc'], NotImplementedError)
                and all(out['exc'] is not x for x in mine)))
        # same finding, other stock form handler: the urlencoded serializer cannot encode an unpaired surrogate, so
        # an error carrying one that is negotiated to application/x-www-form-urlencoded fails at render time
        # (signature: a UnicodeEncodeError nobody in the harness raised reaches a handler / that Content-Type + 500)
        specs_ = [e[3] for e in logged] + [e[2] for e in log if e[0] == 'hraise']
        if any(has_surrogate(str(sp_.get(k_) or '')) for sp_ in specs_ for k_ in ('title', 'description', 'href_text')):
            rec.count('req.error_with_unpaired_surrogate')
            if M.URLENC in cands and (
                    any(type(ev[2]) is UnicodeEncodeError and all(ev[2] is not x for x in mine) for ev in handler_events)
                    or (essence((hvalues(out, 'content-type') or [''])[0]) == M.URLENC and out.get('status') == 500)):
                form_ctx = True
        # ---- handler selection
        expected_events = []
        hids = []
        for cls, inst, es, site, st in raises:
            hid = prog.registry.lookup(cls)
            hids.append(hid)
            rec.count('site.' + site)
            rec.count('mon.handler_selection')
            if hid.startswith('D:'):
                rec.count('sel.default_' + hid[2:])
            else:
                rec.count('sel.custom')
                expected_events.append((hid, cls, inst))
                first = next(c for c in cls.__mro__ if c in prog.registry.map)
                if first is not cls:
                    rec.count('sel.nearest_is_ancestor')
                if prog.reg_count.get(first, 0) > 1:
                    rec.count('sel.reregistered_class')
                if hid.startswith('handle:'):
                    rec.count('sel.handle_staticmethod')
            if inst is not None and inst.__class__ is not cls:
                rec.count('sel.advertised_class_differs')
            if len(cls.__mro__) > len(set(cls.__mro__)) or sum(1 for c in cls.__mro__ if len(c.__bases__) > 1):
                rec.count('sel.multiple_inheritance')
        actual_events = [e for e in log if e[0] == 'handler']
        sel_ok = len(actual_events) == len(expected_events)
        if sel_ok:
            for (hid, cls, inst), ev in zip(expected_events, actual_events):
                if ev[1] != hid or (inst is not None and ev[2] is not inst) or not real_isinstance(ev[2], cls):
                    sel_ok = False
        if not sel_ok:
            known = None
            if form_ctx:
                known = K_FORM
            self.report('wrong-handler', rq, {
                'expected': [(h, c.__name__) for h, c, _ in expected_events],
                'invoked': [(e[1], type(e[2]).__name__) for e in actual_events],
                'raised': [(c.__name__, s) for c, _, _, s, _ in raises]}, known)
        for ev in actual_events:
            rec.count('mon.body_reset_seen_by_handler')
            if ev[3] != (None, None, None):
                self.report('handler-saw-stale-body', rq, {'handler': ev[1], 'seen_text_data_media': repr(ev[3])})
        if any(e[0] == 'preset' for e in log):
            rec.count('req.body_set_before_raise')
        if any(e[0] == 'preset' and e[2].get('render') for e in log):
            rec.count('req.body_rendered_before_raise')
        if len(raises) > 1:
            rec.count('req.multi_raise')
        # ---- nothing may escape
        rec.count('mon.no_escape')
        if accept is not None and any(ord(ch) > 0x7f for ch in accept):
            rec.count('mon.no_escape.accept_with_obs_text_octets')
        if prog.cfg.get('warnings') == 'error':
            rec.count('mon.no_escape.warnings_as_errors')
        if out['exc'] is not None or out['outcome'] != 'done':
            known = K_FORM if form_ctx else None
            ex_ = out['exc']
            if known is None and type(ex_) is UnicodeEncodeError and isinstance(ex_.object, str) \
                    and ex_.object.lstrip()[:1] in ('{', '[') and has_surrogate(ex_.object[ex_.start:ex_.end]):
                # narrow: the str handed to the UTF-8 encoder is a JSON document (the stock JSON handler dumps with
                # ensure_ascii=False and then encodes strictly) and the offending code point is a lone surrogate
                known = K_SURR
            self.report('exception-escaped', rq, {'exc': repr(out['exc']), 'outcome': out['outcome'],
                                                  'raised': [(c.__name__, s) for c, _, _, s, _ in raises]}, known)
            return
        if out['problems']:
            self.report('protocol-problem', rq, {'problems': out['problems'][:3]})
            return
        if not sel_ok:
            return
        # ---- what the last handler defines
        cls, inst, es, site, st = raises[-1]
        hid = hids[-1]
        last_raise_idx = max(i for i, e in enumerate(log) if e[0] == 'raise') if logged else -1
        if inst is not None and any(e[0] == 'preset' for e in log[last_raise_idx + 1:]):
            rec.count('req.preset_after_last_raise')      # the body was touched after the last handler ran
            return
        kind, payload = self.outcome_of(hid, cls, inst, es, st, log)
        at_render = site == 'render'
        # Vary members the response already carried: judged when nothing else in this request can have
        # replaced the header (exactly one raise; harness handlers never touch Vary)
        pre_vary = None
        if len(raises) == 1:
            pre_vary = members([e[2]['vary'] for e in log if e[0] == 'preset' and 'vary' in e[2]])
        if kind == 'error':
            self.check_error(rq, out, payload, accept, method, cands, at_render, form_ctx, pre_vary)
        elif kind == 'status':
            self.check_status(rq, out, payload, method, at_render)
        else:
            self.check_custom(rq, out, payload, method, at_render)

    def outcome_of(self, hid, cls, inst, es, st, log):
        rec, prog = self.rec, self.prog
        if hid == 'D:py':
            return 'error', INFO_500
        if hid == 'D:he':
            if inst is None:
                return 'error', loose_info(st)
            return 'error', error_info(prog, es, inst)
        if hid == 'D:hs':
            return 'status', es
        b = prog.behaviours[hid]
        if b[0] in ('raise_http', 'raise_status') and len(b) > 2 and b[2]:
            self.prewrite = b[2]
            rec.count('chain.handler_wrote_before_raise')
            for k_ in b[2]:
                rec.count('chain.wrote_%s_then_%s' % (k_, b[0]))
        if b[0] == 'raise_http':
            rec.count('chain.handler_raised_http_error')
            hr = [e for e in log if e[0] == 'hraise'][-1]
            return 'error', error_info(prog, hr[2], hr[1])
        if b[0] == 'raise_status':
            rec.count('chain.handler_raised_http_status')
            hr = [e for e in log if e[0] == 'hraise'][-1]
            return 'status', hr[2]
        return 'custom', b

    # ---------------------------------------------------------------- pieces
    def check_headers(self, rq, out, want, what):
        self.rec.count('mon.headers')
        for k, v in want:
            if v not in hvalues(out, k.lower()):
                self.report('header-missing', rq, {'what': what, 'header': [k, v],
                                                   'got': hvalues(out, k.lower())})
                return False
        return True

    def body_known(self, at_render, want_nonempty, out):
        if at_render and want_nonempty and out['body'] == b'' and hvalues(out, 'content-length') in (['0'], []):
            return K_RENDER
        return None

    def stale_known(self, outcome, out):
        """Narrow classifier of the recorded finding "what an error handler wrote before raising survives the
        rendering of the raised HTTPError/HTTPStatus": the body is exactly a field the handler wrote AND that
        field is one the rendering of the raised object does not itself assign (an HTTPStatus assigns text, so a
        surviving text is never attributed to the finding)."""
        pre = self.prewrite
        if not pre or not out['body']:
            return None
        body = out['body']
        field = None
        if 'text' in pre and body == pre['text'].encode('utf-8'):
            field = 'text'
        elif 'text_bytes' in pre and body == pre['text_bytes'].encode('utf-8'):
            field = 'text'
        elif 'data' in pre and body == pre['data'].encode('utf-8'):
            field = 'data'
        elif 'media' in pre:
            try:
                if M.decode_json(body) == pre['media']:
                    field = 'media'
            except M.Undecodable:
                pass
        if field is None:
            return None
        if outcome == 'status' and field == 'text':
            return None
        return K_STALE

    def check_status(self, rq, out, es, method, at_render):
        rec = self.rec
        rec.count('mon.http_status_outcome')
        root = falcon_root(self.prog.resolve(es['cls']))
        if root is falcon.HTTPStatus:
            st = es['status']
            code = st if isinstance(st, int) else int(st[:3])
            want_h = [tuple(h) for h in (es.get('headers') or [])]
            text = es.get('text')
        else:
            code = M.REDIRECT_STATUS[root.__name__]
            want_h = [tuple(h) for h in (es.get('headers') or [])]
            if not any(k.lower() == 'location' for k, _ in want_h):
                want_h.append(('location', es['location']))
            text = None
        if out['status'] != code:
            self.report('status-mismatch', rq, {'want': code, 'got': out['status'], 'outcome': 'HTTPStatus'})
            return
        if not self.check_headers(rq, out, want_h, 'HTTPStatus headers'):
            return
        if method == 'HEAD' or code in (204, 304) or code < 200:
            rec.count('body.not_applicable')
            return
        want = (text or '').encode('utf-8')
        rec.count('mon.body.status_text')
        if out['body'] != want:
            self.report('body-mismatch', rq, {'outcome': 'HTTPStatus', 'want': want, 'got': out['body'][:300],
                                              'handler_wrote_first': self.prewrite},
                        self.body_known(at_render, bool(want), out) or self.stale_known('status', out))

    def check_custom(self, rq, out, b, method, at_render):
        rec = self.rec
        rec.count('mon.custom_outcome')
        if out['status'] != b[1]:
            self.report('status-mismatch', rq, {'want': b[1], 'got': out['status'], 'outcome': 'custom handler'})
            return
        if not self.check_headers(rq, out, [tuple(h) for h in (b[3] if len(b) > 3 else [])], 'handler headers'):
            return
        if method == 'HEAD' or b[1] in (204, 304) or b[1] < 200:
            rec.count('body.not_applicable')
            return
        rec.count('mon.body.custom_' + b[0])
        if b[0] == 'media':
            ok = False
            try:
                ok = M.decode_json(out['body']) == b[2]
            except M.Undecodable:
                pass
            if not ok:
                self.report('body-mismatch', rq, {'outcome': 'handler media', 'want': b[2], 'got': out['body'][:300]},
                            self.body_known(at_render, True, out))
            return
        want = b'' if b[0] == 'none' else b[2].encode('utf-8')
        if out['body'] != want:
            self.report('body-mismatch', rq, {'outcome': 'handler ' + b[0], 'want': want, 'got': out['body'][:300]},
                        self.body_known(at_render, bool(want), out))

    def check_error(self, rq, out, info, accept, method, cands, at_render, form_ctx, pre_vary=None):
        rec, prog = self.rec, self.prog
        rec.count('mon.http_error_outcome')
        mp_known = K_FORM if form_ctx else None
        if out['status'] != info['status']:
            known = mp_known if out['status'] == 500 else None
            self.report('status-mismatch', rq, {'want': info['status'], 'got': out['status'], 'outcome': 'HTTPError'},
                        known)
            return
        own_vary = [v for k, v in info['headers'] if k.lower() == 'vary']
        if not self.check_headers(rq, out, [h for h in info['headers'] if h[0].lower() != 'vary'],
                                  'HTTPError headers'):
            return
        # Vary is a member list: the error's own members (or, if it defines none, the members the response
        # already carried) must survive next to the Accept the default rendering adds
        rec.count('mon.vary')
        want_vary = {'accept'}
        if own_vary:
            rec.count('vary.error_defines_members')
            want_vary |= members(own_vary[-1:])
        elif pre_vary:
            rec.count('vary.set_before_raise')
            want_vary |= pre_vary
        got_vary = members(hvalues(out, 'vary'))
        if not want_vary <= got_vary:
            self.report('vary-missing', rq, {'vary': hvalues(out, 'vary'), 'missing': sorted(want_vary - got_vary),
                                             'error_vary': own_vary, 'before_raise': sorted(pre_vary or [])})
            return
        if method == 'HEAD' or info['status'] in (204, 304) or info['status'] < 200:
            rec.count('body.not_applicable')
            return
        body = out['body']
        ctype = essence((hvalues(out, 'content-type') or [''])[0])
        custom_ess = {essence(t) for t in prog.custom_types}
        if not info['loose'] and any(has_surrogate(x) for x in info_strings(info)):
            rec.count('body.unpaired_surrogate_in_error')
            if body and ((ctype in M.XML_TYPES and ctype not in custom_ess) or ctype == M.URLENC):
                # an unpaired surrogate has no XML character reference and no percent-encoded UTF-8 form: these
                # representations cannot be faithful; JSON-based ones can (\uXXXX escape) and are judged below
                rec.count('body.unencodable_code_points')
                return
        allowed = M.negotiate(accept, cands)
        if prog.cfg.get('odd_handler_key'):
            # a handler registered under a key that is no media type (type/subtype): what the client "prefers"
            # among such candidates is undefined -> weak check (body empty, or faithful in the announced type);
            # handled / status / headers / Vary stay unconditional
            rec.count('negotiation.undefined_handler_key_not_a_media_type')
            allowed = None
        if allowed is not None:
            allowed = set(allowed)
            if '+xml-unavailable' in allowed:
                allowed.discard('+xml-unavailable')
                if 'application/xml' not in cands:
                    allowed.discard('application/xml')
                    allowed.add('empty')
        rec.count('negotiation.strong' if allowed is not None else 'negotiation.weak')
        rec.count('cfg.single_candidate' if len(cands) == 1 else 'cfg.few_candidates' if len(cands) < 5
                  else 'cfg.stock_or_more_candidates')
        if allowed is not None and accept is not None and accept != accept.lower():
            rec.count('negotiation.mixed_case_decided')
        observed = 'empty' if body == b'' else ctype
        if allowed is not None and len(allowed) > 1:
            rec.count('negotiation.tie_or_suffix')
        # ---- which representation was chosen
        if allowed is not None and observed not in {a if a == 'empty' else essence(a) for a in allowed}:
            known = None
            if observed == 'empty' and at_render and 'empty' not in allowed:
                known = K_RENDER
            elif mp_known and observed == 'empty':
                known = mp_known
            else:
                known = self.stale_known('error', out)
            self.report('negotiation', rq, {'accept': accept, 'allowed': sorted(allowed), 'observed': observed,
                                            'candidates': cands, 'body': body[:200]}, known)
            return
        if observed == 'empty':
            rec.count('mon.body.empty')
            return
        # ---- faithful encoding
        try:
            if ctype in custom_ess:
                rec.count('mon.body.configured_type')
                if not body.startswith(CUSTOM_PREFIX):
                    raise M.Undecodable('not produced by the configured handler')
                bad = compare_fields(M.decode_json(body[len(CUSTOM_PREFIX):]), info)
            elif ctype == M.JSON:
                rec.count('mon.body.json')
                bad = compare_fields(M.decode_json(body), info)
            elif ctype in M.XML_TYPES:
                strs = info_strings(info) if not info['loose'] else []
                if not all(M.xml_representable(s.replace('\r', '')) for s in strs):
                    rec.count('body.xml_unrepresentable_chars')     # inherent limit of XML 1.0, not judged
                    return
                rec.count('mon.body.xml')
                got = M.decode_xml_error(body)
                bad = compare_fields(got, info, xml=True)
                if bad and any('\r' in s for s in strs):
                    info2 = dict(info)
                    for k in ('title', 'description', 'href_text'):
                        info2[k] = _cr_norm(info.get(k))
                    if not compare_fields(got, info2, xml=True):
                        self.report('body-mismatch', rq, {'repr': 'xml', 'fields': bad[:3], 'body': body[:300]}, K_XMLCR)
                        return
            elif ctype == M.URLENC:
                rec.count('mon.body.urlencoded')
                try:
                    q = parse_qs(body.decode('ascii'), keep_blank_values=True, strict_parsing=False)
                except UnicodeDecodeError:
                    raise M.Undecodable('body is not an ASCII form')
                flat = {}
                for k, v in q.items():
                    flat[k] = v[0] if len(v) == 1 else v
                if 'code' in flat and not info['loose'] and info.get('code') is not None:
                    try:
                        flat['code'] = int(flat['code'])
                    except (TypeError, ValueError):
                        pass
                had_link = 'link' in flat
                bad = compare_fields(flat, info, skip_link=True)
                if not bad and not info['loose'] and info.get('href'):
                    # a dict member cannot survive this handler: the link is flattened to its key names
                    self.report('body-mismatch', rq, {'repr': 'urlencoded', 'fields': [('link', 'flattened')],
                                                      'had_link': had_link, 'body': body[:300]}, K_FORM)
                    return
            else:
                self.report('body-mismatch', rq, {'repr': ctype, 'problem': 'unknown representation of an error',
                                                  'body': body[:200]}, mp_known or self.stale_known('error', out))
                return
        except M.Undecodable as ex:
            self.report('body-mismatch', rq, {'repr': ctype, 'problem': str(ex), 'body': body[:300],
                                              'handler_wrote_first': self.prewrite}, self.stale_known('error', out))
            return
        if bad:
            self.report('body-mismatch', rq, {'repr': ctype, 'fields': bad[:3], 'body': body[:300],
                                              'handler_wrote_first': self.prewrite}, self.stale_known('error', out))
        cl = hvalues(out, 'content-length')
        if cl and cl != [str(len(body))]:
            self.report('body-mismatch', rq, {'problem': 'content-length', 'header': cl, 'len': len(body)})


# ======================================================================== running programs

class _Probe:
    """Recorder stand-in used when shrinking a witness."""

    def __init__(self):
        self.kinds = []

    def count(self, *a, **k):
        pass

    def case(self, *a, **k):
        pass

    def seen(self, *a, **k):
        pass

    def sample(self, *a, **k):
        pass

    def violation(self, kind, witness, known_key=None):
        self.kinds.append((kind, known_key))


def run_program(rec, spec, shrink=True):
    """Build the app described by spec, replay its history; every request is checked.

    cfg['warnings'] == 'error': the whole program (app construction, registrations, requests) runs in a process
    that turns every warning into an exception (python -W error), as CI/staging deployments do.  An application
    that uses no deprecated API itself must behave exactly the same there."""
    if (spec.get('cfg') or {}).get('warnings') == 'error':
        with warnings.catch_warnings():
            warnings.simplefilter('error')
            rec.count('env.warnings_as_errors_programs')
            return _run_program(rec, spec, shrink)
    return _run_program(rec, spec, shrink)


def _run_program(rec, spec, shrink=True):
    prog = Program(spec)
    rec.count('programs')
    rec.count('stack.' + prog.stack)
    for idx, step in enumerate(spec['steps']):
        if step[0] == 'reg':
            prog.register(step)
            rec.count('ops.register')
            continue
        rq = step[1]
        out = prog.run_request(rq)
        if prog.ctl.harness_error:
            raise RuntimeError('harness: ' + prog.ctl.harness_error)
        rec.count('ops.request')
        chk = Checker(rec, prog, idx)
        if prog.ctl.not_constructible:
            # "for all HTTPError subclasses with arbitrary ... " starts with being able to raise them
            rec.count('mon.constructible')
            chk.report('exception-not-constructible', rq, prog.ctl.not_constructible)
        else:
            chk.check_request(rq, out)
        raised = [e for e in prog.ctl.log if e[0] == 'raise']
        key = None
        if raised or rq.get('path') == 'noroute' or rq.get('render_nope') or rq.get('method') in ('WEBSOCKET', 'DELETE'):
            key = (prog.stack, spec.get('classes'), [s for s in spec['steps'][:idx] if s[0] == 'reg'], rq,
                   spec.get('cfg'))
        rec.case(key)
        for kind, detail, known in chk.found:
            wspec = dict(spec)
            wspec['steps'] = spec['steps'][:idx + 1]
            if shrink and not (known is not None and known in getattr(rec, 'known_keys', ())):
                small = dict(spec)
                small['steps'] = [s for s in spec['steps'][:idx] if s[0] == 'reg'] + [step]
                if len(small['steps']) < len(wspec['steps']):
                    p = _Probe()
                    try:
                        run_program(p, small, shrink=False)
                    except Exception:  # noqa
                        p.kinds = []
                    if (kind, known) in p.kinds:
                        wspec = small
            rec.violation(kind, {'spec': wspec, 'detail': detail, 'classified_as': known, 'status': out.get('status'),
                                 'headers': out.get('headers'), 'body': (out.get('body') or b'')[:400]},
                          known_key=known)
    return prog


# ======================================================================== generators

HOSTILE = ['"', '\\', '/', '<', '>', '&', "'", ']]>', '<!--', '&amp;', '&#13;', '</title>', '<![CDATA[x]]>',
           '\x00', '\x01', '\x08', '\x0b', '\x1f', '\x7f', '\x85', ' ', ' ', '\t', '\n', '\r', '\r\n',
           ' ', '  lead', 'trail  ', '\xe9', '\xdf', '€', '中文', 'الع', '\U0001F600',
           '\U0010FFFF', '�', '￾', '￿', 'é', '퟿', '', '%', '%20', '%zz', '%C3%A9',
           '+', '#', '?', '=', ';', ',', '{', '}', '[', ']', '^', '`', '|', '​', '﻿', 'x' * 300,
           '\\u0041', '\\"', '\\\\', 'http://example.com/a b?q=\xe9&r=1#frag', '//', '..', 'ſ', 'İ']


def rand_str(rng, maxparts=6):
    n = rng.randint(0, maxparts)
    parts = []
    for _ in range(n):
        r = rng.random()
        if r < 0.45:
            parts.append(rng.choice(HOSTILE))
        elif r < 0.9:
            parts.append(''.join(rng.choice('abcXYZ 019-_.') for _ in range(rng.randint(1, 8))))
        else:
            parts.append(chr(rng.choice([rng.randint(0x20, 0x7e), rng.randint(0xa0, 0x2fff),
                                         rng.randint(0xe000, 0xfffd), rng.randint(0x10000, 0x10ffff)])))
    return ''.join(parts)


HDR_NAMES = ['X-A', 'x-b', 'X-Request-Id', 'Cache-Control', 'Retry-After', 'X-C04', 'Link', 'WWW-Authenticate',
             'ETag', 'X-Frame-Options']


VARY_VALUES = ['Accept-Language', 'Cookie', 'accept-encoding', 'Cookie, Accept-Encoding', 'Origin,User-Agent',
               'Accept', 'Accept-Language, accept', '*', 'X-Tenant ,  Cookie']
MULTI_VALUED = [['Cache-Control', 'no-store, max-age=0'], ['Link', '</a>; rel="next", </b>; rel="prev"'],
                ['Allow', 'GET, HEAD'], ['Access-Control-Expose-Headers', 'X-A, X-B'],
                ['Content-Language', 'en, de-CH']]


def rand_headers(rng, exclude=(), vary=False):
    names = [n for n in HDR_NAMES if n.lower() not in exclude]
    rng.shuffle(names)
    out = []
    for n in names[:rng.randint(0, 3)]:
        v = ''.join(rng.choice('abcXYZ019 -_.;=,/"éÿ§') for _ in range(rng.randint(1, 12))).strip() or 'v'
        out.append([n, v])
    if vary:
        # multi-valued headers, Vary in particular (the default rendering appends to it)
        if rng.random() < 0.4:
            out.insert(rng.randint(0, len(out)), ['Vary' if rng.random() < 0.7 else 'vary', rng.choice(VARY_VALUES)])
        if rng.random() < 0.3:
            mv = rng.choice(MULTI_VALUED)
            if mv[0].lower() not in exclude and all(h[0].lower() != mv[0].lower() for h in out):
                out.append(list(mv))
    return out


SIMPLE_ERRORS = [n for n in M.ERROR_STATUS if n not in (
    'HTTPRouteNotFound', 'HTTPMethodNotAllowed', 'HTTPRangeNotSatisfiable', 'HTTPInvalidHeader', 'HTTPMissingHeader',
    'HTTPInvalidParam', 'HTTPMissingParam', 'MediaNotFoundError', 'MediaMalformedError', 'MediaValidationError',
    'MultipartParseError')]


SURROGATE_STRS = ['\ud83d', 'a\udfffb', '\ud800\ud800', 'ok \udc00 end', '\udbff<&>']


def rand_error_fields(rng, es, allow_title=True):
    if allow_title and rng.random() < 0.7:
        es['title'] = rand_str(rng, 4)
    r = rng.random()
    if r < 0.7:
        es['description'] = rand_str(rng)
    elif r < 0.8:
        es['description'] = None
    if rng.random() < 0.04:
        # str values that are not well-formed Unicode (e.g. json.loads('"\\ud83d"') of a truncated emoji escape)
        es['title' if (allow_title and rng.random() < 0.5) else 'description'] = \
            rand_str(rng, 2) + rng.choice(SURROGATE_STRS)
    if rng.random() < 0.5:
        es['code'] = rng.choice([0, 1, -1, 7, 404, 2 ** 31, 2 ** 70, rng.randint(-1000, 100000)])
    if rng.random() < 0.5:
        es['href'] = rng.choice(['http://example.com/e/', 'https://é.example/ü?x=1&y= 2', '', '/rel/path']) \
            + rand_str(rng, 3)
        if rng.random() < 0.6:
            es['href_text'] = rand_str(rng, 3)
    if rng.random() < 0.5:
        es['headers'] = rand_headers(rng, exclude=('retry-after', 'www-authenticate', 'allow', 'content-range'),
                                     vary=True)
        es['hdict'] = rng.random() < 0.5
    return es


def rand_http_error_spec(rng, cls=None, family=None):
    """spec of an HTTPError instance; cls: DAG class name (family tells its falcon root)."""
    if cls is None:
        r = rng.random()
        if r < 0.25:
            cls, family = 'HTTPError', 'HTTPError'
        elif r < 0.85:
            cls = rng.choice(SIMPLE_ERRORS)
            family = cls
        else:
            cls = rng.choice(['HTTPMethodNotAllowed', 'HTTPRangeNotSatisfiable', 'HTTPInvalidHeader',
                              'HTTPMissingHeader', 'HTTPInvalidParam', 'HTTPMissingParam', 'MediaNotFoundError',
                              'HTTPRouteNotFound'])
            family = cls
    es = {'cls': cls}
    if family == 'HTTPError':
        es['status'] = rng.choice([400, 404, 409, 418, 422, 451, 499, 500, 503, 599, 700, 999,
                                   '409 Conflict', '499 Custom Reason', '777 Lucky é', ['enum', 409],
                                   ['enum', 503], rng.randint(400, 599)])
        rand_error_fields(rng, es)
    elif family == 'HTTPMethodNotAllowed':
        es['allowed_methods'] = rng.sample(['GET', 'POST', 'PUT', 'PATCH', 'OPTIONS'], rng.randint(1, 3))
        rand_error_fields(rng, es)
    elif family == 'HTTPRangeNotSatisfiable':
        es['resource_length'] = rng.choice([0, 1, 1234, 2 ** 40])
        rand_error_fields(rng, es)
    elif family in ('HTTPInvalidHeader', 'HTTPInvalidParam'):
        es['pos'] = [rand_str(rng, 2), rng.choice(['X-Thing', 'limit', 'é'])]
        rand_error_fields(rng, es, allow_title=False)
        es.pop('description', None)
    elif family in ('HTTPMissingHeader', 'HTTPMissingParam', 'MediaNotFoundError'):
        es['pos'] = [rng.choice(['X-Thing', 'limit', 'JSON', 'é<>'])]
        rand_error_fields(rng, es, allow_title=False)
        es.pop('description', None)
    else:
        rand_error_fields(rng, es)
        if family == 'HTTPUnauthorized' and rng.random() < 0.6:
            es['challenges'] = rng.sample(['Basic realm="x"', 'Bearer', 'Digest qop="auth"'], rng.randint(1, 2))
        if family in ('HTTPTooManyRequests', 'HTTPServiceUnavailable', 'HTTPContentTooLarge') and rng.random() < 0.6:
            es['retry_after'] = rng.choice([0, 1, 120, 86400])
    return es


def rand_status_spec(rng, cls=None, family='HTTPStatus'):
    if cls is None:
        if rng.random() < 0.7:
            cls = family = 'HTTPStatus'
        else:
            cls = family = rng.choice(sorted(M.REDIRECT_STATUS))
    es = {'cls': cls}
    if family == 'HTTPStatus':
        es['status'] = rng.choice([200, 201, 202, 204, 206, 226, 299, 301, 304, 400, 404, 418, 500, 599,
                                   '200 OK', '299 Fine é', '404 Not Found'])
        es['headers'] = rng.choice([None, None, rand_headers(rng, vary=True)])
        es['text'] = rng.choice([None, '', rand_str(rng)])
    else:
        es['location'] = rng.choice(['/new', 'http://example.com/a?b=c', '/é'.encode('utf-8').decode('latin-1')])
        es['headers'] = rng.choice([None, None, rand_headers(rng)])
    return es


def families(classes_spec):
    """class name -> name of the falcon class whose __init__ builds its instances (None: plain)."""
    made = {}
    out = {}
    for ent in classes_spec:
        name, bases = ent[0], ent[1]
        bs = tuple(made[b] if b in made else BUILTIN_ROOTS[b] if b in BUILTIN_ROOTS else getattr(falcon, b)
                   for b in bases)
        made[name] = type(name, bs, {})
        root = falcon_root(made[name])
        out[name] = root.__name__ if root is not None else None
    return out


def rand_exc_spec(rng, classes_spec):
    """an exception to raise: DAG instance, falcon error, HTTPStatus/redirect or builtin."""
    r = rng.random()
    if classes_spec and r < 0.55:
        name = rng.choice(classes_spec)[0]
        return exc_spec_for(rng, name, families(classes_spec)[name])
    if r < 0.8:
        return rand_http_error_spec(rng)
    if r < 0.9:
        return rand_status_spec(rng)
    return {'cls': rng.choice(['ValueError', 'KeyError', 'RuntimeError', 'Exception', 'NotImplementedError']),
            'msg': rand_str(rng, 2)}


def exc_spec_for(rng, name, fam):
    if fam is None:
        return {'cls': name, 'msg': 'boom ' + name}
    if fam == 'HTTPStatus' or fam in M.REDIRECT_STATUS:
        return rand_status_spec(rng, name, fam)
    return rand_http_error_spec(rng, name, fam)


def rand_preset(rng):
    r = rng.random()
    p = {}
    if r < 0.25:
        p['text'] = 'stale-text ' + rand_str(rng, 2)
    elif r < 0.5:
        p['data'] = 'stale-data'
    elif r < 0.8:
        p['media'] = {'stale': ['media', 1]}
    else:
        p = {'text': 'stale-text', 'data': 'stale-data', 'media': {'stale': True}}
    if rng.random() < 0.3:
        p['status'] = rng.choice([201, 202, 404])
    if rng.random() < 0.3:
        p['vary'] = rng.choice(VARY_VALUES)
    if rng.random() < 0.3:
        p['render'] = True      # the component renders the body it has just set (digest / ETag / logging)
    return p


def rand_behaviour(rng):
    r = rng.random()
    st = rng.choice([200, 201, 400, 403, 404, 409, 418, 422, 500, 503, 599])
    hd = rand_headers(rng) if rng.random() < 0.4 else []
    if r < 0.3:
        return ['text', st, 'handled: ' + rand_str(rng, 3), hd]
    if r < 0.4:
        return ['data', st, 'data: ' + rand_str(rng, 2), hd]
    if r < 0.55:
        return ['media', st, {'handled': rand_str(rng, 2), 'n': [1, 2, {'k': None}]}, hd]
    if r < 0.7:
        return ['none', st, None, hd]
    if r < 0.88:
        return ['raise_http', rand_http_error_spec(rng), rand_prewrite(rng)]
    return ['raise_status', rand_status_spec(rng), rand_prewrite(rng)]


PREWRITES = [{'text': 'pre-written text \xe9'}, {'text_bytes': 'pre-written bytes'}, {'data': 'pre-written data'},
             {'media': {'pre': ['written', 1]}},
             {'text': 'pre-written text', 'data': 'pre-written data', 'media': {'pre': 'written'}}]


def rand_prewrite(rng):
    """what an error handler writes to the response before it raises (None: nothing)"""
    if rng.random() < 0.6:
        return None
    # (media written first is exercised by the exhaustive block only: whether a surviving media can be
    #  serialized at all depends on the Content-Type the later rendering happens to leave behind)
    pre = dict(rng.choice(PREWRITES))
    pre.pop('media', None)
    return pre


MIXED_CASE_SUFFIX = ['application/vnd.acme.v2+JSON', 'Application/Atom+XML', 'application/vnd.c04+Json',
                     'APPLICATION/VND.C04+JSON;q=0.5', 'application/vnd.c04+XML;q=0.9, image/png',
                     'text/html, Application/Problem+Json;q=0.8', 'IMAGE/SVG+XML',
                     'application/vnd.c04+JSON, application/vnd.c04+xml', 'image/png;Q=0.9, application/hal+JSON',
                     'Application/Vnd.C04+Xml;q=0.001, text/plain', 'application/vnd.c04+JSON;q=0.3, Image/PNG',
                     'text/html;q=0.9,application/xhtml+XML;q=0.8']
OBS_TEXT_ACCEPTS = ['application/json, text/caf\xe9', '\xff\xfe', 'text/xml;q=0.9, \xe9/\xe8', '\x80',
                    'application/vnd.c04+json\x80', '\xc3\xa9/\xc3\xa9', 'text/xml, */*;q=0.1;x=\xa0',
                    '\xa0application/json', 'application/vnd.\xe9+xml', 'image/png;q=0.9\xff',
                    'text/html;level=\xb9, application/xml', 'application/x-c04;v=\xfc;q=0.5, image/png',
                    '\xe2\x82\xac/*, text/xml;q=0.2', 'application/json\xff;q=0.5']
COMPETING_PARAM_ACCEPTS = [
    'application/json;v=1;q=0.9, application/json;v=1;x=2;q=0.1, application/xml;q=0.5',
    'application/json;v=1;x=2;q=0.9, application/json;v=1;q=0.1, application/xml;q=0.5',
    'text/xml;a=1;q=0.2, text/xml;a=1;b=2;c=3;q=0.8, application/json;q=0.5',
    'application/xml;q=0.5, application/json;level=1;q=0.4, application/json;level=1;ext=x;q=0.6, application/json;q=0.3',
    'application/vnd.c04+yaml;version=2;q=0.1, application/vnd.c04+yaml;a=1;b=2;q=0.9, application/json;q=0.5',
    'application/vnd.c04+yaml;version=2;q=0.9, application/vnd.c04+yaml;a=1;b=2;q=0.1, application/json;q=0.5',
    'application/vnd.c04+yaml;version=2;profile=full;q=0.2, application/vnd.c04+yaml;version=2;q=0.9, text/xml;q=0.5',
    'application/vnd.c04+yaml;version=3;q=0.9, application/vnd.c04+yaml;q=0.2, application/json;q=0.5',
    'application/*;v=1;q=0.1, application/json;v=2;w=3;q=0.7, */*;z=1;q=0.9, text/xml;q=0.6',
    'application/json;q=0.5, application/json;q=0.9, application/json;q=0.1, text/xml;q=0.7',
    'application/x-c04;v=1;q=0.3, application/x-c04;v=1;w=2;q=0.8, application/x-c04;q=0.1, application/json;q=0.5',
    'text/xml;charset=utf-8;q=0.4, text/xml;charset=utf-8;x=1;q=0.9, application/xml;charset=utf-8;q=0.6, application/json;q=0.5',
]
ACCEPT_TYPES = ['application/json', 'text/xml', 'application/xml', CUSTOM_TYPE, '*/*', 'application/*', 'text/*',
                'image/png', 'text/html', 'text/plain', 'application/vnd.c04+json', 'application/vnd.c04+xml',
                'application/yaml', 'application/problem+json', 'image/svg+xml',
                'application/vnd.acme.v2+JSON', 'Application/Atom+XML', 'application/vnd.c04+Json', 'IMAGE/SVG+XML',
                'Text/Html', 'application/hal+JSON']
QVALS = ['', '', '', ';q=0', ';q=0.0', ';q=0.1', ';q=0.5', ';q=0.9', ';q=1', ';q=1.0', ';q=0.001', ';q=0.999',
         ';q=1.000', '; q=0.3', ' ;q=0.7']
WEAK_ACCEPTS = ['', 'garbage', '*', 'application/json;q=2', 'text/xml;q=abc', ',', 'a/b;q="0.5"',
                'Application/JSON', 'application/json;version=1', 'text/xml;charset=utf-8;q=0.9, */*;q=0.1',
                'application/json;q=0.5, application/json;q=0.9', 'application/vnd.c04+json;q=0',
                'application/json;q=1.0000', '*/json', 'application/json, ,text/xml', 'text/xml;q=1.5, application/json;q=0']


def rand_accept(rng):
    r = rng.random()
    if r < 0.12:
        return None
    if r < 0.2:
        return rng.choice(WEAK_ACCEPTS)
    if r < 0.23:
        return rng.choice(MIXED_CASE_SUFFIX)
    if r < 0.26:
        return rng.choice(OBS_TEXT_ACCEPTS)
    if r < 0.33:
        # three or more competing ranges, some carrying parameters
        parts = []
        for _ in range(rng.randint(3, 5)):
            t = rng.choice(['application/json', 'text/xml', 'application/xml', CUSTOM_TYPE, 'application/vnd.c04+yaml',
                            'application/*', '*/*'])
            ps = ''.join(';%s=%s' % (k_, rng.choice('12')) for k_ in rng.sample(['v', 'x', 'version', 'profile', 'a'],
                                                                                rng.randint(0, 3)))
            parts.append(t + ps.replace('profile=1', 'profile=full').replace('profile=2', 'profile=full')
                         + rng.choice(QVALS))
        return ', '.join(parts)
    if r < 0.35:
        # arbitrary header octets next to a well-formed range
        junk = ''.join(chr(rng.choice([rng.randint(0x80, 0xff), rng.randint(0x21, 0x7e)])) for _ in range(rng.randint(1, 6)))
        return rng.choice([junk, 'application/json, ' + junk, junk + ', text/xml;q=0.5', 'text/' + junk])
    if r < 0.39:
        return rng.choice([M.URLENC, M.MULTIPART, M.URLENC + ';q=0.9, application/json;q=0.1',
                           'multipart/form-data, application/json;q=0.5', 'application/*;q=0.9, application/json;q=0.1'])
    n = rng.choice([1, 1, 2, 2, 3, 4, 6])
    parts = []
    for _ in range(n):
        parts.append(rng.choice(ACCEPT_TYPES) + rng.choice(QVALS))
    return rng.choice([', ', ',', ' , ', ',\t']).join(parts)


ODD_HANDLER_KEYS = ['yaml', 'msgpack', 'json', 'application', 'x-c04;v=1']


def rand_cfg(rng, boom=False):
    return {'xml': rng.random() < 0.7, 'custom_media': rng.random() < 0.5,
            'json_handler': rng.choice(['default', 'default', 'custom', 'removed']),
            'xml_handler': rng.random() < 0.2, 'independent': rng.random() < 0.6, 'boom': boom,
            'handlers_mode': rng.choice(['stock', 'stock', 'forms_deleted', 'replaced']),
            'warnings': 'error' if rng.random() < 0.2 else 'default',
            'odd_handler_key': rng.choice(ODD_HANDLER_KEYS) if rng.random() < 0.08 else None,
            'param_media': rng.random() < 0.3}


ROOT_CHOICES = ['Exception', 'Exception', 'HTTPError', 'HTTPNotFound', 'HTTPStatus', 'ValueError', 'LookupError',
                'KeyError', 'HTTPBadRequest', 'HTTPFound']


def _constructible(cls, root):
    try:
        inst = cls.__new__(cls)
        if issubclass(root, falcon.HTTPStatus):
            if root is falcon.HTTPStatus:
                root.__init__(inst, 200, None, None)
            else:
                root.__init__(inst, '/x', None)
        elif root is falcon.HTTPError:
            root.__init__(inst, 400, title='t', description='d', headers=None, href='h', href_text='t', code=1)
        else:
            root.__init__(inst, title='t', description='d', headers=None, href='h', href_text='t', code=1)
        return well_formed(inst)
    except Exception:  # noqa
        return False


def rand_classes(rng):
    """class DAG (depth <= 4, diamonds); only combinations Python accepts are kept."""
    specs = []
    made = {}
    depth = {}

    def res(n):
        if n in made:
            return made[n]
        if n in BUILTIN_ROOTS:
            return BUILTIN_ROOTS[n]
        return getattr(falcon, n)

    n = rng.randint(2, 8)
    tries = 0
    while len(specs) < n and tries < 60:
        tries += 1
        name = 'K%d' % len(specs)
        pool = [s[0] for s in specs if depth[s[0]] < 4]
        k = 1 if (not pool or rng.random() < 0.55) else 2
        bases = []
        for _ in range(k):
            b = rng.choice(pool) if (pool and rng.random() < 0.7) else rng.choice(ROOT_CHOICES)
            if b not in bases:
                bases.append(b)
        try:
            cls = type(name, tuple(res(b) for b in bases), {})
        except TypeError:
            continue
        # the instance must be constructible through one falcon root only
        roots = [c for c in cls.__mro__ if (c.__module__ or '').startswith('falcon')]
        if roots and not all(issubclass(roots[0], r) for r in roots):
            continue
        if roots and not _constructible(cls, roots[0]):
            continue        # e.g. a builtin between two cooperative falcon __init__s
        made[name] = cls
        depth[name] = 1 + max([depth.get(b, 0) for b in bases])
        ent = [name, bases, rng.random() < 0.2]
        if rng.random() < 0.15:
            # the instances advertise another class through __class__
            ent.append(rng.choice([s_[0] for s_ in specs] + REG_ROOT_TARGETS))
        specs.append(ent)
    return specs


REG_ROOT_TARGETS = ['Exception', 'HTTPError', 'HTTPNotFound', 'HTTPStatus', 'ValueError', 'LookupError',
                    'HTTPRouteNotFound', 'HTTPMethodNotAllowed', 'HTTPBadRequest', 'HTTPUnsupportedMediaType',
                    'HTTPFound', 'HTTPForbidden', 'NotImplementedError']


def handle_available(name, classes_spec):
    """does plain attribute lookup find a generated ``handle`` on this class?"""
    by = {c[0]: c for c in classes_spec}
    todo, seen = [name], set()
    while todo:
        n = todo.pop()
        if n in seen or n not in by:
            continue
        seen.add(n)
        if by[n][2]:
            return True
        todo.extend(by[n][1])
    return False


def rand_reg(rng, classes_spec, hids):
    names = [c[0] for c in classes_spec]
    r = rng.random()
    with_handle = [n for n in names if handle_available(n, classes_spec)]
    if with_handle and r < 0.2:
        return ['reg', [rng.choice(with_handle)], None]

    def pick():
        return rng.choice(names) if (names and rng.random() < 0.7) else rng.choice(REG_ROOT_TARGETS)
    if r < 0.45:
        k = rng.randint(2, 3)
        ts = []
        for _ in range(k):
            t = pick()
            if t not in ts:
                ts.append(t)
        return ['reg', ts, rng.choice(hids), rng.choice(['tuple', 'list'])]
    return ['reg', [pick()], rng.choice(hids)]


def rand_request(rng, classes_spec, cfg):
    rq = {'accept': rand_accept(rng)}
    r = rng.random()
    plan = []
    if r < 0.07:
        rq['path'] = 'noroute'
    elif r < 0.12:
        rq['method'] = 'DELETE'
    elif r < 0.15:
        rq['method'] = 'WEBSOCKET'
    elif r < 0.19 and cfg.get('boom') is not None:
        rq['render_nope'] = True
        plan.append(['responder', {'media': {'x': 1}, 'ctype': NOPE_TYPE}, None])
        rq['plan'] = plan
        return rq
    elif r < 0.3:
        rq['path'] = 'sink'
    if 'method' not in rq:
        rq['method'] = rng.choice(['GET', 'GET', 'POST', 'POST', 'HEAD'])
    internal = rq.get('path') == 'noroute' or rq['method'] in ('DELETE', 'WEBSOCKET')
    if rq.get('path') == 'sink':
        first_sites = SITES_REQ + ['sink', 'sink']
    elif internal:
        first_sites = []
    else:
        first_sites = SITES_REQ + SITES_MID + ['responder', 'responder']
    # presets before the first raise
    if not internal and rng.random() < 0.5:
        s = rng.choice(first_sites)
        plan.append([s, rand_preset(rng), None])
    if first_sites and rng.random() < 0.85:
        s = rng.choice(first_sites)
        ent = next((p for p in plan if p[0] == s), None)
        exc = rand_exc_spec(rng, classes_spec)
        if ent:
            ent[2] = exc
        else:
            plan.append([s, rand_preset(rng) if rng.random() < 0.4 else None, exc])
    if rng.random() < (0.6 if internal else 0.25):
        s = rng.choice(SITES_RESP)
        plan.append([s, rand_preset(rng) if rng.random() < 0.3 else None, rand_exc_spec(rng, classes_spec)])
        if rng.random() < 0.3:
            s2 = [x for x in SITES_RESP if x != s][0]
            plan.append([s2, None, rand_exc_spec(rng, classes_spec)])
    if cfg.get('boom') and not internal and rq.get('path') != 'sink' and rng.random() < 0.25:
        plan = [p for p in plan if p[0] in SITES_REQ and p[2] is None]
        plan.append(['responder', {'media': {'x': [1, 2]}, 'ctype': BOOM_TYPE}, None])
        plan.append(['render', None, rand_exc_spec(rng, classes_spec)])
    if cfg.get('json_handler') == 'removed':
        for p_ in plan:         # rendering media early needs a JSON handler; keep such apps coherent
            if p_[1]:
                p_[1].pop('render', None)
    rq['plan'] = plan
    return rq


def rand_program(rng, stack):
    classes = rand_classes(rng)
    hids = ['h%d' % i for i in range(rng.randint(2, 6))]
    handlers = {h: rand_behaviour(rng) for h in hids}
    for c in classes:
        if c[2]:
            handlers['handle:' + c[0]] = rand_behaviour(rng)
    cfg = rand_cfg(rng, boom=rng.random() < 0.6)
    if cfg['json_handler'] == 'removed':
        # a handler that answers with JSON media needs a JSON media handler; keep such apps coherent
        for h, b in handlers.items():
            if b[0] == 'media':
                handlers[h] = ['text', b[1], 'no json here', b[3]]
            elif len(b) > 2 and isinstance(b[2], dict) and 'media' in b[2]:
                b[2].pop('media')
    steps = []
    for _ in range(rng.randint(0, 4)):
        steps.append(rand_reg(rng, classes, hids))
    for _ in range(rng.randint(8, 30)):
        if rng.random() < 0.25:
            steps.append(rand_reg(rng, classes, hids))
        else:
            steps.append(['req', rand_request(rng, classes, cfg)])
    return {'stack': stack, 'cfg': cfg, 'classes': classes, 'handlers': handlers, 'steps': steps}


# ======================================================================== bounded-exhaustive parts

E1_CLASSES = [['A', ['Exception'], False], ['B', ['A'], False], ['C', ['A'], False], ['D', ['B', 'C'], False],
              ['E', ['HTTPError'], False], ['F', ['D', 'E'], False], ['G', ['HTTPNotFound'], False],
              ['H', ['HTTPStatus'], False], ['V', ['ValueError', 'A'], False],
              # instances whose __class__ attribute advertises a class outside their MRO
              ['Q', ['B'], False, 'C'], ['R', ['A'], False, 'HTTPNotFound'], ['EA', ['E'], False, 'A'],
              ['HA', ['H'], False, 'HTTPError'], ['W', ['Exception'], False, 'H']]
E1_TARGETS = ['A', 'B', 'C', 'D', 'E', 'F', 'G', 'H', 'V', 'Exception', 'HTTPError', 'HTTPNotFound', 'HTTPStatus']
E1_RAISES = [
    {'cls': 'A'}, {'cls': 'B'}, {'cls': 'C'}, {'cls': 'D'},
    {'cls': 'E', 'status': 409, 'title': 'tE', 'description': 'dE'},
    {'cls': 'F', 'status': 410, 'title': 'tF'},
    {'cls': 'G', 'title': 'tG', 'code': 0},
    {'cls': 'H', 'status': 202, 'headers': [['X-H', '1']], 'text': 'textH'},
    {'cls': 'V'}, {'cls': 'ValueError'}, {'cls': 'KeyError'},
    {'cls': 'HTTPNotFound', 'description': 'plain 404'}, {'cls': 'HTTPForbidden'},
    {'cls': 'HTTPStatus', 'status': 201, 'headers': None, 'text': 'created'},
    {'cls': 'Q'}, {'cls': 'R'}, {'cls': 'EA', 'status': 409, 'title': 'tEA'},
    {'cls': 'HA', 'status': 203, 'headers': None, 'text': 'textHA'}, {'cls': 'W'},
]


def e1_programs(maxlen):
    """every registration history of length <= maxlen over E1_TARGETS (fresh handler each time),
    after each registration every exception of E1_RAISES is raised from the responder + a 404 route miss."""
    hist = [[]]
    out = []
    for L in range(1, maxlen + 1):
        hist = [h + [t] for h in hist for t in E1_TARGETS]
        out.extend(hist)
    return out


def e1_spec(stack, history):
    handlers = {'h%d' % i: ['text', 470 + i, 'handler-%d' % i, [['X-Handler', 'h%d' % i]]] for i in range(len(history))}
    steps = []
    for i, t in enumerate(history):
        steps.append(['reg', [t], 'h%d' % i])
        if i == len(history) - 1 or True:
            for es in E1_RAISES:
                steps.append(['req', {'method': 'GET', 'accept': None, 'plan': [['responder', None, es]]}])
            steps.append(['req', {'method': 'GET', 'path': 'noroute', 'accept': None, 'plan': []}])
    return {'stack': stack, 'cfg': {'independent': True}, 'classes': E1_CLASSES, 'handlers': handlers, 'steps': steps}


E2_CLASSES = [['A', ['Exception'], False], ['B', ['A'], False], ['C2', ['A'], False], ['C3', ['A'], False],
              ['M1', ['A'], True], ['M2', ['M1'], False], ['E', ['HTTPError'], False]]
E2_FULL = {'title': 'T "q" <&> é', 'description': 'D\n\tline €', 'code': 0, 'href': 'http://é.example/a b?x=<1>',
           'href_text': 'more & more', 'headers': [['X-Err', 'e1'], ['X-Err2', 'é']], 'hdict': True}
E2_HANDLERS = {
    'h0': ['text', 418, 'text from h0 é', [['X-H0', 'yes']]],
    'h1': ['none', 409, None, []],
    'h2': ['raise_http', dict(E2_FULL, cls='HTTPConflict')],
    'h3': ['raise_status', {'cls': 'HTTPStatus', 'status': 202, 'headers': [['X-S', 's']], 'text': 'status text é'}],
    'handle:M1': ['media', 422, {'m': [1, 'é', None]}, []],
    'h5': ['data', 503, 'data from h5', []],
}
E2_REGS = [['reg', ['A'], 'h0'], ['reg', ['B'], 'h1'], ['reg', ['C2'], 'h2'], ['reg', ['C3'], 'h3'],
           ['reg', ['M1'], None], ['reg', ['LookupError', 'RuntimeError'], 'h5']]
E2_KINDS = [
    {'cls': 'A'}, {'cls': 'B'}, {'cls': 'C2'}, {'cls': 'C3'}, {'cls': 'M2'}, {'cls': 'KeyError'}, {'cls': 'LookupError'},
    {'cls': 'RuntimeError'},
    dict(E2_FULL, cls='HTTPForbidden'),
    dict(E2_FULL, cls='E', status=451),
    {'cls': 'HTTPError', 'status': '499 Custom Reason'},
    {'cls': 'HTTPStatus', 'status': 201, 'headers': [['X-St', '1']], 'text': 'made é'},
    {'cls': 'HTTPFound', 'location': '/elsewhere', 'headers': None},
    {'cls': 'ValueError', 'msg': 'boom'},
    {'cls': 'HTTPUnauthorized', 'challenges': ['Basic realm="r"', 'Bearer'], 'headers': [['X-A', 'a']]},
    {'cls': 'HTTPTooManyRequests', 'retry_after': 120, 'description': 'slow down'},
    {'cls': 'HTTPMethodNotAllowed', 'allowed_methods': ['GET', 'PUT']},
    {'cls': 'HTTPRangeNotSatisfiable', 'resource_length': 1234},
    {'cls': 'HTTPInvalidParam', 'pos': ['must be <10>', 'limit']},
    {'cls': 'HTTPMissingHeader', 'pos': ['X-Auth']},
    {'cls': 'HTTPForbidden', 'headers': [['Vary', 'Accept-Language']], 'hdict': True},
    {'cls': 'HTTPGone', 'headers': [['X-Z', 'z'], ['vary', 'Cookie, Accept-Encoding'],
                                    ['Cache-Control', 'no-store, max-age=0']], 'hdict': False},
    {'cls': 'E', 'status': 409, 'headers': [['Vary', 'Accept'], ['Link', '</a>; rel="next", </b>; rel="prev"']],
     'hdict': True},
]
E2_PRESETS = [None, {'text': 'stale text'}, {'data': 'stale data'}, {'media': {'stale': 1}},
              {'text': 'stale text', 'data': 'stale data', 'media': {'stale': 1}, 'status': 201},
              {'media': {'stale': 2}, 'vary': 'Cookie'}, {'vary': 'Origin, accept-encoding'}]


def e2_internal():
    """falcon's own raise sites: route miss, method not allowed, meta method, unknown response media type."""
    out = []
    for preset in E2_PRESETS:
        pl = [['mw0.req', preset, None]] if preset else []
        for acc in (None, 'text/xml', 'image/png', CUSTOM_TYPE + ';q=0.9, */*;q=0.1'):
            out.append({'method': 'GET', 'path': 'noroute', 'accept': acc, 'plan': list(pl)})
            out.append({'method': 'DELETE', 'accept': acc, 'plan': list(pl)})
            out.append({'method': 'PATCH', 'accept': acc, 'plan': list(pl) + [['mw1.resp', None, {'cls': 'B'}]]})
            out.append({'method': 'WEBSOCKET', 'accept': acc, 'plan': []})
            out.append({'method': 'WEBSOCKET', 'path': 'sink', 'accept': acc, 'plan': [['mw0.resp', None, {'cls': 'A'}]]})
            if preset is None or set(preset) <= {'media', 'vary'}:     # text/data would take precedence over media
                out.append({'method': 'GET', 'accept': acc, 'render_nope': True,
                            'plan': list(pl) + [['responder', {'media': {'x': 1}, 'ctype': NOPE_TYPE}, None]]})
                out.append({'method': 'POST', 'accept': acc, 'render_nope': True,
                            'plan': list(pl) + [['responder', {'media': [1], 'ctype': NOPE_TYPE}, None]]})
    return out


E2B_REGS = [['reg', ['HTTPNotFound'], 'h0'], ['reg', ['HTTPMethodNotAllowed', 'HTTPBadRequest'], 'h1', 'tuple'],
            ['reg', ['HTTPUnsupportedMediaType'], 'h5'], ['reg', ['HTTPMethodNotAllowed'], 'h2']]


def e2_requests():
    out = []
    for site in SITES_REQ + SITES_MID + ['sink'] + SITES_RESP + ['render']:
        for exc in E2_KINDS:
            for preset in E2_PRESETS:
                rq = {'method': 'POST', 'accept': None}
                if site == 'sink':
                    rq['path'] = 'sink'
                if site == 'render':
                    if preset is not None and 'media' not in preset:
                        continue
                    rq['plan'] = [['responder', {'media': {'x': 1}, 'ctype': BOOM_TYPE}, None], ['render', None, exc]]
                else:
                    rq['plan'] = [[site, preset, exc]]
                out.append(rq)
    out.extend(e2_internal())
    # two raises in one request
    pair = [E2_KINDS[i] for i in (0, 1, 2, 6, 9, 11)]
    for s1 in ['mw0.req', 'mw1.rsrc', 'before', 'responder', 'after', 'sink']:
        for s2 in SITES_RESP:
            for x1 in pair:
                for x2 in pair:
                    rq = {'method': 'GET', 'accept': None, 'plan': [[s1, {'media': {'stale': 1}}, x1], [s2, None, x2]]}
                    if s1 == 'sink':
                        rq['path'] = 'sink'
                    out.append(rq)
    for x1 in pair:
        for x2 in pair:
            out.append({'method': 'GET', 'accept': None, 'plan': [['mw1.resp', None, x1], ['mw0.resp', None, x2]]})
            out.append({'method': 'GET', 'path': 'noroute', 'accept': None, 'plan': [['mw1.resp', None, x1]]})
    return out


E3_ACCEPTS = [
    None, '*/*', 'application/json', 'text/xml', 'application/xml', CUSTOM_TYPE, 'application/*', 'text/*',
    'image/png', 'text/html, image/*', 'application/json;q=0', '*/*;q=0', 'text/xml;q=0, */*',
    'application/json;q=0, */*', 'application/json;q=0.5, text/xml;q=0.5', 'text/xml;q=0.5, application/json;q=0.5',
    'application/json;q=0.4, text/xml;q=0.5', 'application/json;q=0.5, text/xml;q=0.4',
    'text/xml, application/xml', 'application/xml, text/xml', 'application/xml;q=0.9, text/xml;q=0.8',
    'application/xml;q=0.8, text/xml;q=0.9', 'application/json;q=0.1, application/*;q=0.9',
    'application/*;q=0.1, application/json;q=0.9', '*/*;q=0.1, text/xml', 'text/*;q=0.3, */*;q=0.2',
    'text/*, application/json;q=0.9', '*/*;q=0.001', 'application/json;q=0.001, text/xml;q=0.002',
    'application/json;q=1.000, text/xml;q=0.999', CUSTOM_TYPE + ', application/json;q=0.9',
    CUSTOM_TYPE + ';q=0.5, application/json;q=0.9', CUSTOM_TYPE + ';q=0.9, text/xml;q=0.95',
    'application/vnd.c04+json', 'application/vnd.c04+xml', 'application/problem+json, text/html',
    'image/svg+xml', 'application/vnd.c04+json, application/vnd.c04+xml', 'application/vnd.c04+xml, image/png',
    'application/vnd.c04+json, text/xml;q=0.1', 'application/yaml', 'text/plain, text/html;q=0.9',
    'application/json , text/xml;q=0.9', 'application/json,text/xml', 'text/xml ;q=0.9 , application/json; q=0.8',
    'text/xml;q=0.9,\tapplication/json;q=0.95', 'text/html, application/xhtml+xml, application/xml;q=0.9, */*;q=0.8',
    'text/html,application/xhtml+xml,image/webp;q=0.9', M.URLENC, M.MULTIPART,
    'application/*;q=0.9, application/json;q=0.1', 'multipart/form-data;q=0.9, application/json',
] + MIXED_CASE_SUFFIX + OBS_TEXT_ACCEPTS + COMPETING_PARAM_ACCEPTS + WEAK_ACCEPTS

E3_CFGS = [{'xml': x, 'custom_media': c, 'json_handler': j, 'xml_handler': h, 'independent': True, 'handlers_mode': m,
            'param_media': c}
           for x in (True, False) for c in (False, True) for j in ('default', 'custom', 'removed')
           for h in (False, True) for m in ('stock', 'forms_deleted', 'replaced')]
E3_ERR = dict(E2_FULL, cls='HTTPConflict')

E4_ACCEPTS = ['application/json', 'text/xml', CUSTOM_TYPE]
E4_FIELDS = ['title', 'description', 'href', 'href_text']
E4_CODES = [0, 1, -1, 2 ** 31, 2 ** 70, -2 ** 63]
E4_STATUS = [400, 418, 499, 599, 700, 998, 999, '999', '999 Last', 200, 101, '409 Conflict', '499 Custom Reason', '777 Lucky é', ['enum', 409]]


def e4_requests():
    out = []
    for s in HOSTILE + ['a' + h + 'b' for h in HOSTILE[:40]]:
        for f in E4_FIELDS:
            for acc in E4_ACCEPTS:
                es = {'cls': 'HTTPGone', 'title': 'T', 'description': 'D', 'href': 'http://x/', 'href_text': 'HT'}
                es[f] = s
                out.append({'method': 'GET', 'accept': acc, 'plan': [['responder', None, es]]})
    for c in E4_CODES:
        for acc in E4_ACCEPTS:
            out.append({'method': 'GET', 'accept': acc,
                        'plan': [['responder', None, {'cls': 'HTTPGone', 'code': c}]]})
    # strings with unpaired surrogates: every text field x every representation (incl. none acceptable)
    for s in SURROGATE_STRS:
        for f in ('title', 'description', 'href_text'):
            for acc in E4_ACCEPTS + [None, 'application/xml', 'image/png', 'application/vnd.c04+xml']:
                es = {'cls': 'HTTPGone', 'title': 'T', 'description': 'D', 'href': 'http://x/', 'href_text': 'HT'}
                es[f] = s
                out.append({'method': 'GET', 'accept': acc, 'plan': [['responder', None, es]]})
                out.append({'method': 'GET', 'accept': acc, 'plan': [['mw0.resp', None, es]]})
    for st in E4_STATUS:
        for acc in E4_ACCEPTS:
            out.append({'method': 'GET', 'accept': acc, 'plan': [['before', None, {'cls': 'HTTPError', 'status': st}]]})
            out.append({'method': 'GET', 'accept': acc,
                        'plan': [['before', None, {'cls': 'HTTPError', 'status': st, 'title': '', 'description': '',
                                                   'href': '', 'href_text': ''}]]})
            out.append({'method': 'GET', 'accept': acc,
                        'plan': [['responder', None, {'cls': 'HTTPError', 'status': st, 'title': 'given title',
                                                      'headers': [['X-E', 'e']], 'hdict': True}]]})
            if not isinstance(st, list):
                out.append({'method': 'GET', 'accept': acc,
                            'plan': [['responder', None, {'cls': 'HTTPStatus', 'status': st, 'headers': [['X-S', 's']],
                                                          'text': 'status text'}]]})
                out.append({'method': 'GET', 'accept': acc,
                            'plan': [['mw1.resp', None, {'cls': 'HTTPStatus', 'status': st, 'headers': None,
                                                         'text': None}]]})
    return out


E5_RAISES = [
    ['raise_status', {'cls': 'HTTPStatus', 'status': 202, 'headers': [['X-S', '1']], 'text': None}],
    ['raise_status', {'cls': 'HTTPFound', 'location': '/elsewhere', 'headers': None}],
    ['raise_status', {'cls': 'HTTPStatus', 'status': 200, 'headers': None, 'text': ''}],
    ['raise_status', {'cls': 'HTTPStatus', 'status': '299 Fine', 'headers': None, 'text': 'status text \xe9'}],
    ['raise_http', {'cls': 'HTTPConflict', 'title': 'T5', 'description': 'D5', 'code': 0}],
]
E5_SITES = ['mw0.req', 'mw1.rsrc', 'responder', 'sink', 'mw0.resp']
E5_ACCEPTS = [None, CUSTOM_TYPE, 'image/png', 'text/xml']


def e5_program(stack):
    """every (what the handler wrote first) x (what it then raised), a class + handler per combination"""
    classes = [['A', ['Exception'], False]]
    handlers, regs, names = {}, [], []
    for i, pre in enumerate(PREWRITES):
        for j, rz in enumerate(E5_RAISES):
            name = 'W%d_%d' % (i, j)
            classes.append([name, ['A'], False])
            handlers['w' + name] = [rz[0], rz[1], dict(pre)]
            regs.append(['reg', [name], 'w' + name])
            names.append(name)
    base = {'stack': stack, 'cfg': {'xml': True, 'custom_media': True, 'independent': True}, 'classes': classes,
            'handlers': handlers, 'steps': regs}
    reqs = []
    for name in names:
        for site in E5_SITES:
            for acc in E5_ACCEPTS:
                rq = {'method': 'GET', 'accept': acc, 'plan': [[site, None, {'cls': name}]]}
                if site == 'sink':
                    rq['path'] = 'sink'
                reqs.append(rq)
    return base, reqs


E6_CFGS = [{'independent': True, 'warnings': 'error'},
           {'independent': True, 'warnings': 'error', 'custom_media': True, 'json_handler': 'custom'},
           {'independent': False, 'warnings': 'error', 'xml': False, 'xml_handler': True},
           {'independent': True, 'warnings': 'error', 'xml': False, 'handlers_mode': 'replaced'},
           {'independent': True, 'warnings': 'error', 'json_handler': 'removed', 'handlers_mode': 'forms_deleted'},
           # a media handler registered under a key that is not type/subtype
           {'independent': True, 'odd_handler_key': 'yaml'},
           {'independent': False, 'odd_handler_key': 'msgpack', 'xml': False, 'handlers_mode': 'forms_deleted',
            'warnings': 'error', 'custom_media': True}]

E8_PRESETS = [{'media': {'early': ['rendered', 1]}, 'render': True},
              {'media': {'early': 'rendered'}, 'ctype': CUSTOM_TYPE, 'render': True},
              {'text': 'early text', 'render': True},
              {'data': 'early data', 'media': {'early': 2}, 'status': 201, 'vary': 'Cookie', 'render': True}]
E8_FLOWS = [('responder', 'responder'), ('responder', 'after'), ('responder', 'mw1.resp'), ('mw0.req', 'before'),
            ('sink', 'mw0.resp'), ('mw1.resp', 'mw0.resp')]
E8_ACCEPTS = [None, CUSTOM_TYPE, 'text/xml', 'image/png', M.URLENC, CUSTOM_TYPE + ';q=0.9, application/json;q=0.1']


def e8_requests():
    """a component sets the body and renders it through the public API; an exception is raised afterwards"""
    kinds = [E2_KINDS[i] for i in (0, 1, 2, 3, 6, 9, 11)] + [{'cls': 'HTTPGone', 'description': 'gone'}]
    out = []
    for preset in E8_PRESETS:
        for s1, s2 in E8_FLOWS:
            for exc in kinds:
                for acc in E8_ACCEPTS:
                    plan = [[s1, dict(preset), exc]] if s1 == s2 else [[s1, dict(preset), None], [s2, None, exc]]
                    rq = {'method': 'POST', 'accept': acc, 'plan': plan}
                    if s1 == 'sink':
                        rq['path'] = 'sink'
                    out.append(rq)
    return out


def e6_program(stack, cfg):
    """warnings-as-errors process: every Accept value x (HTTPError with all fields, route miss, unexpected
    exception -> 500, HTTPError raised by a handler, HTTPStatus, custom handler)"""
    base = {'stack': stack, 'cfg': cfg, 'classes': [['A', ['Exception'], False], ['B', ['A'], False]],
            'handlers': {'h0': ['raise_http', dict(E2_FULL, cls='HTTPGone')], 'h1': ['text', 418, 'teapot', []]},
            'steps': [['reg', ['A'], 'h0'], ['reg', ['B'], 'h1']]}
    reqs = []
    for acc in E3_ACCEPTS:
        reqs.append({'method': 'GET', 'accept': acc, 'plan': [['responder', None, E3_ERR]]})
        reqs.append({'method': 'GET', 'path': 'noroute', 'accept': acc, 'plan': []})
        reqs.append({'method': 'POST', 'accept': acc, 'plan': [['before', None, {'cls': 'ValueError', 'msg': 'x'}]]})
        reqs.append({'method': 'GET', 'accept': acc, 'plan': [['mw1.resp', None, {'cls': 'A'}]]})
        reqs.append({'method': 'GET', 'accept': acc, 'plan': [['sink', None, {'cls': 'B'}]], 'path': 'sink'})
        reqs.append({'method': 'GET', 'accept': acc,
                     'plan': [['responder', None, {'cls': 'HTTPStatus', 'status': 202, 'headers': None, 'text': 't'}]]})
    return base, reqs


def chunked_program(rec, base, requests, size=40):
    """run `requests` against fresh apps built from `base` (+ its registrations), `size` per app."""
    for i in range(0, len(requests), size):
        spec = dict(base)
        spec['steps'] = list(base['steps']) + [['req', r] for r in requests[i:i + size]]
        run_program(rec, spec)


# ======================================================================== entry points

def run(rec):
    rec.rule = ('a case is one request against an app built from a generated program (class DAG, handler '
                'behaviours, registration history so far, media/XML configuration, WSGI or ASGI); non-trivial = at '
                'least one exception is raised while it is processed (by a harness component at a planned site, or '
                'by falcon itself: route miss, method not allowed, meta method, unknown response media type); '
                'distinct by (stack, classes, registrations so far, request plan, configuration)')
    rec.assumptions = [
        'reference registry / Accept negotiation / JSON+XML decoders in vlib/models/c04.py are correct',
        'the handler an exception must be given to is decided from type(ex).__mro__ as computed by Python',
        'strings exclude lone surrogates; header values are visible latin-1 (documented restriction)',
        'XML bodies are compared only when every string is representable in XML 1.0',
        'Accept headers outside the unambiguous RFC 9110 grammar only get the weak check '
        '(body empty or faithful in the announced type)',
        'exceptions other than HTTPError/HTTPStatus raised *by an error handler* are not judged (statement is silent)',
    ]
    quick = rec.tier == 'quick'
    n, me = rec.nshards, rec.shard
    idx = 0
    # ---- E1: handler selection, every registration history up to length L
    maxlen = 2 if quick else 3
    for hist in e1_programs(maxlen):
        for stack in ('wsgi', 'asgi'):
            idx += 1
            if idx % n != me:
                continue
            run_program(rec, e1_spec(stack, hist))
            rec.count('e1.histories')
    # ---- E2: raise sites x exception kinds x body state, both stacks, both middleware modes
    e2 = e2_requests()
    for stack in ('wsgi', 'asgi'):
        for indep in (True, False):
            mine = [r for r in e2 if (idx := idx + 1) % n == me]   # noqa
            base = {'stack': stack, 'cfg': {'independent': indep, 'boom': True}, 'classes': E2_CLASSES,
                    'handlers': E2_HANDLERS, 'steps': list(E2_REGS)}
            chunked_program(rec, base, mine)
            rec.count('e2.requests', len(mine))
            # the same falcon-internal raises with user handlers registered for those error classes
            mine = [r for r in e2_internal() if (idx := idx + 1) % n == me]   # noqa
            base = dict(base, steps=list(E2_REGS) + E2B_REGS)
            chunked_program(rec, base, mine)
            rec.count('e2.requests', len(mine))
    # ---- E2c: the same sites/kinds/body states on a strict JSON-only API (XML off, no form handlers)
    for stack in ('wsgi', 'asgi'):
        mine = [r for r in e2 if not any(p_[0] == 'render' for p_ in r.get('plan') or [])
                and (idx := idx + 1) % n == me]   # noqa
        base = {'stack': stack, 'cfg': {'independent': True, 'xml': False, 'handlers_mode': 'forms_deleted'},
                'classes': E2_CLASSES, 'handlers': E2_HANDLERS, 'steps': list(E2_REGS)}
        chunked_program(rec, base, mine)
        rec.count('e2.requests', len(mine))
    # ---- E3: Accept decision table x configuration
    for cfg in E3_CFGS:
        # quick tier: every option value and every pair with handlers_mode, not the full product
        if quick and cfg['handlers_mode'] != 'stock' and (
                cfg['xml_handler'] or (cfg['handlers_mode'] == 'replaced' and cfg['json_handler'] != 'default')):
            continue
        for stack in ('wsgi', 'asgi'):
            mine = []
            for acc in E3_ACCEPTS:
                for site in ('responder',):
                    idx += 1
                    if idx % n == me:
                        mine.append({'method': 'GET', 'accept': acc, 'plan': [[site, None, E3_ERR]]})
            base = {'stack': stack, 'cfg': cfg, 'classes': [], 'handlers': {}, 'steps': []}
            chunked_program(rec, base, mine, size=200)
            rec.count('e3.requests', len(mine))
    # ---- E4: hostile strings in every field, every representation
    e4 = e4_requests()
    for stack in ('wsgi', 'asgi'):
        for jh in ('default', 'custom'):
            pool = e4
            if quick and jh == 'custom':    # second JSON handler: every 3rd string + all unpaired-surrogate cases
                pool = [r for k_, r in enumerate(e4) if k_ % 3 == 0 or has_surrogate(
                    ''.join(str(v_) for v_ in r['plan'][0][2].values() if isinstance(v_, str)))]
            mine = [r for r in pool if (idx := idx + 1) % n == me]   # noqa
            base = {'stack': stack, 'cfg': {'xml': True, 'custom_media': True, 'independent': True, 'json_handler': jh},
                    'classes': [], 'handlers': {}, 'steps': []}
            chunked_program(rec, base, mine, size=200)
            rec.count('e4.requests', len(mine))
    # ---- E5: an error handler writes text/bytes/data/media to the response, then raises HTTPStatus/HTTPError
    for stack in ('wsgi', 'asgi'):
        base, reqs = e5_program(stack)
        mine = [r for r in reqs if (idx := idx + 1) % n == me]   # noqa
        chunked_program(rec, base, mine, size=100)
        rec.count('e5.requests', len(mine))
    # ---- E8: body rendered early through the public API, exception afterwards; every representation
    e8 = e8_requests()
    for stack in ('wsgi', 'asgi'):
        mine = [r for r in e8 if (idx := idx + 1) % n == me]   # noqa
        base = {'stack': stack, 'cfg': {'independent': True, 'custom_media': True}, 'classes': E2_CLASSES,
                'handlers': E2_HANDLERS, 'steps': list(E2_REGS)}
        chunked_program(rec, base, mine, size=100)
        rec.count('e8.requests', len(mine))
    # ---- E6: the same decisions in a process that turns warnings into errors / with unusual handler keys
    for cfg in E6_CFGS:
        for stack in ('wsgi', 'asgi'):
            base, reqs = e6_program(stack, cfg)
            if quick:
                reqs = [r for k_, r in enumerate(reqs) if (k_ // 6) % 2 == 0 or r.get('path') == 'noroute'
                        or r['method'] == 'POST']      # every 2nd Accept value for 4 of the 6 outcomes
            mine = [r for r in reqs if (idx := idx + 1) % n == me]   # noqa
            chunked_program(rec, base, mine, size=200)
            rec.count('e6.requests', len(mine))
    rec.exhaustive = True
    if me == 0:
        rec.note('exhaustive parts: E1 all registration histories of length <= %d over %d targets x 2 stacks; '
                 'E2 %d site/kind/body-state requests x 4 app variants; E3 %d Accept values x %d configurations x 2; '
                 'E4 %d hostile-string requests x 2' % (maxlen, len(E1_TARGETS), len(e2), len(E3_ACCEPTS),
                                                       len(E3_CFGS), len(e4)))
    # ---- random programs
    rng = rec.rng
    k = 0
    min_programs = 15 if quick else 40      # sized by count so that a loaded machine still explores
    while k < min_programs or rec.budget_ok(0.8):
        k += 1
        spec = rand_program(rng, 'wsgi' if k % 2 else 'asgi')
        run_program(rec, spec)
        rec.count('random.programs')
        if k <= 2:
            rec.sample({'classes': spec['classes'], 'cfg': spec['cfg'],
                        'first_steps': spec['steps'][:4]})
    # ---- floors (per run, merged over shards): ~60 % of what the bounded-exhaustive parts alone
    #      produce in the quick tier (those counts do not depend on speed, seed or shard count)
    floors = {
        'mon.handler_selection': 15000, 'mon.body_reset_seen_by_handler': 4500, 'mon.no_escape': 14000,
        'mon.http_error_outcome': 9500, 'mon.http_status_outcome': 1300, 'mon.custom_outcome': 3200,
        'mon.vary': 9500, 'mon.body.json': 7000, 'mon.body.xml': 800, 'mon.body.configured_type': 700,
        'mon.body.empty': 550, 'mon.body.status_text': 1300, 'mon.body.custom_text': 2000,
        'mon.body.custom_none': 500, 'mon.body.custom_media': 120,
        'negotiation.strong': 9000, 'negotiation.weak': 440,
        'sel.custom': 4500, 'sel.default_py': 2200, 'sel.default_he': 7000, 'sel.default_hs': 1300,
        'sel.nearest_is_ancestor': 1300, 'sel.reregistered_class': 140, 'sel.multiple_inheritance': 1200,
        'sel.handle_staticmethod': 120,
        'chain.handler_raised_http_error': 370, 'chain.handler_raised_http_status': 120,
        'req.multi_raise': 1200, 'req.body_set_before_raise': 3300,
        'site.responder': 9000, 'site.noroute': 600, 'site.meta': 190, 'site.nomethod': 190, 'site.render': 210,
        'stack.wsgi': 220, 'stack.asgi': 220, 'random.programs': 40,
        'chain.handler_wrote_before_raise': 600, 'chain.wrote_text_then_raise_status': 150,
        'chain.wrote_text_bytes_then_raise_status': 90, 'chain.wrote_data_then_raise_status': 150,
        'chain.wrote_media_then_raise_status': 150, 'chain.wrote_text_then_raise_http': 40,
        'mon.no_escape.accept_with_obs_text_octets': 1500, 'mon.no_escape.warnings_as_errors': 3000,
        'env.warnings_as_errors_programs': 10,
        'body.unencodable_code_points': 60, 'body.unpaired_surrogate_in_error': 400,
        'req.body_rendered_before_raise': 1500, 'negotiation.undefined_handler_key_not_a_media_type': 1000, 'req.error_with_unpaired_surrogate': 500,
        'sel.advertised_class_differs': 1000,
        'cfg.single_candidate': 800, 'cfg.few_candidates': 1500, 'cfg.stock_or_more_candidates': 4000,
        'vary.error_defines_members': 500, 'vary.set_before_raise': 550, 'negotiation.mixed_case_decided': 300,
    }
    for s_ in SITES_REQ + SITES_MID + ['sink'] + SITES_RESP:
        if s_ != 'responder':
            floors['site.' + s_] = 220
    for k_, v_ in floors.items():
        rec.floor(k_, v_)


def replay(rec, w):
    wit = w['witness']
    spec = wit['spec']
    run_program(rec, spec, shrink=False)
    rec.case(('replay', spec.get('stack')))
    rec.case(('replay2', len(spec.get('steps', []))))
