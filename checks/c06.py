"""C06 - WSGI, ASGI and the test client are observationally equivalent.  DESIGN.md section 4, C06.

Four legs run the same abstract request + responder script:

  W   falcon.App       driven by vlib.drivers.wsgi  (PEP 3333 server driver)
  A   falcon.asgi.App  driven by vlib.drivers.asgi  (ASGI HTTP driver on the stepped loop)
  SW  falcon.App       driven by falcon.testing.simulate_request   (object of study)
  SA  falcon.asgi.App  driven by falcon.testing.simulate_request   (object of study)

Inside the responder (and middleware) a digest of ~90 request observations is taken by the same
function on every leg; the driver/tap records the response as sent.  Monitors:

  digest W == A, response W == A                 (the two stacks)
  digest SW == W, response SW == W, SA == A      (test client vs spec-faithful driver)
  Result object == what the app actually sent    (status, body, non-repeated headers)
  anchor model (vlib/models/c06_request.py)      (what the statement fixes independently of falcon)
"""

import asyncio
import atexit
import collections.abc
import datetime
import http
import io
import json
import logging
import os
import shutil
import tempfile
import time
import types
import warnings

import falcon
import falcon.asgi
import falcon.testing as testing

from vlib.drivers import asgi as A
from vlib.drivers import wsgi as W
from vlib.models import c06_gen as G
from vlib.models import c06_request as M

LEVEL = 'exploration'
SHARDS = {'quick': 4, 'thorough': 16}
BUDGET = {'quick': 20, 'thorough': 150}

DEFAULT_UA = 'falcon-client/' + falcon.__version__      # documented default of the simulators

logging.getLogger('falcon').addHandler(logging.NullHandler())
logging.getLogger('falcon').propagate = False
warnings.filterwarnings('ignore')

# proposed known_findings keys (narrow classifiers below)
K_SIM_EMPTY_BODY = 'asgi-sim-empty-body-adds-content-length'
K_RAW8_QUERY = 'raw-8bit-query-wsgi-latin1-asgi-utf8'
K_INVALID_CL = 'invalid-content-length-stream-wsgi-empty-asgi-raises'
K_ITER_INPUT = 'wsgi-bounded-stream-next-requires-iterator-input'
K_MULTIPART_NO_CL = 'wsgi-multipart-missing-content-length-assertion'
K_RENDER_ERR_STREAM = 'render-stage-error-asgi-sends-leftover-stream'


# =================================================================================== digest

class CustomError(Exception):
    pass


class CustomChild(CustomError):
    pass


def rec_exc(ex):
    if isinstance(ex, falcon.HTTPError):
        hs = ex.headers
        if hs is not None:
            hs = sorted([str(k).lower(), str(v)] for k, v in (hs.items() if hasattr(hs, 'items') else hs))
        return ['EXC', type(ex).__name__, ex.status_code, ex.title, ex.description, hs]
    return ['EXC', type(ex).__name__, str(ex)[:200]]


def conv(v):
    if v is None or isinstance(v, (bool, int, float, str, bytes)):
        return v
    if isinstance(v, datetime.datetime):
        return ['dt', v.isoformat()]
    if isinstance(v, datetime.date):
        return ['d', v.isoformat()]
    if isinstance(v, falcon.ETag):
        return ['etag', str(v), bool(v.is_weak)]
    if isinstance(v, falcon.Forwarded):
        return ['fwd', v.src, v.dest, v.host, v.scheme]
    if isinstance(v, dict):
        return {str(k): conv(x) for k, x in v.items()}
    if isinstance(v, (list, tuple)):
        return [conv(x) for x in v]
    return ['obj', type(v).__name__]


ATTRS = ['method', 'path', 'query_string', 'content_type', 'content_length', 'accept', 'client_accepts_json',
         'client_accepts_xml', 'client_accepts_msgpack', 'host', 'port', 'netloc', 'scheme', 'forwarded_scheme',
         'forwarded_host', 'forwarded', 'uri', 'url', 'relative_uri', 'prefix', 'forwarded_uri', 'forwarded_prefix',
         'subdomain', 'remote_addr', 'access_route', 'range', 'range_unit', 'date', 'if_modified_since',
         'if_unmodified_since', 'if_match', 'if_none_match', 'if_range', 'user_agent', 'auth', 'referer', 'expect',
         'root_path', 'uri_template', 'is_websocket', 'cookies']
PROBE_PARAMS = ['a', 'b', 'id', 'flag', 'q', 'zz']
PROBE_HEADERS = ['Content-Type', 'content-length', 'X-ABSENT', 'Host', 'cookie']


def call(d, key, fn, *a, **kw):
    try:
        d[key] = conv(fn(*a, **kw))
    except Exception as ex:  # noqa
        d[key] = rec_exc(ex)


def digest(req, params, probe_headers):
    d = {}
    for name in ATTRS:
        try:
            d[name] = conv(getattr(req, name))
        except Exception as ex:  # noqa
            d[name] = rec_exc(ex)
    # second read of the cached ones must be stable
    for name in ('access_route', 'uri', 'relative_uri', 'forwarded_uri', 'prefix', 'if_match', 'cookies'):
        try:
            v = conv(getattr(req, name))
        except Exception as ex:  # noqa
            v = rec_exc(ex)
        if v != d[name]:
            d[name + '#2'] = v
    d['route_params'] = conv(params)
    try:
        ps = req.params
        d['params'] = conv(ps)
        names = PROBE_PARAMS + sorted(k for k in ps if k not in PROBE_PARAMS)
    except Exception as ex:  # noqa
        d['params'] = rec_exc(ex)
        names = PROBE_PARAMS
    for n in names[:12]:
        call(d, 'get_param:' + n, req.get_param, n)
        call(d, 'get_param_as_list:' + n, req.get_param_as_list, n)
        call(d, 'has_param:' + n, req.has_param, n)
    call(d, 'get_param_default', req.get_param, 'zz', default='dflt')
    call(d, 'get_param_required', req.get_param, 'zz', required=True)
    call(d, 'get_param_as_int:id', req.get_param_as_int, 'id')
    call(d, 'get_param_as_int:id:bounds', req.get_param_as_int, 'id', min_value=0, max_value=42)
    call(d, 'get_param_as_float:id', req.get_param_as_float, 'id')
    call(d, 'get_param_as_bool:flag', req.get_param_as_bool, 'flag')
    call(d, 'get_param_as_bool:flag:blank', req.get_param_as_bool, 'flag', blank_as_true=False)
    call(d, 'get_param_as_list:a:int', req.get_param_as_list, 'a', transform=int)
    call(d, 'get_param_as_json:a', req.get_param_as_json, 'a')
    store = {}
    call(d, 'get_param:store', req.get_param, 'a', store=store)
    d['store'] = conv(store)
    # headers
    call(d, 'headers_lower', lambda: dict(req.headers_lower))
    call(d, 'headers_norm', lambda: {k.lower(): v for k, v in req.headers.items()})   # documented: key case differs
    seen = set()
    for n in list(probe_headers) + PROBE_HEADERS:
        for variant in (n, n.lower(), n.upper()):
            if variant in seen:
                continue
            seen.add(variant)
            call(d, 'get_header:' + variant, req.get_header, variant)
    call(d, 'get_header_default', req.get_header, 'X-Absent', default='dflt')
    call(d, 'get_header_required', req.get_header, 'X-Absent', required=True)
    call(d, 'get_header_required_present', req.get_header, 'user-agent', required=True)
    call(d, 'get_header_as_int', req.get_header_as_int, 'X-Num')
    call(d, 'get_header_as_int_cl', req.get_header_as_int, 'Content-Length')
    call(d, 'get_header_as_datetime', req.get_header_as_datetime, 'X-Date')
    call(d, 'get_header_as_datetime_obs', req.get_header_as_datetime, 'x-date', obs_date=True)
    call(d, 'client_accepts:text/plain', req.client_accepts, 'text/plain')
    call(d, 'client_prefers', req.client_prefers, ['application/xml', 'application/json', 'text/html'])
    try:
        cks = sorted(req.cookies)
    except Exception:  # noqa
        cks = []
    for n in cks[:6] + ['absent']:
        call(d, 'get_cookie_values:' + n, req.get_cookie_values, n)
    return d


# =================================================================================== script runner

CUR = {'script': None, 'cap': None, 'probe': ()}


def mkdt(v):
    return datetime.datetime(*v[1:], tzinfo=datetime.timezone.utc)


def val(v):
    if isinstance(v, list) and v and v[0] == 'dt':
        return mkdt(v)
    if isinstance(v, list) and v and v[0] == 'HTTPStatus':
        return http.HTTPStatus(v[1])
    return v


def lat(s):
    return s.encode('latin-1')


def do_propagate(req, what):
    """Accessor called without a try: whatever it raises reaches falcon's error handling."""
    if what == 'range':
        return req.range
    if what == 'content_length':
        return req.content_length
    if what == 'missing_header':
        return req.get_header('X-Absent', required=True)
    if what == 'missing_param':
        return req.get_param('zz', required=True)
    if what == 'date':
        return req.date
    if what == 'param_int':
        return req.get_param_as_int('id', required=True)
    if what == 'header_int':
        return req.get_header_as_int('X-Num', required=True)
    if what == 'if_modified_since':
        return req.if_modified_since
    return None


def fresh(obj):
    """A private copy: scripted application logic may mutate resp.media in place."""
    return json.loads(json.dumps(obj))


def apply_pre(resp, s):
    """Everything a responder sets except the stream (sync/async differ there) and raising."""
    if s['status'] is not None:
        resp.status = val(s['status'])
    if s['content_type'] is not None:
        resp.content_type = s['content_type']
    for op in s['hdr_ops']:
        if op[0] == 'set':
            resp.set_header(op[1], op[2])
        elif op[0] == 'append':
            resp.append_header(op[1], op[2])
        elif op[0] == 'delete':
            resp.delete_header(op[1])
        elif op[0] == 'set_headers':
            resp.set_headers([tuple(x) for x in op[1]])
        elif op[0] == 'set_headers_dict':
            resp.set_headers({k: v for k, v in op[1]})
    for name, v in s['props']:
        v = val(v)
        if name == 'content_range':
            v = tuple(v)
        setattr(resp, name, v)
    for target, rel, kw in s['links']:
        kw = dict(kw)
        if 'title_star' in kw:
            kw['title_star'] = tuple(kw['title_star'])
        if 'link_extension' in kw:
            kw['link_extension'] = [tuple(x) for x in kw['link_extension']]
        resp.append_link(target, rel, **kw)
    for op in s['cookies']:
        kw = {k: val(v) for k, v in op[-1].items()}
        if op[0] == 'set':
            resp.set_cookie(op[1], op[2], **kw)
        else:
            resp.unset_cookie(op[1], **kw)
    b = s['body']
    kind = b[0]
    if kind == 'text':
        resp.text = b[1]
    elif kind == 'data':
        resp.data = lat(b[1])
    elif kind == 'media':
        resp.media = fresh(b[1])
    elif kind == 'text+data':
        resp.text = b[1]
        resp.data = lat(b[2])
    elif kind == 'data+media':
        resp.data = lat(b[1])
        resp.media = fresh(b[2])
    elif kind == 'text+media':
        resp.text = b[1]
        resp.media = fresh(b[2])
    elif kind == 'stream+text':
        resp.text = b[3]


def do_raise(s):
    r = s['raise']
    kind = r[0]
    if kind == 'error':
        cls = getattr(falcon, r[1], None) or getattr(falcon.errors, r[1])
        kw = {k: val(v) for k, v in r[2].items()}
        if isinstance(kw.get('headers'), list):
            kw['headers'] = [tuple(x) for x in kw['headers']]
        pos = []
        for name in ('allowed_methods', 'resource_length', 'msg', 'header_name', 'param_name', 'status'):
            if name in kw:
                pos.append(kw.pop(name))
        raise cls(*pos, **kw)
    if kind == 'status':
        hs = r[2]
        if isinstance(hs, list):
            hs = [tuple(x) for x in hs]
        raise falcon.HTTPStatus(val(r[1]), headers=hs, text=r[3])
    if kind == 'redirect':
        raise getattr(falcon, r[1])(r[2])
    if kind == 'redirect+headers':
        raise getattr(falcon, r[1])(r[2], headers=dict(r[3]))
    if kind == 'exc':
        raise {'ValueError': ValueError, 'KeyError': KeyError, 'ZeroDivisionError': ZeroDivisionError}[r[1]]('scripted ' + r[1])
    if kind == 'custom':
        raise CustomError(r[1])
    if kind == 'custom_child':
        raise CustomChild(r[1])
    raise AssertionError(r)


class SyncFile:
    def __init__(self, chunks, closable=True):
        self._b = io.BytesIO(b''.join(chunks))
        self.closed_n = 0
        if closable:
            self.close = self._close

    def read(self, n=-1):
        return self._b.read(n)

    def _close(self):
        self.closed_n += 1


class AsyncFile:
    def __init__(self, chunks, closable=True):
        self._b = io.BytesIO(b''.join(chunks))
        if closable:
            self.close = self._close

    async def read(self, n=-1):
        return self._b.read(n)

    async def _close(self):
        pass


class SyncPieces:
    """File-like whose read(n) hands the data out in the pieces it arrived in (pipe / socket / decompressor style):
    a read may legally return fewer than n bytes although more follow; only b'' means EOF."""

    def __init__(self, chunks):
        self._pieces = [c for c in chunks if c]
        self.closed_n = 0

    def read(self, n=-1):
        if not self._pieces:
            return b''
        p = self._pieces[0]
        if n is None or n < 0 or len(p) <= n:
            return self._pieces.pop(0)
        self._pieces[0] = p[n:]
        return p[:n]

    def close(self):
        self.closed_n += 1


class AsyncPieces(SyncPieces):
    async def read(self, n=-1):
        return SyncPieces.read(self, n)

    async def close(self):
        self.closed_n += 1


class AsyncIter:
    def __init__(self, chunks):
        self._it = iter(chunks)

    def __aiter__(self):
        return self

    async def __anext__(self):
        try:
            return next(self._it)
        except StopIteration:
            raise StopAsyncIteration


def set_stream_sync(resp, b):
    if not b[0].startswith('stream'):
        return
    kind, chunks, n = b[1], [lat(c) for c in b[2]], b[3] if b[0] == 'stream' else None
    if kind == 'gen':
        def g():
            for c in chunks:
                yield c
        resp.stream = g()
    elif kind == 'iter':
        resp.stream = iter(chunks)
    elif kind == 'list':
        resp.stream = chunks
    elif kind == 'file':
        resp.stream = SyncFile(chunks)
    elif kind == 'file_noclose':
        resp.stream = SyncFile(chunks, closable=False)
    elif kind == 'set_stream':
        resp.set_stream(SyncFile(chunks), n)
    elif kind == 'file_short':
        resp.stream = SyncPieces(chunks)
    elif kind == 'set_stream_short':
        resp.set_stream(SyncPieces(chunks), n)


def set_stream_async(resp, b):
    if not b[0].startswith('stream'):
        return
    kind, chunks, n = b[1], [lat(c) for c in b[2]], b[3] if b[0] == 'stream' else None
    if kind in ('gen', 'list'):
        async def g():
            for c in chunks:
                yield c
        resp.stream = g()
    elif kind == 'iter':
        resp.stream = AsyncIter(chunks)
    elif kind == 'file':
        resp.stream = AsyncFile(chunks)
    elif kind == 'file_noclose':
        resp.stream = AsyncFile(chunks, closable=False)
    elif kind == 'set_stream':
        resp.set_stream(AsyncFile(chunks), n)
    elif kind == 'file_short':
        resp.stream = AsyncPieces(chunks)
    elif kind == 'set_stream_short':
        resp.set_stream(AsyncPieces(chunks), n)


def media_conv(m):
    return ['media', conv(m)]


def is_form(m):
    return type(m).__name__ == 'MultipartForm'


def part_text_sync(part):
    try:
        return part.get_text()
    except Exception as ex:  # noqa
        return rec_exc(ex)


async def part_text_async(part):
    try:
        return await part.get_text()
    except Exception as ex:  # noqa
        return rec_exc(ex)


def parts_sync(form):
    out = []
    try:
        for part in form:
            out.append([part.name, part.filename, part.content_type, part.get_data(), part_text_sync(part)])
    except Exception as ex:  # noqa
        out.append(rec_exc(ex))
    return ['parts', out]


async def parts_async(form):
    out = []
    try:
        async for part in form:
            out.append([part.name, part.filename, part.content_type, await part.get_data(), await part_text_async(part)])
    except Exception as ex:  # noqa
        out.append(rec_exc(ex))
    return ['parts', out]


def media_sync(m):
    return parts_sync(m) if is_form(m) else media_conv(m)


async def media_async(m):
    return (await parts_async(m)) if is_form(m) else media_conv(m)


def read_sync(req, rd):
    mode = rd['mode']
    out = []
    try:
        if mode == 'none':
            return ['none']
        if mode == 'read':
            return ['bytes', req.bounded_stream.read()]
        if mode == 'readn':
            buf = []
            for _ in range(100000):
                c = req.bounded_stream.read(rd['n'])
                if not c:
                    break
                buf.append(c)
            return ['bytes', b''.join(buf)]
        if mode == 'partial':
            return ['partial', req.bounded_stream.read(rd['n'])]
        if mode == 'iter':
            return ['bytes', b''.join(c for c in req.bounded_stream)]
        if mode == 'exhaust':
            req.bounded_stream.exhaust()
            return ['bytes-after-exhaust', req.bounded_stream.read()]
        if mode == 'media':
            return media_sync(req.get_media())
        if mode == 'media_default':
            return media_sync(req.get_media(default_when_empty={'dflt': 1}))
        if mode == 'media_twice':
            try:
                out.append(media_sync(req.get_media()))
            except Exception as ex:  # noqa
                out.append(rec_exc(ex))
            out.append(media_sync(req.media))
            return out
        if mode == 'read_then_media':
            out.append(req.bounded_stream.read())
            out.append(media_sync(req.get_media()))
            return out
        if mode == 'media_then_read':
            try:
                out.append(media_sync(req.get_media()))
            except Exception as ex:  # noqa
                out.append(rec_exc(ex))
            out.append(req.bounded_stream.read())
            return out
        if mode == 'multipart':
            return media_sync(req.get_media())
    except Exception as ex:  # noqa
        return out + [rec_exc(ex)]
    raise AssertionError(mode)


async def read_async(req, rd):
    mode = rd['mode']
    out = []
    try:
        if mode == 'none':
            return ['none']
        if mode == 'read':
            return ['bytes', await req.stream.read()]
        if mode == 'readn':
            buf = []
            for _ in range(100000):
                c = await req.stream.read(rd['n'])
                if not c:
                    break
                buf.append(c)
            return ['bytes', b''.join(buf)]
        if mode == 'partial':
            return ['partial', await req.stream.read(rd['n'])]
        if mode == 'iter':
            buf = []
            async for c in req.stream:
                buf.append(c)
            return ['bytes', b''.join(buf)]
        if mode == 'exhaust':
            await req.stream.exhaust()
            return ['bytes-after-exhaust', await req.stream.read()]
        if mode == 'media':
            return await media_async(await req.get_media())
        if mode == 'media_default':
            return await media_async(await req.get_media(default_when_empty={'dflt': 1}))
        if mode == 'media_twice':
            try:
                out.append(await media_async(await req.get_media()))
            except Exception as ex:  # noqa
                out.append(rec_exc(ex))
            out.append(await media_async(await req.media))
            return out
        if mode == 'read_then_media':
            out.append(await req.stream.read())
            out.append(await media_async(await req.get_media()))
            return out
        if mode == 'media_then_read':
            try:
                out.append(await media_async(await req.get_media()))
            except Exception as ex:  # noqa
                out.append(rec_exc(ex))
            out.append(await req.stream.read())
            return out
        if mode == 'multipart':
            return await media_async(await req.get_media())
    except Exception as ex:  # noqa
        return out + [rec_exc(ex)]
    raise AssertionError(mode)


def trace(*a):
    CUR['cap'].setdefault('trace', []).append(list(a))


def sc_plan(s):
    """script['short_circuit'] -> (component index, stage) or None.  True is the historic spelling of (0, 'request')."""
    v = s.get('short_circuit')
    if v is None or v is False:
        return None
    if v is True:
        return (0, 'request')
    if isinstance(v, int):
        return (v, 'request')
    return (v[0], v[1])


def mw_step(idx, stage, resp):
    """Common body of every middleware method: short-circuit and scripted faults."""
    s = CUR['script']
    if stage != 'response' and sc_plan(s) == (idx, stage):
        resp.text = 'short-circuited by %d/%s' % (idx, stage)
        resp.complete = True
    f = s.get('mw_fault')
    if f and f[0] == idx and f[1] == stage:
        if f[2] == 'http':
            raise falcon.HTTPForbidden(description='middleware %d %s' % (idx, stage), headers={'X-Mw-Fault': '%d' % idx})
        if f[2] == 'custom':
            raise CustomError('mw %d %s' % (idx, stage))
        raise ValueError('scripted middleware fault %d %s' % (idx, stage))


# the stack: which hooks each component has (falcon pairs request/response hooks per component when
# independent_middleware=False, so the shapes matter)
MW_SHAPES = [('request', 'resource', 'response'), ('request', 'response'), ('response',), ('request', 'resource')]


def ops_at(site):
    """Scripted application-logic steps for one site: (component index, stage) of the middleware stack or 'responder'."""
    out = []
    for op in CUR['script'].get('ops') or ():
        where = op[0] if op[0] == 'responder' else (op[0][0], op[0][1])
        if where == site:
            out.append(op)
    return out


def plain_op(resp, op):
    """Every op except render_body (whose call is sync on WSGI and awaited on ASGI)."""
    kind = op[1]
    if kind == 'set_status':
        resp.status = val(op[2])
    elif kind == 'set_header':
        resp.set_header(op[2], op[3])
    elif kind == 'set_media':
        resp.media = json.loads(json.dumps(op[2]))
    elif kind == 'set_text':
        resp.text = op[2]
    elif kind == 'set_data':
        resp.data = lat(op[2])
    elif kind == 'set_content_type':
        resp.content_type = op[2]
    elif kind == 'mutate_media':
        m = resp.media                      # in place: no new assignment to resp.media
        if isinstance(m, dict):
            m['mutated'] = len(m)
        elif isinstance(m, list):
            m.append('mutated')
    else:
        raise AssertionError(op)


def note_render(site, data=None, ex=None):
    trace('render', list(site) if site != 'responder' else site, data if ex is None else rec_exc(ex))


def run_ops_sync(site, resp):
    for op in ops_at(site):
        if op[1] == 'render_body':
            try:
                note_render(site, resp.render_body())
            except Exception as ex:  # noqa
                note_render(site, ex=ex)
                raise
        else:
            plain_op(resp, op)


async def run_ops_async(site, resp):
    for op in ops_at(site):
        if op[1] == 'render_body':
            try:
                note_render(site, await resp.render_body())
            except Exception as ex:  # noqa
                note_render(site, ex=ex)
                raise
        else:
            plain_op(resp, op)


def make_middleware(asgi):
    comps = []
    for idx, shape in enumerate(MW_SHAPES):
        ns = {}

        def on_request(req, resp, idx=idx):
            trace('req', req.method, req.path, idx)

        def on_resource(req, resp, resource, params, idx=idx):
            trace('rsrc', type(resource).__name__[1:], conv(params), req.uri_template, idx)

        def on_response(req, resp, resource, req_succeeded, idx=idx):
            trace('resp', resource is not None, bool(req_succeeded), resp.status_code, idx)
            resp.set_header('X-Mw-%d' % idx, '%d' % len(CUR['cap'].get('trace', ())))
            if idx == 0:
                resp.set_header('X-Trace', '%d' % len(CUR['cap'].get('trace', ())))

        if asgi:
            async def process_request(self, req, resp, f=on_request, idx=idx):
                f(req, resp)
                await run_ops_async((idx, 'request'), resp)
                mw_step(idx, 'request', resp)

            async def process_resource(self, req, resp, resource, params, f=on_resource, idx=idx):
                f(req, resp, resource, params)
                await run_ops_async((idx, 'resource'), resp)
                mw_step(idx, 'resource', resp)

            async def process_response(self, req, resp, resource, req_succeeded, f=on_response, idx=idx):
                f(req, resp, resource, req_succeeded)
                await run_ops_async((idx, 'response'), resp)
                mw_step(idx, 'response', resp)
        else:
            def process_request(self, req, resp, f=on_request, idx=idx):
                f(req, resp)
                run_ops_sync((idx, 'request'), resp)
                mw_step(idx, 'request', resp)

            def process_resource(self, req, resp, resource, params, f=on_resource, idx=idx):
                f(req, resp, resource, params)
                run_ops_sync((idx, 'resource'), resp)
                mw_step(idx, 'resource', resp)

            def process_response(self, req, resp, resource, req_succeeded, f=on_response, idx=idx):
                f(req, resp, resource, req_succeeded)
                run_ops_sync((idx, 'response'), resp)
                mw_step(idx, 'response', resp)
        if 'request' in shape:
            ns['process_request'] = process_request
        if 'resource' in shape:
            ns['process_resource'] = process_resource
        if 'response' in shape:
            ns['process_response'] = process_response
        comps.append(type('%sMw%d' % ('A' if asgi else 'W', idx), (), ns)())
    return comps


def w_responder(req, resp, **params):
    cap = CUR['cap']
    try:
        _w_responder(req, resp, **params)
    except BaseException as ex:  # noqa
        cap['rexc'] = rec_exc(ex)       # what left the responder (observation for triage; the legs are not compared on it)
        raise


def _w_responder(req, resp, **params):
    s, cap = CUR['script'], CUR['cap']
    cap['digest'] = digest(req, params, CUR['probe'])
    cap['body'] = read_sync(req, s['read'])
    if s['raise'] is not None and s['raise_at'] == 'early':
        do_raise(s)
    if s['propagate']:
        do_propagate(req, s['propagate'])
        if s['propagate'] == 'media':
            req.get_media()
    apply_pre(resp, s)
    set_stream_sync(resp, s['body'])
    run_ops_sync('responder', resp)
    if s['raise'] is not None:
        do_raise(s)


async def a_responder(req, resp, **params):
    cap = CUR['cap']
    try:
        await _a_responder(req, resp, **params)
    except BaseException as ex:  # noqa
        cap['rexc'] = rec_exc(ex)
        raise


async def _a_responder(req, resp, **params):
    s, cap = CUR['script'], CUR['cap']
    cap['digest'] = digest(req, params, CUR['probe'])
    cap['body'] = await read_async(req, s['read'])
    if s['raise'] is not None and s['raise_at'] == 'early':
        do_raise(s)
    if s['propagate']:
        do_propagate(req, s['propagate'])
        if s['propagate'] == 'media':
            await req.get_media()
    apply_pre(resp, s)
    set_stream_async(resp, s['body'])
    await run_ops_async('responder', resp)
    if s['raise'] is not None:
        do_raise(s)


class WResource:
    def on_get(self, req, resp, **params):
        w_responder(req, resp, **params)

    on_post = on_put = on_delete = on_head = on_foo = on_checkin = on_get


class AResource:
    async def on_get(self, req, resp, **params):
        await a_responder(req, resp, **params)

    on_post = on_put = on_delete = on_head = on_foo = on_checkin = on_get


# ---- hooked resources: @falcon.before / @falcon.after on a base class, a subclass delegating with super().on_*()
#      in every argument form (positional, keyword, mixed) - the documented delegation pattern

def _hook_body(req, resp, resource, params, tag):
    trace('hook', tag, conv(params))
    v = params.get('item_id')
    if isinstance(v, str) and v.isdigit():
        params['item_id'] = int(v) * 2
    if v == 'deny':
        raise falcon.HTTPForbidden(description='hook %s' % tag)
    if tag != 'cls':                 # the class-level hook wraps the subclass's responders, which take the fields only
        params['hooked'] = tag


def w_hook(req, resp, resource, params, tag='m'):
    _hook_body(req, resp, resource, params, tag)


async def a_hook(req, resp, resource, params, tag='m'):
    _hook_body(req, resp, resource, params, tag)


def w_after(req, resp, resource, tag='m'):
    trace('after', tag, resp.status_code)
    resp.set_header('X-After', tag)


async def a_after(req, resp, resource, tag='m'):
    trace('after', tag, resp.status_code)
    resp.set_header('X-After', tag)


class WHooked1Base:
    @falcon.before(w_hook)
    @falcon.after(w_after)
    def on_get(self, req, resp, item_id, **params):
        w_responder(req, resp, item_id=item_id, **params)

    @falcon.before(w_hook, 'second')
    @falcon.before(w_hook, 'first')
    def on_post(self, req, resp, item_id, **params):
        w_responder(req, resp, item_id=item_id, **params)

    @falcon.after(w_after, 'put')
    @falcon.before(w_hook, tag='kw')
    def on_put(self, req, resp, item_id, **params):
        w_responder(req, resp, item_id=item_id, **params)


class WHooked1(WHooked1Base):
    def on_get(self, req, resp, item_id):
        super().on_get(req, resp, item_id)                  # positional

    def on_post(self, req, resp, item_id):
        super().on_post(req, resp, item_id=item_id)          # keyword

    def on_put(self, req, resp, item_id):
        super().on_put(req, resp, item_id)                  # positional through after+before


@falcon.before(w_hook, 'cls')
class WHooked1Cls(WHooked1):
    pass


class WHooked2Base:
    @falcon.before(w_hook)
    def on_get(self, req, resp, item_id, sub, **params):
        w_responder(req, resp, item_id=item_id, sub=sub, **params)

    @falcon.after(w_after, 'two')
    @falcon.before(w_hook, 'two')
    def on_put(self, req, resp, item_id, sub, **params):
        w_responder(req, resp, item_id=item_id, sub=sub, **params)

    on_delete = on_put


class WHooked2(WHooked2Base):
    def on_get(self, req, resp, item_id, sub):
        super().on_get(req, resp, item_id, sub)             # both positional

    def on_put(self, req, resp, item_id, sub):
        super().on_put(req, resp, item_id, sub=sub)         # mixed

    def on_delete(self, req, resp, item_id, sub):
        super().on_delete(req, resp, sub=sub, item_id=item_id)


class AHooked1Base:
    @falcon.before(a_hook)
    @falcon.after(a_after)
    async def on_get(self, req, resp, item_id, **params):
        await a_responder(req, resp, item_id=item_id, **params)

    @falcon.before(a_hook, 'second')
    @falcon.before(a_hook, 'first')
    async def on_post(self, req, resp, item_id, **params):
        await a_responder(req, resp, item_id=item_id, **params)

    @falcon.after(a_after, 'put')
    @falcon.before(a_hook, tag='kw')
    async def on_put(self, req, resp, item_id, **params):
        await a_responder(req, resp, item_id=item_id, **params)


class AHooked1(AHooked1Base):
    async def on_get(self, req, resp, item_id):
        await super().on_get(req, resp, item_id)                  # positional

    async def on_post(self, req, resp, item_id):
        await super().on_post(req, resp, item_id=item_id)          # keyword

    async def on_put(self, req, resp, item_id):
        await super().on_put(req, resp, item_id)                  # positional through after+before


@falcon.before(a_hook, 'cls')
class AHooked1Cls(AHooked1):
    pass


class AHooked2Base:
    @falcon.before(a_hook)
    async def on_get(self, req, resp, item_id, sub, **params):
        await a_responder(req, resp, item_id=item_id, sub=sub, **params)

    @falcon.after(a_after, 'two')
    @falcon.before(a_hook, 'two')
    async def on_put(self, req, resp, item_id, sub, **params):
        await a_responder(req, resp, item_id=item_id, sub=sub, **params)

    on_delete = on_put


class AHooked2(AHooked2Base):
    async def on_get(self, req, resp, item_id, sub):
        await super().on_get(req, resp, item_id, sub)             # both positional

    async def on_put(self, req, resp, item_id, sub):
        await super().on_put(req, resp, item_id, sub=sub)         # mixed

    async def on_delete(self, req, resp, item_id, sub):
        await super().on_delete(req, resp, sub=sub, item_id=item_id)


def w_sink(req, resp, **params):
    w_responder(req, resp, **params)


async def a_sink(req, resp, **params):
    await a_responder(req, resp, **params)


def w_custom_handler(req, resp, ex, params):
    trace('handler', type(ex).__name__, conv(params))
    resp.status = 418
    resp.media = {'custom': str(ex)}
    resp.set_header('X-Handled', type(ex).__name__)


async def a_custom_handler(req, resp, ex, params):
    trace('handler', type(ex).__name__, conv(params))
    resp.status = 418
    resp.media = {'custom': str(ex)}
    resp.set_header('X-Handled', type(ex).__name__)


_STATIC = {}


def static_dir():
    if 'dir' not in _STATIC:
        d = tempfile.mkdtemp(prefix='verif-c06-static-')
        atexit.register(shutil.rmtree, d, True)
        os.mkdir(os.path.join(d, 'sub'))
        for name, data in (('a.txt', b'static A\n'), ('b.json', b'{"static": true}'), ('sub/c.bin', bytes(range(256)) * 40),
                           ('index.html', b'<p>index</p>'), ('empty.txt', b'')):
            with open(os.path.join(d, name), 'wb') as f:
                f.write(data)
            os.utime(os.path.join(d, name), (1500000000, 1500000000))
        _STATIC['dir'] = d
    return _STATIC['dir']


ROUTES = ['/', '/items', '/items/{item_id}', '/u/{name}/posts/{pid:int}', '/files/{rest:path}']

_APPS = {}


def apps_of(req):
    return apps_for(req['opts'], req.get('mw') or 'independent')


def apps_for(opts, mw='independent'):
    key = tuple(bool(x) for x in opts) + (mw,)
    if key in _APPS:
        return _APPS[key]
    indep = mw != 'dependent'
    # everything not under test is left at the constructor's DEFAULT (a default that drifts in one stack must show)
    extra = {} if indep else {'independent_middleware': False}
    wa = falcon.App(middleware=make_middleware(False), **extra)
    aa = falcon.asgi.App(middleware=make_middleware(True), **extra)
    for app, res, sink, handler in ((wa, WResource(), w_sink, w_custom_handler), (aa, AResource(), a_sink, a_custom_handler)):
        app.req_options.strip_url_path_trailing_slash = key[0]
        app.req_options.keep_blank_qs_values = key[1]
        app.req_options.auto_parse_qs_csv = key[2]
        for r in ROUTES:
            app.add_route(r, res)
        asgi_app = app is aa
        app.add_route('/hooked/{item_id}', AHooked1() if asgi_app else WHooked1())
        app.add_route('/hooked/{item_id}/{sub}', AHooked2() if asgi_app else WHooked2())
        app.add_route('/hookedc/{item_id}', AHooked1Cls() if asgi_app else WHooked1Cls())
        app.add_sink(sink, '/sink')
        # static routes: one under the sink's prefix (sinks are documented to win by default on both stacks), one apart
        app.add_static_route('/sink/static', static_dir())
        app.add_static_route('/static', static_dir())
        app.add_static_route('/dl', static_dir(), downloadable=True, fallback_filename='a.txt')
        app.add_error_handler(CustomError, handler)
    hold = {}

    def wtap(environ, start_response):
        hold['environ'] = environ

        def sr(status, headers, exc_info=None):
            hold['w'] = (status, list(headers))
            if exc_info is not None:
                return start_response(status, headers, exc_info)
            return start_response(status, headers)
        it = wa(environ, sr)
        chunks = hold['wbody'] = []

        def tapped():
            try:
                for c in it:
                    chunks.append(c)
                    yield c
            finally:
                close = getattr(it, 'close', None)
                if close is not None:
                    close()
        return tapped()

    async def atap(scope, receive, send):
        if scope['type'] != 'http':
            return await aa(scope, receive, send)
        hold['scope'] = scope
        evs = hold['a'] = []

        async def tapped(ev):
            evs.append(ev)
            await send(ev)
        await aa(scope, receive, tapped)

    _APPS[key] = (wa, aa, wtap, atap, hold)
    return _APPS[key]


# =================================================================================== legs

def norm_triple(status, headers, body):
    """Header SET: names lower-cased and grouped, but lines of the same name keep the order in which they were sent
    (for repeated fields such as Set-Cookie the order is meaningful: the last line for a cookie name wins)."""
    return [status, sorted(([k.lower(), v] for k, v in headers), key=lambda kv: kv[0]), body]


def begin(req):
    cap = {}
    CUR['script'] = req['script']
    CUR['cap'] = cap
    CUR['probe'] = [k for k, _ in req['headers']][:10]
    return cap


def leg_w(req, env_patch=None):
    wa = apps_of(req)[0]
    cap = begin(req)
    env = M.to_environ(req, file_wrapper=req['script']['file_wrapper'])
    if env_patch:
        env.update(env_patch)
    res = W.run_wsgi(wa, env)
    cap['leg'] = 'W'
    cap['escaped'] = rec_exc(res.exc) if res.exc is not None else None
    cap['problems'] = list(res.problems)
    try:
        cap['resp'] = norm_triple(res.status, res.headers, res.body)
    except Exception as ex:  # noqa
        cap['resp'] = ['unnormalisable', repr(ex)]
    return cap


def leg_a(req):
    aa = apps_of(req)[1]
    cap = begin(req)
    scope, events = M.to_scope(req)
    res = A.run_asgi_http(aa, scope, events=events)
    cap['leg'] = 'A'
    cap['escaped'] = rec_exc(res.exc) if res.exc is not None else None
    if res.outcome not in ('done', 'raised'):
        cap['escaped'] = ['OUTCOME', res.outcome]
    cap['problems'] = list(res.problems)
    try:
        hs = [(k.decode('latin-1'), v.decode('latin-1')) for k, v in res.headers]
        cap['resp'] = norm_triple(res.status, hs, res.body)
    except Exception as ex:  # noqa
        cap['resp'] = ['unnormalisable', repr(ex)]
    return cap


class PlainMapping(collections.abc.Mapping):
    """A Mapping that is not a dict (the simulators document 'a dict-like (Mapping) object')."""

    def __init__(self, pairs):
        self._d = dict(pairs)

    def __getitem__(self, k):
        return self._d[k]

    def __iter__(self):
        return iter(self._d)

    def __len__(self):
        return len(self._d)


def shape_headers(h, form):
    """The same header pairs in another documented argument form: 'a dict-like (Mapping) object, or an iterable yielding
    a series of two-member (name, value) iterables' - one-shot iterables included.  Built afresh for every call."""
    if h is None or not form:
        return h
    pairs = list(h.items()) if isinstance(h, dict) else [tuple(x) for x in h]
    unique = len({k for k, _ in pairs}) == len(pairs)
    if form == 'iter':
        return iter(pairs)
    if form == 'gen':
        return ((k, v) for k, v in pairs)
    if form == 'zip':
        return zip([k for k, _ in pairs], [v for _, v in pairs])
    if form == 'map':
        return map(list, pairs)
    if form == 'tuple':
        return tuple(pairs)
    if form == 'mappingproxy' and unique:
        return types.MappingProxyType(dict(pairs))
    if form == 'mapping' and unique:
        return PlainMapping(pairs)
    return h


def materialize(kw, st):
    """JSON-able kwargs -> the objects actually handed to simulate_request for this call."""
    st = st or {}
    out = dict(kw)
    if 'headers' in out:
        out['headers'] = shape_headers(out['headers'], st.get('headers_form'))
    if st.get('mapping_args'):
        for k in ('cookies', 'params'):
            if isinstance(out.get(k), dict):
                out[k] = types.MappingProxyType(out[k]) if st['mapping_args'] == 'mappingproxy' else PlainMapping(out[k].items())
    return out


def leg_sim(req, asgi):
    """simulate_request leg; returns cap or None when not expressible."""
    kw, why = M.sim_kwargs(req, DEFAULT_UA)
    if kw is None:
        return None, why
    wa, aa, wtap, atap, hold = apps_of(req)
    cap = begin(req)
    hold.clear()
    cap['leg'] = 'SA' if asgi else 'SW'
    cap['style'] = ['inline-query'] if '?' in kw['path'] else []
    if '?' in kw['path'] and '?' in kw['path'].split('?', 1)[1]:
        cap['style'].append('inline-query-with-qmark')
    if kw.get('params'):
        cap['style'].append('params-dict')
    if isinstance(kw.get('port'), str):
        cap['style'].append('port-str')
    hf = (req.get('sim') or {}).get('headers_form')
    if hf:
        cap['style'].append('headers-' + ('one-shot' if hf in ('iter', 'gen', 'zip', 'map') else hf))
    if isinstance(kw.get('body'), str):
        cap['style'].append('body-str')
    hv = list(kw['headers'].values()) if isinstance(kw['headers'], dict) else [v for _, v in kw['headers']]
    if any(v is not None and v != v.strip() for v in hv):
        cap['style'].append('ows-header-value')
    if any(v is None for v in hv):
        cap['style'].append('none-header-value')
    cap['kwargs'] = {k: v for k, v in kw.items()}
    cap['escaped'] = None
    cap['problems'] = []
    result = None
    try:
        if asgi:
            result = testing.simulate_request(atap, **materialize(kw, req.get('sim')))
        else:
            fw = W.FileWrapper if req['script']['file_wrapper'] else None
            result = testing.simulate_request(wtap, wsgierrors=io.StringIO(), file_wrapper=fw, **materialize(kw, req.get('sim')))
    except Exception as ex:  # noqa
        sim_exception(cap, asgi, ex)
    finally:
        A.aio.shared()     # make sure the stepped loop is the current one again
        asyncio.set_event_loop(A.aio.shared().loop)
    sim_finish(cap, hold, asgi, result)
    return cap, None


def sim_exception(cap, asgi, ex):
    if isinstance(ex, AssertionError) and not asgi:
        cap['validator'] = repr(ex)[:200]           # wsgiref.validate refused the environ or the response
        return
    if isinstance(ex, (TypeError, ValueError)) and asgi:
        # ASGIResponseEventCollector validates events with these; an app error looks the same
        cap['validator'] = repr(ex)[:200]
    cap['escaped'] = rec_exc(ex)


def sim_finish(cap, hold, asgi, result):
    """Response as recorded by the tap between the simulator and the app."""
    if asgi:
        evs = hold.get('a') or []
        status, hs, body = None, [], b''
        for ev in evs:
            if ev.get('type') == 'http.response.start':
                status = ev.get('status')
                hs = [(k.decode('latin-1'), v.decode('latin-1')) for k, v in ev.get('headers', [])]
            elif ev.get('type') == 'http.response.body':
                body += ev.get('body', b'') or b''
        cap['resp'] = norm_triple(status, hs, body) if status is not None else None
    else:
        if 'w' in hold:
            st, hs = hold['w']
            cap['resp'] = norm_triple(int(st[:3]), hs, b''.join(hold.get('wbody', [])))
        else:
            cap['resp'] = None
    cap['_result'] = result


# =================================================================================== client histories

def history_requests(hist):
    """history -> [(abstract request, simulate kwargs)] per step.

    Documented client semantics (TestClient / ASGIConductor `headers=`): "Default headers to set on every request ...
    may be overridden by passing values for the same headers to one of the simulate_*() methods" - so the abstract
    request of step i carries defaults updated by that step's own headers (and its own content type / body), and
    nothing from any other step.  A step may choose any simulator argument style (step['sim'])."""
    out = []
    for step in hist['steps']:
        merged = dict(hist['defaults'] or {})
        merged.update(step.get('headers') or {})
        if step.get('ctype') is not None:
            merged = {k: v for k, v in merged.items() if k.lower() != 'content-type'}
            merged['Content-Type'] = step['ctype']
        req = M.new_request(method=step.get('method', 'GET'), target=step.get('target', '/items'), query=step.get('query', ''),
                            headers=[[k, v] for k, v in merged.items()], body=step.get('body', ''), opts=hist.get('opts', [False, True, False]),
                            mw=hist.get('mw', 'independent'))
        req['script'] = step.get('script') or G.default_script()
        M.finalize(req)
        G.with_sim(req, DEFAULT_UA, step.get('sim'))
        kw, why = M.sim_kwargs(req, DEFAULT_UA)
        if kw is None:
            raise ValueError('history step not expressible: %s' % why)
        per_call = None if step.get('headers') is None else dict(step['headers'])
        if step.get('ctype') is not None and 'content_type' not in kw and 'json' not in kw:
            per_call = dict(per_call or {})
            per_call['Content-Type'] = step['ctype']            # no argument carries it: it is a per-call header
        if 'headers' in step or per_call is not None:
            kw['headers'] = per_call
        else:
            kw.pop('headers', None)
        req['_headers_form'] = step.get('headers_form')
        out.append((req, kw))
    return out


def step_style(hist, req):
    return {'headers_form': req.get('_headers_form')}


def run_history(rec, hist):
    """One client object per stack, several requests through it: TestClient on WSGI (TW), TestClient one-shot on ASGI (TA),
    and the ASGIConductor of `async with TestClient(asgi_app)` (CA); every step is compared with the driver legs."""
    steps = history_requests(hist)
    first = steps[0][0]
    wa, aa, wtap, atap, hold = apps_of(first)
    refs = [(leg_w(req), leg_a(req)) for req, _ in steps]
    legs = {'TW': [], 'TA': [], 'CA': []}
    defaults = hist['defaults']

    def mkdefaults():
        if defaults is None:
            return None
        if hist.get('defaults_form') == 'mappingproxy':
            return types.MappingProxyType(dict(defaults))
        if hist.get('defaults_form') == 'mapping':
            return PlainMapping(defaults.items())
        return dict(defaults)

    cw = testing.TestClient(wtap, headers=mkdefaults())
    ca = testing.TestClient(atap, headers=mkdefaults())
    for name, client, asgi in (('TW', cw, False), ('TA', ca, True)):
        for req, kw in steps:
            cap = begin(req)
            hold.clear()
            cap.update({'leg': name, 'kwargs': dict(kw), 'escaped': None, 'problems': []})
            result = None
            try:
                extra = {} if asgi else {'wsgierrors': io.StringIO()}
                result = client.simulate_request(**extra, **materialize(kw, step_style(hist, req)))
            except Exception as ex:  # noqa
                sim_exception(cap, asgi, ex)
            finally:
                asyncio.set_event_loop(A.aio.shared().loop)
            sim_finish(cap, hold, asgi, result)
            legs[name].append(cap)

    async def conduct():
        async with testing.TestClient(atap, headers=mkdefaults()) as conductor:
            for req, kw in steps:
                cap = begin(req)
                hold.clear()
                cap.update({'leg': 'CA', 'kwargs': dict(kw), 'escaped': None, 'problems': []})
                result = None
                try:
                    result = await conductor.simulate_request(**materialize(kw, step_style(hist, req)))
                except Exception as ex:  # noqa
                    sim_exception(cap, True, ex)
                sim_finish(cap, hold, True, result)
                legs['CA'].append(cap)
    try:
        falcon.async_to_sync(conduct)
    finally:
        asyncio.set_event_loop(A.aio.shared().loop)
    rec.count('hist.histories')
    for name in ('TW', 'TA', 'CA'):
        for i, cap in enumerate(legs[name]):
            req = steps[i][0]
            ref = refs[i][0] if name == 'TW' else refs[i][1]
            check_result_object(rec, req, cap)
            rec.count('mon.digest.%s' % name)
            rec.count('mon.response.%s' % name)
            diffs = compare_caps(cap, ref)
            if diffs:
                rec.violation('%s-step%d:' % (name, i) + '+'.join(sorted(set(d[0] for d in diffs))),
                              {'history': hist, 'step': i, 'leg': name, 'req': req, 'simulate_request_kwargs': cap.get('kwargs'),
                               'differences': [[d[0], d[1]] for d in diffs][:4],
                               'differing_keys': sorted(set(k for d in diffs for k in d[2]))[:30]})
    for i, (w, a) in enumerate(refs):
        diffs = compare_caps(w, a)
        rec.count('mon.digest.W-A')
        rec.count('mon.response.W-A')
        if diffs:
            rec.violation('W-A-step%d:' % i + '+'.join(sorted(set(d[0] for d in diffs))),
                          {'history': hist, 'step': i, 'req': steps[i][0], 'differences': [[d[0], d[1]] for d in diffs][:4]})
    if any(s.get('headers') for s in hist['steps'][:-1]) and defaults:
        rec.count('hist.defaults+extra-then-later-request')
    rec.case(json.dumps(hist, sort_keys=True))


# =================================================================================== comparison

def diff(d1, d2):
    if d1 is None or d2 is None:
        return ['<missing>'] if d1 != d2 else []
    return sorted(k for k in set(d1) | set(d2) if d1.get(k, '<absent>') != d2.get(k, '<absent>'))


def compare_caps(c1, c2, resp_only=False):
    """-> list of (kind, detail) differences between two legs."""
    out = []
    if not resp_only:
        dk = diff(c1.get('digest'), c2.get('digest'))
        if dk:
            out.append(('digest', {k: [c1['digest'].get(k, '<absent>') if c1.get('digest') else None,
                                        c2['digest'].get(k, '<absent>') if c2.get('digest') else None] for k in dk[:8]},
                        dk))
        if c1.get('body') != c2.get('body'):
            out.append(('body-read', [c1.get('body'), c2.get('body')], ['body']))
        if c1.get('trace') != c2.get('trace'):
            out.append(('middleware-trace', [c1.get('trace'), c2.get('trace')], ['trace']))
    if c1.get('escaped') != c2.get('escaped'):
        out.append(('escaped-exception', [c1.get('escaped'), c2.get('escaped')], ['escaped']))
    if c1.get('resp') != c2.get('resp'):
        out.append(('response', [c1.get('resp'), c2.get('resp')], ['resp']))
    return out


def check_anchor(rec, req, cap):
    d = cap.get('digest')
    if d is None:
        return
    exp = M.anchor(req)
    rec.count('mon.anchor')
    bad = {k: [d.get(k, '<absent>'), v] for k, v in exp.items() if d.get(k, '<absent>') != v}
    if bad:
        rec.violation('anchor-' + cap['leg'], {'req': req, 'leg': cap['leg'], 'got_vs_expected': bad})
    body = M.anchor_body(req)
    got = cap.get('body')
    if body is not None and got and got[0] == 'bytes':
        rec.count('mon.anchor.body')
        if got[1] != body:
            rec.violation('anchor-body-' + cap['leg'], {'req': req, 'leg': cap['leg'], 'got': got[1], 'expected': body})


def check_result_object(rec, req, cap):
    """falcon.testing.Result must report what the app actually sent."""
    result = cap.pop('_result', None)
    if result is None or cap.get('resp') is None:
        return
    status, hs, body = cap['resp']
    rec.count('mon.result-object')
    bad = {}
    if result.status_code != status:
        bad['status_code'] = [result.status_code, status]
    if body is not None and result.content != body:
        bad['content'] = [result.content, body]
    names = [k for k, _ in hs]
    for k, v in hs:
        if names.count(k) == 1 and k != 'set-cookie':
            if result.headers.get(k) != v:
                bad['header:' + k] = [result.headers.get(k), v]
    if bad:
        rec.violation('sim-result-object', {'req': req, 'leg': cap['leg'], 'result_vs_sent': bad})


def signature(diffs):
    return tuple(sorted((d[0], tuple(d[2])) for d in diffs))


def run_case(rec, req, report=True):
    """Run all applicable legs of one abstract request, evaluate every monitor.
    Returns list of (pair, diffs) for shrinking/classification."""
    cls = M.classes(req)
    s = req['script']
    findings = []
    cw = leg_w(req)
    ca = leg_a(req)
    if report:
        for c in sorted(cls):
            rec.count('cls.' + c)
        rec.count('read.' + s['read']['mode'])
        rec.count('resp.body.' + s['body'][0] + ('.' + s['body'][1] if s['body'][0].startswith('stream') else ''))
        if s['raise']:
            rec.count('resp.raise.' + s['raise'][0])
        if s['propagate']:
            rec.count('resp.propagate')
        if sc_plan(s):
            rec.count('resp.short-circuit')
            rec.count('mw.short-circuit.%d.%s' % sc_plan(s))
        if s.get('mw_fault'):
            rec.count('mw.fault.%s.%s' % (s['mw_fault'][1], s['mw_fault'][2]))
        rec.count('mw.mode.' + (req.get('mw') or 'independent'))
        branch_counters(rec, req, cw, ca)
    compare = M.comparable(req)
    if compare:
        diffs = compare_caps(cw, ca)
        if report:
            rec.count('mon.digest.W-A')
            rec.count('mon.response.W-A')
        if diffs:
            findings.append(('W-A', cw, ca, diffs))
    else:
        # documented divergence: only demand that both answer
        diffs = []
        if report:
            rec.count('notcompared.singleton-repeat')
        for c in (cw, ca):
            if c['resp'] is None or c['resp'][0] is None:
                diffs.append(('no-response', c['escaped'], ['resp']))
        if diffs:
            findings.append(('W-A', cw, ca, diffs))
    if report and compare:
        check_anchor(rec, req, cw)
        check_anchor(rec, req, ca)
    if req.get('sim') is not None:
        for asgi, ref in ((False, cw), (True, ca)):
            cs, why = leg_sim(req, asgi)
            name = 'SA-A' if asgi else 'SW-W'
            if cs is None:
                if report:
                    rec.count('sim.inexpressible')
                continue
            if report:
                check_result_object(rec, req, cs)
                if asgi:
                    for stl in cs.get('style', ()):
                        rec.count('sim.style.' + stl)
            else:
                cs.pop('_result', None)
            if 'validator' in cs and cs['escaped'] is None:
                # wsgiref.validate (documented part of the WSGI simulator) refused the exchange
                if report:
                    rec.count('sim.validator-refused.' + cs['leg'])
                continue
            if 'validator' in cs and ref.get('escaped') is not None:
                if report:
                    rec.count('sim.app-exception-escaped.' + cs['leg'])
                continue
            if report:
                rec.count('mon.digest.' + name)
                rec.count('mon.response.' + name)
            diffs = compare_caps(cs, ref)
            if diffs:
                findings.append((name, cs, ref, diffs))
    elif report:
        rec.count('sim.not-requested')
    return findings


def branch_counters(rec, req, cw, ca):
    d = cw.get('digest')
    if d is None:
        rec.count('br.responder-not-reached')
        st = cw['resp'][0] if cw.get('resp') else None
        rec.count('br.no-responder.status.%s' % st)
        return
    rec.count('br.responder-reached')
    rec.count('br.host.from-header' if M.has_header(req, 'host') else 'br.host.from-server')
    if isinstance(d.get('port'), int):
        rec.count('br.port.%s' % ('default' if d['port'] in (80, 443) else 'explicit'))
    for h, name in (('forwarded', 'br.fwd.forwarded'), ('x-forwarded-for', 'br.fwd.xff'), ('x-real-ip', 'br.fwd.real-ip'),
                    ('x-forwarded-proto', 'br.fwd.xfp'), ('x-forwarded-host', 'br.fwd.xfh'), ('range', 'br.range'),
                    ('if-match', 'br.if-match'), ('if-none-match', 'br.if-none-match'), ('cookie', 'br.cookie'),
                    ('date', 'br.date'), ('accept', 'br.accept')):
        if M.has_header(req, h):
            v = d.get({'forwarded': 'forwarded', 'x-forwarded-for': 'access_route', 'x-real-ip': 'access_route',
                       'x-forwarded-proto': 'forwarded_scheme', 'x-forwarded-host': 'forwarded_host', 'range': 'range',
                       'if-match': 'if_match', 'if-none-match': 'if_none_match', 'cookie': 'cookies', 'date': 'date',
                       'accept': 'accept'}[h])
            rec.count(name + ('.err' if isinstance(v, list) and v and v[0] == 'EXC' else '.ok'))
    cl = d.get('content_length')
    rec.count('br.cl.' + ('err' if isinstance(cl, list) else 'none' if cl is None else 'int'))
    b = cw.get('body')
    if b and b[0] == 'media':
        rec.count('br.media.ok')
    elif b and isinstance(b[-1], list) and b[-1] and b[-1][0] == 'EXC':
        rec.count('br.read.err.' + b[-1][1])
    if d.get('params'):
        rec.count('br.params.nonempty')
    if d.get('route_params'):
        rec.count('br.route-params')
    st = cw['resp'][0] if cw.get('resp') else None
    if isinstance(st, int):
        rec.count('br.status.%dxx' % (st // 100))


# ------------------------------------------------------------------------------- classification

def _has_exc(record, name):
    def walk(x):
        if isinstance(x, list):
            if len(x) >= 2 and x[0] == 'EXC' and x[1] == name:
                return True
            return any(walk(y) for y in x)
        return False
    return walk(record or [])


def _pick(rec, used):
    """several mechanisms in one witness: name one that is not yet recorded, so nothing new hides behind a known key"""
    for k in used:
        if k not in rec.known_keys:
            return k
    return used[0]


def classify_wa(rec, req, cls, cw, ca, diffs):
    """WSGI-vs-ASGI findings; mechanisms may overlap in one request, so they are undone one after another."""
    used = []
    if 'raw8-query' in cls:
        # (3) raw 8-bit bytes in the query string: a WSGI server tunnels them as latin-1 and falcon.Request does not
        #     de-tunnel QUERY_STRING (it does for PATH_INFO); falcon.asgi.Request decodes the bytes as UTF-8
        qs = req['query'].encode('latin-1').decode('utf-8', 'replace')
        w2 = leg_w(req, env_patch={'QUERY_STRING': qs})
        d2 = compare_caps(w2, ca)
        if signature(d2) != signature(diffs):
            used.append(K_RAW8_QUERY)
            cw, diffs = w2, d2
        if not diffs:
            return _pick(rec, used)
    keys = set()
    for d in diffs:
        keys.update(d[2])
    if not keys <= {'body', 'resp', 'trace'}:
        return None
    explained = set()
    if 'invalid-cl' in cls and 'body' in keys:
        # (4) unparsable Content-Length: falcon.Request.bounded_stream swallows HTTPInvalidHeader and reads nothing,
        #     falcon.asgi.Request.stream lets HTTPInvalidHeader out
        #     -> wherever the WSGI leg obtained "no bytes", the ASGI leg has HTTPInvalidHeader, and nothing else differs
        def flat(x, out):
            if isinstance(x, list) and len(x) >= 2 and x[0] == 'EXC':
                out.append(('EXC', x[1]))
            elif isinstance(x, list):
                for y in x:
                    flat(y, out)
            elif isinstance(x, bytes):
                out.append(('bytes', x))
            return out
        fw, fa = flat(cw.get('body'), []), flat(ca.get('body'), [])
        w_ok = all(t == ('bytes', b'') or t == ('EXC', 'HTTPInvalidHeader') for t in fw)
        a_ok = bool(fa) and all(t == ('EXC', 'HTTPInvalidHeader') for t in fa)
        if w_ok and a_ok:
            used.append(K_INVALID_CL)
            explained.add('body')
            # the responders themselves ended differently for the same reason (a later handler may overwrite the 400)
            if _has_exc(ca.get('rexc'), 'HTTPInvalidHeader') and not _has_exc(cw.get('rexc'), 'HTTPInvalidHeader'):
                explained.update(('resp', 'trace'))
    cts = M.header_values(req, 'content-type')
    if cts and 'multipart/form-data' in cts[-1].lower() and not M.has_header(req, 'content-length'):
        # (6) multipart/form-data request without Content-Length: falcon/media/multipart.py MultipartForm.__init__
        #     asserts content_length is not None (WSGI only) -> AssertionError -> 500; ASGI builds the form lazily and
        #     answers MultipartParseError on iteration.  Undo: give the WSGI leg an explicit Content-Length: 0
        #     Evidence required: the AssertionError was seen in the WSGI leg (while reading, or leaving the responder -
        #     the final status may be anything, a later handler can overwrite the 500); the undo experiment decides.
        if _has_exc(cw.get('body'), 'AssertionError') or _has_exc(cw.get('rexc'), 'AssertionError'):
            alt = json.loads(json.dumps(req))
            alt['headers'].append(['content-length', '0'])
            ref = leg_w(alt)
            ok = {k for k in keys if ref.get(k) == ca.get(k)}
            if ok:
                used.append(K_MULTIPART_NO_CL)
                explained |= ok
    if 'resp' in keys and 'resp' not in explained and req['script']['body'][0].startswith('stream') \
            and cw.get('resp') and ca.get('resp'):
        # (7) an exception handled at the render stage (after process_response) while resp.stream is still set:
        #     falcon/app.py answers with an empty body (Content-Length: 0), falcon/asgi/app.py falls through to
        #     `stream = resp.stream` and sends the stream's content under the error status
        #     Evidence on the WSGI side that its render step failed and was handled: although a stream is set (and the
        #     script never sets Content-Length: 0) it answers an error status with an empty body and `Content-Length: 0` -
        #     falcon/app.py only does that through `body = []; length = 0` before _get_body() raised.  (The status seen by the
        #     last process_response hook is no evidence: a hook may change it afterwards, and the render error may restore it.)
        #     For HEAD both bodies are empty and the ASGI leg merely lacks the Content-Length.  The undo experiment decides.
        w_failed_render = cw['resp'][0] >= 400 and cw['resp'][0] == ca['resp'][0]
        w_empty = cw['resp'][2] == b'' and ['content-length', '0'] in cw['resp'][1]
        a_streamed = ['content-length', '0'] not in ca['resp'][1]     # the stream branch never writes Content-Length: 0
        if w_failed_render and w_empty and a_streamed:
            alt = json.loads(json.dumps(req))
            alt['script']['body'] = ['none']
            if not compare_caps(leg_w(alt), leg_a(alt), resp_only=True):
                used.append(K_RENDER_ERR_STREAM)
                explained.add('resp')
    if used and keys <= explained:
        return _pick(rec, used)
    return None


def classify(rec, req, pair, c1, c2, diffs):
    """Narrow mechanism classifiers for recorded findings.  Returns known_key or None.

    Each classifier re-runs a leg with exactly the suspected mechanism undone and demands that the
    difference disappears completely."""
    keys = set()
    for d in diffs:
        keys.update(d[2])
    st = req.get('sim') or {}
    cls = M.classes(req)
    if pair == 'SA-A':
        # (2) body=b'' : the ASGI simulator announces Content-Length: 0, the WSGI one announces nothing
        #     (a user-supplied Host header through the ASGI simulator, formerly (1), was repaired in /repo 735bfb5 and is
        #     now an ordinary monitored case)
        if st.get('empty_body_arg') and not req['body'] and not M.has_header(req, 'content-length'):
            alt = json.loads(json.dumps(req))
            alt['sim'] = None
            alt['headers'].append(['content-length', '0'])
            if not compare_caps(c1, leg_a(alt)):
                return K_SIM_EMPTY_BODY
    if pair == 'W-A':
        return classify_wa(rec, req, cls, c1, c2, diffs)
    if pair == 'SW-W' and keys <= {'body', 'resp', 'trace'}:
        # (5) `for chunk in req.bounded_stream`: BoundedStream.__next__ does next(self.stream); PEP 3333 only promises
        #     __iter__ on wsgi.input and wsgiref.validate's InputWrapper is not an iterator
        bs = c1.get('body') or []
        if req['script']['read']['mode'] == 'iter' and bs and isinstance(bs[-1], list) and bs[-1][:2] == ['EXC', 'TypeError'] \
                and 'is not an iterator' in bs[-1][2]:
            return K_ITER_INPUT
    return None


# ------------------------------------------------------------------------------- shrinking

def shrink(req, pair, sig, tries=80):
    """Greedy reduction keeping the same (pair, differing keys) signature."""
    def still(r):
        try:
            for p, c1, c2, diffs in run_case(None, r, report=False):
                if p == pair and signature(diffs) == sig:
                    return True
        except Exception:  # noqa
            return False
        return False

    cur = json.loads(json.dumps(req))
    n = [0]

    def attempt(mut):
        if n[0] >= tries:
            return False
        cand = json.loads(json.dumps(cur))
        try:
            if mut(cand) is False:
                return False
        except Exception:  # noqa
            return False
        if cand == cur:
            return False
        n[0] += 1
        if still(cand):
            cur.clear()
            cur.update(cand)
            return True
        return False

    dflt = G.default_script()
    for k in dflt:
        attempt(lambda c, k=k: c['script'].__setitem__(k, dflt[k]))
    i = 0
    while i < len(cur['headers']):
        name = cur['headers'][i][0].lower()
        if name in ('content-length',) and cur['body']:
            i += 1
            continue
        if not attempt(lambda c, i=i: c['headers'].pop(i)):
            i += 1

    def nobody(c):
        c['body'] = ''
        c['chunks'] = None
        c['headers'] = [h for h in c['headers'] if h[0].lower() != 'content-length']
    attempt(nobody)
    attempt(lambda c: c.__setitem__('chunks', None))
    attempt(lambda c: c.__setitem__('query', ''))
    attempt(lambda c: c.__setitem__('target', '/items'))
    attempt(lambda c: c.__setitem__('root_path', ''))
    attempt(lambda c: c.__setitem__('client', ['127.0.0.1', 51234]))
    attempt(lambda c: c.__setitem__('method', 'GET'))
    attempt(lambda c: c.__setitem__('opts', [False, True, False]))
    attempt(lambda c: c.__setitem__('http_version', '1.1'))
    if cur.get('sim'):
        for k in list(cur['sim']):
            attempt(lambda c, k=k: c['sim'].pop(k))
    return cur


def report(rec, req, findings):
    """The verdict (known mechanism or not) is decided on the request exactly as it was generated, so it cannot depend on
    whether this shard still had shrinking budget; a shrunk request is attached for the reader only."""
    for pair, c1, c2, diffs in findings:
        sig = signature(diffs)
        known = classify(rec, req, pair, c1, c2, diffs)
        kind = pair + ':' + '+'.join(sorted(set(d[0] for d in diffs)))
        wit = {'req': req, 'pair': pair, 'legs': [c1.get('leg'), c2.get('leg')],
               'differences': [[d[0], d[1]] for d in diffs][:4],
               'differing_keys': sorted(set(k for d in diffs for k in d[2]))[:30],
               'responder_exceptions': [c1.get('rexc'), c2.get('rexc')]}
        if c1.get('kwargs') is not None:
            wit['simulate_request_kwargs'] = c1['kwargs']
        unknown = known is None or known not in rec.known_keys
        if unknown and rec.counters.get('shrunk', 0) < 6:
            rec.count('shrunk')
            try:
                small = shrink(req, pair, sig)
            except Exception:  # noqa
                small = req
            if small != req:
                wit['shrunk_req'] = small
        rec.violation(kind, wit, known_key=known)


def one(rec, req, family=None):
    findings = run_case(rec, req)
    nontrivial = json.dumps(req, sort_keys=True)
    rec.case(nontrivial)
    rec.seen('scripts', json.dumps(req['script'], sort_keys=True))
    rec.seen('targets', req['target'])
    rec.seen('queries', req['query'])
    rec.seen('header-lists', json.dumps(req['headers']))
    if family:
        rec.count('fam.' + family)
    if findings:
        # a difference is believed only if it reproduces twice from scratch
        for _ in range(2):
            again = {(f[0], signature(f[3])) for f in run_case(None, req, report=False)}
            kept = [f for f in findings if (f[0], signature(f[3])) in again]
            if len(kept) != len(findings):
                rec.count('flaky-difference-dropped', len(findings) - len(kept))
            findings = kept
            if not findings:
                break
    if findings:
        report(rec, req, findings)


# =================================================================================== entry points

FROZEN_NOW = 1790000000.0


def setup(rec):
    # the only clock read on the paths exercised here is http.cookies rendering `expires=-1` (unset_cookie) relative to
    # time.time(): freeze it so that four legs run at different instants stay comparable and replays are exact
    time.time = lambda: FROZEN_NOW
    rec.rule = ('one case = one abstract request (method, target bytes, query, ordered header list, body+chunking, scheme, '
                'server, client, root path, HTTP version, 3 RequestOptions flags) + one responder script, run on WSGI and '
                'ASGI through the spec drivers and, when expressible, through falcon.testing.simulate_request on both; '
                'every case is non-trivial (it exercises all comparison monitors); distinct by (request, script)')
    rec.assumptions = [
        'request mapping abstract -> environ / scope is the one written down in vlib/models/c06_request.py '
        '(wsgiref/gunicorn and uvicorn/h11 conventions); a server that maps differently is outside the claim',
        'documented divergences normalised: req.headers key case (compared lower-cased); env/scope/log_error not compared; '
        'WSGI legs read req.bounded_stream where ASGI legs read req.stream; response streams are sync on WSGI, async on ASGI',
        'a request repeating a singleton header (falcon.constants.SINGLETON_HEADERS) is run but not compared: ASGI keeps the '
        'last value, a WSGI server has already joined them (counter notcompared.singleton-repeat)',
        'a body is always framed by a matching Content-Length (WSGI cannot see a chunked request body without it); '
        'wsgi.input returns full reads; header names contain no underscore; root_path is ASCII',
        'simulators: default User-Agent and derived Host header are part of the abstract request; exchanges refused by '
        'wsgiref.validate / ASGIResponseEventCollector are counted, not compared',
        'Host / Forwarded values with a non-numeric port (C09 finding parse-host-port-valueerror) are not generated',
    ]


FLOORS = {
    'quick': {'mon.digest.W-A': 3000, 'mon.response.W-A': 3000, 'mon.digest.SW-W': 1500, 'mon.digest.SA-A': 1500,
              'mon.response.SW-W': 1500, 'mon.response.SA-A': 1500, 'mon.anchor': 3000, 'mon.anchor.body': 100,
              'mon.result-object': 1500, 'random.cases': 40},
    'thorough': {'mon.digest.W-A': 20000, 'mon.response.W-A': 20000, 'mon.digest.SW-W': 8000, 'mon.digest.SA-A': 8000,
                 'mon.response.SW-W': 8000, 'mon.response.SA-A': 8000, 'mon.anchor': 20000, 'mon.anchor.body': 1000,
                 'mon.result-object': 8000, 'random.cases': 2000},
}
CLASS_FLOORS = ['cls.path-pct-utf8', 'cls.path-invalid-utf8', 'cls.path-trailing-slash', 'cls.raw8-path', 'cls.query',
                'cls.list-repeat', 'cls.hdr-casing', 'cls.body', 'cls.chunked-arrival', 'cls.https', 'cls.port-nondefault',
                'cls.root-path', 'cls.no-client', 'cls.no-host-header', 'cls.http-1.0', 'cls.invalid-cl',
                'notcompared.singleton-repeat', 'br.host.from-header', 'br.host.from-server', 'br.port.default',
                'br.port.explicit', 'br.fwd.forwarded.ok', 'br.fwd.xff.ok', 'br.fwd.real-ip.ok', 'br.fwd.xfp.ok',
                'br.fwd.xfh.ok', 'br.range.ok', 'br.range.err', 'br.if-match.ok', 'br.cookie.ok', 'br.date.ok', 'br.date.err',
                'br.cl.err', 'br.cl.int', 'br.cl.none', 'br.media.ok', 'br.read.err.MediaMalformedError',
                'br.params.nonempty', 'br.route-params', 'br.responder-not-reached', 'br.status.2xx', 'br.status.3xx',
                'br.status.4xx', 'br.status.5xx', 'resp.raise.error', 'resp.raise.status', 'resp.raise.redirect',
                'resp.raise.exc', 'resp.raise.custom', 'resp.propagate', 'resp.short-circuit', 'resp.body.text',
                'resp.body.data', 'resp.body.media', 'resp.body.stream.gen', 'resp.body.stream.file',
                'resp.body.stream.set_stream', 'read.read', 'read.readn', 'read.iter', 'read.media', 'read.multipart',
                'fam.E6.sim-style', 'fam.E6.sim-query-style', 'sim.style.inline-query', 'sim.style.inline-query-with-qmark',
                'sim.style.params-dict', 'fam.E6.sim-ows', 'sim.style.ows-header-value', 'sim.style.none-header-value',
                'fam.E1.hooked', 'fam.E5.cookie-sources', 'fam.E1.static', 'fam.E4.multipart-limits', 'mon.default-options',
                'fam.E8.ops-single', 'fam.E8.render-then-change', 'fam.E8.preset-x-mode', 'fam.E6.sim-header-forms',
                'sim.style.headers-one-shot', 'sim.style.headers-mapping', 'sim.style.headers-mappingproxy', 'sim.style.headers-tuple',
                'fam.E3.fwd-kinds', 'fam.E6.sim-arg-forms', 'sim.style.port-str', 'sim.style.body-str',
                'fam.E7.middleware', 'mw.mode.dependent', 'mw.short-circuit.0.request', 'mw.short-circuit.1.request',
                'mw.short-circuit.3.request', 'mw.short-circuit.0.resource', 'mw.fault.request.http', 'mw.fault.resource.exc',
                'mw.fault.response.custom', 'resp.body.stream.file_short', 'resp.body.stream.set_stream_short',
                'fam.H.client-history', 'hist.defaults+extra-then-later-request', 'mon.digest.TW', 'mon.digest.TA', 'mon.digest.CA']


def scalar_options(app):
    out = {}
    for name in ('req_options', 'resp_options', 'router_options'):
        o = getattr(app, name)
        for attr in sorted(set(dir(o)) - set(dir(object))):
            if attr.startswith('_'):
                continue
            try:
                v = getattr(o, attr)
            except Exception as ex:  # noqa
                v = rec_exc(ex)
            if v is None or isinstance(v, (bool, int, float, str)):
                out[name + '.' + attr] = v
            elif isinstance(v, (dict, falcon.media.Handlers)):
                out[name + '.' + attr] = sorted((str(k), type(x).__name__.replace('Async', '')) for k, x in v.items())
            elif isinstance(v, (list, tuple, set, frozenset)) and all(isinstance(x, (str, int)) for x in v):
                out[name + '.' + attr] = sorted(v)
    return out


def check_default_options(rec):
    """Configurations: a WSGI and an ASGI app built with default constructor arguments start from the same public options."""
    w, a = scalar_options(falcon.App()), scalar_options(falcon.asgi.App())
    rec.count('mon.default-options', len(w))
    bad = {k: [w.get(k, '<absent>'), a.get(k, '<absent>')] for k in set(w) | set(a) if w.get(k, '<absent>') != a.get(k, '<absent>')}
    if bad:
        rec.violation('default-options-differ', {'wsgi_vs_asgi': bad})


def run(rec):
    setup(rec)
    check_default_options(rec)
    idx = 0
    n_fam = 0
    for family, req in G.families(rec.tier, DEFAULT_UA):
        idx += 1
        if idx % rec.nshards != rec.shard:
            continue
        one(rec, req, family)
        n_fam += 1
        if idx % 1499 == 0:
            rec.sample({'family': family, 'req': {k: req[k] for k in ('method', 'target', 'query', 'headers', 'opts')}})
    for hist in G.histories(rec.tier):
        idx += 1
        if idx % rec.nshards != rec.shard:
            continue
        run_history(rec, hist)
        rec.count('fam.H.client-history')
    rec.exhaustive = False
    if rec.shard == 0:
        rec.note('bounded-exhaustive families enumerated completely: %d cases over all shards' % idx)
    rng = rec.rng
    batches = 0
    # the first batches are sized by count (so the seeded random part exists even on a badly loaded machine), the rest by budget
    while batches < 3 or rec.budget_ok(0.9):
        batches += 1
        for _ in range(20):
            req = G.rand_request(rng, DEFAULT_UA)
            one(rec, req)
            rec.count('random.cases')
        run_history(rec, G.rand_history(rng))
        rec.count('random.histories')
    for k, v in FLOORS[rec.tier].items():
        rec.floor(k, v)
    for k in CLASS_FLOORS:
        rec.floor(k, 4 if rec.tier == 'quick' else 16)


def replay(rec, w):
    setup(rec)
    wit = w['witness']
    if wit.get('history'):
        run_history(rec, wit['history'])
        return
    # the request the run decided on ('original_req' in witnesses written before the decision moved to the unshrunk request)
    one(rec, wit.get('original_req') or wit['req'])
    rec.case('replay')
