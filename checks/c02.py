"""C02 - dispatch: route, then sink/static by recency; 404/405/OPTIONS exact.  DESIGN.md section 4, C02.

Monitor: every generated app is assembled twice - once for real (falcon.App / falcon.asgi.App,
driven through the PEP 3333 / ASGI drivers) and once in the reference model
vlib/models/c02_dispatch.py.  Every responder and sink of the generated app records itself and
its keyword arguments in a trace; static routes are told apart by the unique content of the
files they serve.  After every request the trace, the status and the Allow header are compared
with what the model designates.
"""

import enum
import itertools
import json
import pathlib
import os
import re
import shutil
import sys
import tempfile
from urllib.parse import quote


def _custom_verbs_for_this_process():
    """FALCON_CUSTOM_HTTP_METHODS (docs/api/routing.rst "Custom HTTP Methods") is read once, when falcon.constants
    is imported.  Half of the shard processes (shard % 4 in (1, 2): both index parities) run with two custom verbs
    enabled; a replay runs with whatever the witness ran with; an externally set variable is respected."""
    ext = os.environ.get('FALCON_CUSTOM_HTTP_METHODS')
    if ext is not None:
        return [m.strip().upper() for m in ext.split(',') if m.strip()]
    argv = sys.argv
    try:
        if '--replay' in argv:
            return list(json.load(open(argv[argv.index('--replay') + 1]))['witness'].get('custom', []))
        if '--shard' in argv:
            shard = int(argv[argv.index('--shard') + 1].split('/')[0])
            return ['PURGE', 'BAN'] if shard % 4 in (1, 2) else []
    except Exception:  # noqa
        pass
    return []


CUSTOM = _custom_verbs_for_this_process()
if CUSTOM and 'falcon.constants' not in sys.modules:
    os.environ['FALCON_CUSTOM_HTTP_METHODS'] = ','.join(CUSTOM)

import falcon  # noqa: E402
import falcon.asgi  # noqa: E402
import falcon.constants  # noqa: E402

from vlib.drivers import asgi as A  # noqa: E402
from vlib.drivers import wsgi as W  # noqa: E402
from vlib.models import c02_dispatch as M  # noqa: E402

M.configure_custom(CUSTOM)

LEVEL = 'exploration'
SHARDS = {'quick': 4, 'thorough': 16}
BUDGET = {'quick': 15, 'thorough': 150}

NDIRS = 5
UNKNOWN_VERBS = ['FOO', 'get', 'GET_ITEM'] + [m for m in ('PURGE', 'BAN') if m not in CUSTOM]
REQ_METHODS = M.STANDARD + CUSTOM + M.META + UNKNOWN_VERBS
SUFFIXES = ['item', 'a', 'a_b', 'byID', 'Item', 'A', 'a_B', 'byid']
DECOYS = ['on_GET', 'on_Get', 'on_get_ITEM', 'on_POST_item', 'On_get', 'on_get_']


# ---------------------------------------------------------------------------------------------
# scratch directories for static routes (same layout in every process, so witnesses replay)

def dir_files(d):
    names = ['common.txt', 'only%d.txt' % d, 'sub/common.txt', 'sub/only%d.txt' % d, 'index.html', '7', 'x', 'abc']
    return {n: ('dir%d:%s:' % (d, n)).encode() + b'#' * (d * 11 + i) for i, n in enumerate(names)}


DIRS = {d: dir_files(d) for d in range(NDIRS)}


def make_dirs():
    root = tempfile.mkdtemp(prefix='verif-c02-')
    for d, files in DIRS.items():
        for rel, content in files.items():
            p = os.path.join(root, 'd%d' % d, rel)
            os.makedirs(os.path.dirname(p), exist_ok=True)
            with open(p, 'wb') as f:
                f.write(content)
    return root


# ---------------------------------------------------------------------------------------------
# building the real app and the model from one configuration

def _make_responder(trace, idx, attr, asgi):
    if asgi:
        async def responder(self, req, resp, **kwargs):
            trace.append(('res', idx, attr, kwargs))
            resp.text = 'responder'
    else:
        def responder(self, req, resp, **kwargs):
            trace.append(('res', idx, attr, kwargs))
            resp.text = 'responder'
    responder.__name__ = attr.replace('-', '_')
    return responder


class _FalsyCallable:
    """A callable OBJECT (not a function) that is falsy - legal wherever falcon accepts 'a callable'."""

    def __init__(self, fn):
        self._fn = fn

    def __bool__(self):
        return False

    def __len__(self):
        return 0


class _SyncCallable(_FalsyCallable):
    def __call__(self, *a, **kw):
        return self._fn(*a, **kw)


class _AsyncCallable(_FalsyCallable):
    async def __call__(self, *a, **kw):
        return await self._fn(*a, **kw)


def as_callable_object(fn, asgi):
    return _AsyncCallable(fn) if asgi else _SyncCallable(fn)


def _make_sink(trace, idx, asgi):
    if asgi:
        async def sink(req, resp, **kwargs):
            trace.append(('sink', idx, kwargs))
            resp.text = 'sink'
    else:
        def sink(req, resp, **kwargs):
            trace.append(('sink', idx, kwargs))
            resp.text = 'sink'
    return sink


class _Proxy:
    """A delegating wrapper: responders are reachable through getattr() but not listed by dir()."""

    def __init__(self, wrapped):
        object.__setattr__(self, '_wrapped', wrapped)

    def __getattr__(self, name):
        return getattr(object.__getattribute__(self, '_wrapped'), name)

    def __dir__(self):
        return ['_wrapped']


def make_resource(trace, idx, spec, asgi):
    """-> (object registered with add_route, object whose attributes a later 'mutate' op changes).

    spec['style']: None (ordinary class) | 'proxy' (__getattr__ wrapper around one) | 'nodir' (custom __dir__ that
    lists nothing) | 'callobj' (responders are falsy callable objects stored as class attributes, not functions)."""
    style = spec.get('style')
    ns = {}
    for attr in spec['callable']:
        if style == 'callobj':
            ns[attr] = as_callable_object(_make_unbound_responder(trace, idx, attr, asgi), asgi)
        else:
            ns[attr] = _make_responder(trace, idx, attr, asgi)
    for attr in spec.get('noncallable', []):
        ns[attr] = 'not a responder'
    dunders = {}
    if spec.get('falsy'):
        dunders['__bool__'] = lambda self: False
    if spec.get('eq') is not None:
        # value-object style resource: distinct instances of one group compare equal and hash alike
        group = ('eq-group', spec['eq'])
        dunders['_eq_group'] = group
        dunders['__eq__'] = lambda self, other: getattr(other, '_eq_group', None) == group
        dunders['__hash__'] = lambda self: hash(group)
    if style == 'nodir':
        dunders['__dir__'] = lambda self: []
    if style == 'proxy':
        inner = type('Res%d' % idx, (), ns)()
        return type('Proxy%d' % idx, (_Proxy,), dunders)(inner), inner
    ns.update(dunders)
    obj = type('Res%d' % idx, (), ns)()
    return obj, obj


def _make_unbound_responder(trace, idx, attr, asgi):
    """A responder stored on the INSTANCE (no self)."""
    if asgi:
        async def responder(req, resp, **kwargs):
            trace.append(('res', idx, attr, kwargs))
            resp.text = 'responder'
    else:
        def responder(req, resp, **kwargs):
            trace.append(('res', idx, attr, kwargs))
            resp.text = 'responder'
    return responder


def mutate_resource(trace, idx, resource, add, remove, asgi, on_instance):
    for attr in remove:
        if attr in vars(resource):
            delattr(resource, attr)
        else:
            delattr(type(resource), attr)
    for attr in add:
        if on_instance:
            setattr(resource, attr, _make_unbound_responder(trace, idx, attr, asgi))
        else:
            setattr(type(resource), attr, _make_responder(trace, idx, attr, asgi))


class LoudStr(str):
    """A str subclass whose str()/format()/repr() are NOT its value."""

    def __str__(self):
        return 'LoudStr.__str__'

    def __format__(self, spec):
        return 'LoudStr.__format__'

    def __repr__(self):
        return 'LoudStr.__repr__'


def wrap_str(value, kind):
    """kind None: plain str; 'enum': member of a (str, Enum) class; 'loud': LoudStr."""
    if value is None or not kind:
        return value
    if kind == 'enum':
        return enum.Enum('Mount', {'MEMBER': value}, type=str).MEMBER
    return LoudStr(value)


def make_middleware(mw, asgi):
    """A middleware that pre-sets state on the response (status and/or an Allow header) before the responder
    runs, from process_request or process_resource - the way apps set defaults they expect responders to override."""
    def touch(resp):
        if mw.get('status'):
            resp.status = mw['status']
        if mw.get('allow') is not None:
            resp.set_header('Allow', mw['allow'])
    ns = {}
    if mw['hook'] == 'request':
        if asgi:
            async def process_request(self, req, resp):
                touch(resp)
        else:
            def process_request(self, req, resp):
                touch(resp)
        ns['process_request'] = process_request
    else:
        if asgi:
            async def process_resource(self, req, resp, resource, params):
                touch(resp)
        else:
            def process_resource(self, req, resp, resource, params):
                touch(resp)
        ns['process_resource'] = process_resource
    return type('PresetMiddleware', (), ns)()


def untouched_status(cfg, cls, falsy_resource=False):
    """Statuses a response may carry when whatever ran does not set one itself (the generated responders and
    sinks, a static route serving a whole file)."""
    mw = cfg.get('mw')
    if not mw or not mw.get('status'):
        return (200,)
    if mw['hook'] == 'request':
        return (mw['status'],)
    if cls == 'responder':          # process_resource only runs for a matched route
        return (mw['status'], 200) if falsy_resource else (mw['status'],)    # falsy resources: C03's business
    return (200,)


class Built:
    """One configuration: the real app and the model, fed the same operations step by step."""

    def __init__(self, cfg, root):
        self.cfg = cfg
        self.root = root
        self.asgi = cfg['stack'] == 'asgi'
        self.trace = []
        cls = falcon.asgi.App if self.asgi else falcon.App
        kw = {}
        if cfg.get('mw'):
            kw['middleware'] = [make_middleware(cfg['mw'], self.asgi)]
            if cfg['mw'].get('dependent'):
                kw['independent_middleware'] = False
        if cfg.get('own_router'):
            kw['router'] = falcon.routing.CompiledRouter()
        if cfg.get('cors') == 'enable':
            kw['cors_enable'] = True
        elif cfg.get('cors') == 'explicit':
            kw['middleware'] = kw.get('middleware', []) + [falcon.CORSMiddleware()]
        ctor = cfg.get('ctor') or 'kw'
        if ctor == 'default':
            # the option is not passed at all: the documented default (sinks first) applies on both stacks
            assert cfg['sink_first'] is True
            self.app = cls(**kw)
        elif ctor == 'positional':
            self.app = cls(falcon.DEFAULT_MEDIA_TYPE, None, None, kw.get('middleware'), kw.get('router'),
                           kw.get('independent_middleware', True), kw.get('cors_enable', False), cfg['sink_first'])
        else:
            self.app = cls(sink_before_static_route=cfg['sink_first'], **kw)
        pairs = [make_resource(self.trace, i, spec, self.asgi) for i, spec in enumerate(cfg['resources'])]
        self.resources = [p[0] for p in pairs]
        self.targets = [p[1] for p in pairs]
        self.model = M.Model(cfg['sink_first'], [set(s['callable']) for s in cfg['resources']], DIRS)
        self.nops = 0
        self.mutated = set()                # resources changed so far
        self.route_after_mutation = {}      # template -> its resource had changed before the route was added

    def op_wrap(self, kind, key):
        """How the str arguments of the op that created this route/sink/static route were passed."""
        wrap = self.cfg.get('wrap') or {}
        for i, op in enumerate(self.cfg['ops'][:self.nops]):
            if op[0] == kind and op[1] == key and not (kind == 'sink' and op[4]):
                return wrap.get(str(i))
        return None

    def apply_next(self):
        op = self.cfg['ops'][self.nops]
        self.nops += 1
        kind = op[0]
        wk = (self.cfg.get('wrap') or {}).get(str(self.nops - 1))
        if kind == 'route':
            _, template, res_idx, suffix = op
            kw = {'suffix': wrap_str(suffix, wk)} if suffix is not None else {}
            if self.cfg.get('compile_now') and self.nops % 2:
                kw['compile'] = True
            self.app.add_route(wrap_str(template, wk), self.resources[res_idx], **kw)
            self.model.add_route(template, res_idx, suffix)
            self.route_after_mutation[template] = res_idx in self.mutated
        elif kind == 'mutate':
            _, res_idx, add, remove, on_instance = op
            mutate_resource(self.trace, res_idx, self.targets[res_idx], add, remove, self.asgi, on_instance)
            self.model.mutate_resource(res_idx, add, remove)
            self.mutated.add(res_idx)
        elif kind == 'sink':
            _, idx, pattern, flags, precompiled = op
            sink = _make_sink(self.trace, idx, self.asgi)
            if self.cfg.get('sink_objects'):
                sink = as_callable_object(sink, self.asgi)
            if precompiled:
                self.app.add_sink(sink, re.compile(pattern, flags))
            elif pattern == '/' and idx % 2 and not wk:
                self.app.add_sink(sink)            # documented default prefix
            else:
                self.app.add_sink(sink, wrap_str(pattern, wk))
            self.model.add_sink(idx, pattern, flags)
        else:
            _, idx, prefix, d, fallback, downloadable = op
            directory = os.path.join(self.root, 'd%d' % d)
            if wk == 'loud':
                directory = pathlib.Path(directory)         # documented: Union[str, pathlib.Path]
            elif wk == 'enum':
                directory = wrap_str(directory, wk)
            self.app.add_static_route(wrap_str(prefix, wk), directory, downloadable=downloadable,
                                      fallback_filename=wrap_str(fallback, wk))
            self.model.add_static(idx, prefix, d, fallback)
        return op

    def request(self, method, path, headers=()):
        del self.trace[:]
        raw = quote(path, safe="/")
        headers = [tuple(h) for h in headers]
        if self.asgi:
            res = A.run_asgi_http(self.app, A.make_scope(method, raw, headers=headers))
            exc = res.exc if res.outcome == 'raised' else (None if res.outcome == 'done' else res.outcome)
        else:
            res = W.run_wsgi(self.app, W.make_environ(method, raw, headers=headers))
            exc = res.exc
        return {'trace': [list(t) for t in self.trace], 'status': res.status, 'allow': res.header_values('Allow'),
                'clen': res.header('Content-Length'), 'body': res.body, 'exc': repr(exc) if exc is not None else None}


# ---------------------------------------------------------------------------------------------
# the monitor

def parse_allow(values):
    """-> sorted list of methods, or None if malformed (not exactly one header / duplicates)."""
    if len(values) != 1:
        return None
    items = [v.strip() for v in values[0].split(',')]
    if items == ['']:
        items = []
    if len(set(items)) != len(items) or '' in items:
        return None
    return sorted(items)


def judge(alt, obs, method, cfg):
    """None if the observation satisfies this alternative, else a short mechanism label."""
    cls = alt['cls']
    plain = untouched_status(cfg, cls, cls == 'responder' and bool(cfg['resources'][alt['res']].get('falsy')))
    t = obs['trace']
    st = obs['status']
    if obs['exc'] is not None:
        return 'exception-escaped'
    if cls == 'responder':
        if t != [['res', alt['res'], alt['attr'], alt['kwargs']]]:
            if len(t) == 1 and t[0][:3] == ['res', alt['res'], alt['attr']]:
                return 'responder-kwargs'
            return 'wrong-responder-ran'
        return None if st in plain else 'responder-status'
    if cls == 'sink':
        if t != [['sink', alt['idx'], alt['kwargs']]]:
            if len(t) == 1 and t[0][:2] == ['sink', alt['idx']]:
                return 'sink-kwargs'
            return 'wrong-fallback-ran'
        return None if st in plain else 'sink-status'
    if t:
        return 'user-code-ran-unexpectedly'
    if cls == 'auto-options':
        if st != 200:
            return 'auto-options-status'
        if alt.get('cors_preflight'):
            return None         # the CORS middleware moves Allow to Access-Control-Allow-Methods (property C20)
        return None if parse_allow(obs['allow']) == alt['allow'] else 'auto-options-allow'
    if cls == '405':
        if st != 405:
            return '405-status'
        return None if parse_allow(obs['allow']) == alt['allow'] else '405-allow'
    if cls == 'unknown-verb':
        return None if st in (400, 405, 501) else 'unknown-verb-status'
    if cls == '400-meta':
        return None if st == 400 else 'meta-method-status'
    if cls == '404':
        return None if st == 404 else '404-status'
    if cls == 'static':
        if method == 'OPTIONS':
            return None                       # what a static route answers to OPTIONS is not stated
        if alt.get('lenient'):
            return None if st in plain + (404,) else 'static-status'
        if alt['content'] is None:
            return None if st == 404 else 'static-missing-file-status'
        if st not in plain:
            return 'static-status'
        if method == 'HEAD':
            return None if obs['clen'] == str(len(alt['content'])) else 'wrong-static-route'
        return None if obs['body'] == alt['content'] else 'wrong-static-route'
    raise AssertionError(cls)


def _readd_decisive(entries, chosen):
    """entries: (idx, identity of the prefix, matches-this-path) in order of addition.  True when the chosen entry
    re-uses the prefix of an older entry and a DIFFERENT matching prefix was added in between (so an implementation
    that gave the re-added entry the old entry's rank would pick another one)."""
    pos = [k for k, e in enumerate(entries) if e[0] == chosen]
    if not pos:
        return False
    j = pos[0]
    ident = entries[j][1]
    for i in range(j):
        if entries[i][1] == ident and any(e[1] != ident and e[2] for e in entries[i + 1:j]):
            return True
    return False


_TOKEN = re.compile(r"^[!#$%&'*+\-.^_`|~0-9A-Za-z]+$")


def cors_preflight(cfg, method, headers):
    """True / False / None(undecided here).  W3C CORS (the text CORSMiddleware cites), preflight request: an
    OPTIONS request with an Origin and an Access-Control-Request-Method naming a method.  No such header, or an
    empty one (no method named), is not a preflight; a non-empty value that is not a method token is left to C20."""
    if not cfg.get('cors') or method != 'OPTIONS':
        return False
    h = {k.lower(): v for k, v in headers}
    if 'origin' not in h or 'access-control-request-method' not in h:
        return False
    acrm = h['access-control-request-method']
    if acrm == '':
        return False
    if acrm != acrm.strip():
        return None         # a server strips optional whitespace; such a value is not generated
    return True if _TOKEN.match(acrm) else None


def check_request(rec, b, method, path, checkpoints=(), final=True, headers=()):
    exp = b.model.expect(method, path)
    if exp is None:
        rec.count('skip.model-unsure')
        return
    pre = cors_preflight(b.cfg, method, headers)
    if pre is None:
        rec.count('skip.preflight-undecided')
        return
    if pre:
        exp = dict(exp, alts=[dict(a, cors_preflight=True) for a in exp['alts']])
    try:
        obs = b.request(method, path, headers)
    except Exception as ex:  # noqa - driver itself must not fail
        rec.violation('driver-raised', {'cfg': b.cfg, 'nops': b.nops, 'method': method, 'path': path, 'exc': repr(ex)})
        return
    stack = b.cfg['stack']
    verdicts = [judge(alt, obs, method, b.cfg) for alt in exp['alts']]
    ok = any(v is None for v in verdicts)
    alt = exp['alts'][verdicts.index(None)] if ok else exp['alts'][0]
    cls = alt['cls']
    rec.count('mon.%s.%s' % (stack, cls))
    rec.count('mon.total')
    # branch classes
    if exp['masks']:
        rec.count('cls.%s.route-masks-fallback' % stack)
    if cls == 'responder':
        if alt['kwargs']:
            rec.count('cls.route-kwargs')
        if alt['suffix']:
            rec.count('cls.suffixed-responder')
            if alt['suffix'] != alt['suffix'].lower():
                rec.count('cls.mixed-case-suffix-responder')
        if method in CUSTOM:
            rec.count('cls.custom-verb-responder')
        if any(isinstance(v, int) for v in alt['kwargs'].values()):
            rec.count('cls.route-int-kwarg')
    elif cls in ('405', 'auto-options'):
        if alt['suffix']:
            rec.count('cls.suffixed-' + cls)
            if alt['suffix'] != alt['suffix'].lower():
                rec.count('cls.mixed-case-suffix-' + cls)
        if set(alt['allow']) & set(CUSTOM):
            rec.count('cls.custom-verb-in-allow.' + cls)
        if method in CUSTOM:
            rec.count('cls.custom-verb-405')
        if not alt['allow'] or alt['allow'] == ['OPTIONS']:
            rec.count('cls.empty-method-set')
    elif cls == 'sink':
        if alt['kwargs']:
            rec.count('cls.sink-kwargs')
        if any(v is None for v in alt['kwargs'].values()):
            rec.count('cls.sink-kwarg-none')
        if 'sink' in alt['over']:
            rec.count('cls.lifo-sink-over-sink')
        if _readd_decisive([(i, (p.pattern, p.flags), p.match(path) is not None) for i, p in b.model.sinks], alt['idx']):
            rec.count('cls.%s.readd-sink-decisive' % stack)
        if 'static' in alt['over']:
            rec.count('cls.sink-over-static')
            if not b.cfg['sink_first']:
                rec.count('cls.sink-over-static.static-first-config')
    elif cls == 'static':
        if 'static' in alt['over']:
            rec.count('cls.lifo-static-over-static')
        if _readd_decisive([(i, p.rstrip('/'), M.Model._static_matches(p, fb, path)) for i, p, _d, fb in b.model.statics],
                           alt['idx']):
            rec.count('cls.%s.readd-static-decisive' % stack)
        if 'sink' in alt['over']:
            rec.count('cls.static-over-sink')
        if alt.get('content') is None and not alt.get('lenient'):
            rec.count('cls.static-404-does-not-fall-through')
    if len(exp['alts']) > 1:
        rec.count('cls.several-routes-match')
    ctor = b.cfg.get('ctor') or 'kw'
    if ctor != 'kw' and cls in ('sink', 'static') and {'sink', 'static'} <= set([cls] + alt['over']):
        rec.count('cls.ctor-%s.%s.%s-wins-over-other-kind' % (ctor, stack, cls))
    if b.cfg.get('cors') and cls in ('auto-options', '405', 'responder', 'sink'):
        hn = sorted(k.lower() for k, _v in headers)
        kind = 'preflight' if pre else ('empty-acrm' if any(k.lower() == 'access-control-request-method' and not v.strip()
                                                             for k, v in headers) else ('origin' if hn else 'bare'))
        rec.count('cls.cors.%s.%s' % (kind, cls))
    if cls in ('responder', 'auto-options', '405') and any(
            sg[0] == 'multi' for sg in M.parse_template(alt['template'])):
        rec.count('cls.multi-field-route.' + cls)
        if exp['masks']:
            rec.count('cls.multi-field-route.masks-fallback')
    for _i, sp, _d, _f in b.model.statics:
        if sp.endswith('//') and path.startswith(sp.rstrip('/') + '/') and not path.startswith(sp) and \
                not (cls == 'static' and alt['idx'] == _i):
            rec.count('cls.static-several-slashes-does-not-claim-single-slash-path')
            break
    if cls in ('responder', 'auto-options', '405') and alt['suffix'] == '':
        rec.count('cls.explicit-empty-suffix.' + cls)
    if cls in ('responder', 'auto-options', '405'):
        wk = b.op_wrap('route', alt['template'])
        if wk:
            rec.count('cls.strsub-%s.route.%s' % (wk, cls))
        if b.route_after_mutation.get(alt['template']):
            rec.count('cls.route-added-after-resource-changed.' + cls)
        style = None
        for op in b.cfg['ops'][:b.nops]:
            if op[0] == 'route' and op[1] == alt['template']:
                style = b.cfg['resources'][op[2]].get('style')
        if style:
            rec.count('cls.resource-%s.%s' % (style, cls))
        if cls == 'responder' and b.cfg['resources'][alt['res']].get('eq') is not None:
            rec.count('cls.equal-but-distinct-resource.responder')
    elif cls in ('sink', 'static'):
        if cls == 'sink' and b.cfg.get('sink_objects'):
            rec.count('cls.sink-falsy-callable-object')
        if cls == 'static' and b.model.statics and [p for i, p, _d, _f in b.model.statics if i == alt['idx']][0].endswith('//'):
            rec.count('cls.static-prefix-several-slashes')
        if path.startswith('//'):
            rec.count('cls.leading-slashes.' + cls)
        wk = b.op_wrap(cls, alt['idx'])
        if wk:
            rec.count('cls.strsub-%s.%s' % (wk, cls))
    mw = b.cfg.get('mw')
    if mw:
        if mw.get('status'):
            rec.count('cls.preset-status.%s.%s' % (mw['hook'], cls))
        if mw.get('allow') is not None and cls in ('auto-options', '405'):
            rec.count('cls.preset-allow.%s.%s' % (mw['hook'], cls))
    if not final:
        rec.count('cls.request-between-adds')
    key = (stack, b.cfg['sink_first'], cls, method, path, exp['n_fallbacks'], repr(sorted(alt.items(), key=repr)))
    rec.case(key if cls not in ('404',) else None)
    rec.seen('outcome-shapes', (stack, cls, method if method in ('OPTIONS', 'HEAD', 'WEBSOCKET') else 'other',
                                exp['masks'], tuple(alt.get('over', ()))))
    if not ok:
        known = None
        w = {'cfg': b.cfg, 'custom': CUSTOM, 'nops': b.nops, 'checkpoints': list(checkpoints), 'method': method, 'path': path,
             'headers': [list(h) for h in headers],
             'expected': exp['alts'], 'observed': obs, 'mechanisms': verdicts}
        rec.violation(verdicts[0], w, known_key=known)
    return cls


# ---------------------------------------------------------------------------------------------
# exhaustive families

U5 = ['GET', 'POST', 'OPTIONS', 'VERSION-CONTROL', 'WEBSOCKET']
MW_VARIANTS = [
    None,
    {'hook': 'request', 'status': 202, 'allow': None},
    {'hook': 'resource', 'status': 202, 'allow': 'BOGUS, GET'},
    {'hook': 'request', 'status': 404, 'allow': 'BOGUS', 'dependent': True},
]


def family_method_subsets():
    """All subsets of a 5-method universe for one route x plain/suffixed x both stacks."""
    for mask in range(32):
        S = [m for i, m in enumerate(U5) if mask >> i & 1]
        rest = [m for m in U5 if m not in S] + ['DELETE']
        for suffixed in (None, 'x', 'byID', ''):
            if suffixed and not S:
                continue            # add_route refuses a suffix without responders; not this property
            for stack in ('wsgi', 'asgi'):
                if suffixed == 'byID':
                    # the complement lives under the same suffix spelled in lower case, and under no suffix
                    attrs = [M.responder_name(m, 'byID') for m in S] + [M.responder_name(m, 'byid') for m in rest] + \
                            [M.responder_name(m) for m in rest]
                elif suffixed:
                    attrs = [M.responder_name(m, 'x') for m in S] + [M.responder_name(m) for m in rest]
                elif suffixed == '':
                    # explicit EMPTY suffix ("no suffix" spelled ''); every 4th resource also has 'on_get_'-style
                    # attributes, which makes the literal reading of the docs tenable as well
                    attrs = [M.responder_name(m) for m in S] + [M.responder_name(m, 'x') for m in rest] + \
                            (['on_get_', 'on_delete_'] if mask % 4 == 3 else [])
                else:
                    attrs = [M.responder_name(m) for m in S] + [M.responder_name(m, 'x') for m in rest] + DECOYS
                for v, mw in enumerate(MW_VARIANTS[:1] if suffixed == '' else MW_VARIANTS):
                    yield {
                        'stack': stack, 'sink_first': bool(mask & 1) ^ bool(suffixed),
                        'resources': [{'callable': sorted(attrs)}],
                        'ops': [['sink', 0, '/', 0, False],
                                ['static', 0, '/r0', 0, 'index.html', False],
                                ['route', '/r0/{id}', 0, suffixed]],
                        'mw': mw, 'own_router': v == 2 and stack == 'wsgi', 'compile_now': v == 1,
                    }


def family_custom_verbs():
    """(processes with custom verbs) all subsets of {GET, OPTIONS} + the custom verbs x plain/suffixed x stacks."""
    uni = ['GET', 'OPTIONS'] + CUSTOM
    for mask in range(1 << len(uni)):
        S = [m for i, m in enumerate(uni) if mask >> i & 1]
        rest = [m for m in uni if m not in S]
        for suffix in (None, 'Item'):
            if suffix and not S:
                continue
            for stack in ('wsgi', 'asgi'):
                attrs = [M.responder_name(m, suffix) for m in S] + \
                        [M.responder_name(m, None if suffix else 'Item') for m in rest]
                for mw in MW_VARIANTS[:2]:
                    yield {'stack': stack, 'sink_first': bool(mask & 1), 'resources': [{'callable': sorted(attrs)}],
                           'ops': [['sink', 0, '/', 0, False], ['route', '/r0/{id}', 0, suffix]], 'mw': mw}


SUBSET_REQUESTS = [(m, '/r0/7') for m in U5 + ['PUT', 'DELETE', 'FOO', 'get', 'PURGE']] + \
                  [('GET', '/other'), ('PUT', '/r0'), ('GET', '/r0/common.txt/zz'), ('HEAD', '/r0/sub/common.txt')]


def family_orders():
    """All orders of 2 overlapping sinks, 2 overlapping static routes and 1 route x option x stack."""
    items = [
        ['sink', 0, r'/f/(?P<name>[a-z0-9]+)\.txt$', 0, False],
        ['sink', 1, '/f/c', 0, False],
        ['static', 0, '/f', 0, None, False],
        ['static', 1, '/f/sub', 1, 'index.html', False],
        ['route', '/f/nope.txt', 0, None],
    ]
    for n, perm in enumerate(itertools.permutations(range(5))):
        for sink_first in (True, False):
            for stack in ('wsgi', 'asgi'):
                # how the option reaches the constructor: keyword / not at all (documented default: sinks first) /
                # positionally (8th parameter)
                ctor = 'kw' if n % 2 else ('default' if sink_first else 'positional')
                yield {'stack': stack, 'sink_first': sink_first, 'ctor': ctor,
                       'resources': [{'callable': ['on_get', 'on_put']}],
                       'ops': [items[i] for i in perm]}


ORDER_PATHS = ['/f/common.txt', '/f/only0.txt', '/f/nope.txt', '/f/sub/common.txt', '/f/sub/zz.txt', '/f/sub', '/f', '/f/cx']


def family_readd_sinks():
    """All orders of: sink P, overlapping sink Q, sink P AGAIN (equal pattern, new callable), static route S;
    x option x stack x how the two equal patterns are passed (str/str, str/compiled, compiled/compiled)."""
    for perm in itertools.permutations(range(4)):
        for sink_first in (True, False):
            for stack in ('wsgi', 'asgi'):
                for c0, c2 in ((False, False), (False, True), (True, True)):
                    items = [['sink', 0, '/f', 0, c0], ['sink', 1, '/f/c', 0, False], ['sink', 2, '/f', 0, c2],
                             ['static', 0, '/f', 0, None, False]]
                    yield {'stack': stack, 'sink_first': sink_first, 'resources': [{'callable': ['on_get']}],
                           'ops': [items[i] for i in perm]}


def family_readd_statics():
    """All orders of: static /f, static /f/sub, static /f AGAIN (other directory; same or slash-terminated
    spelling of the prefix), sink /f/sub/c; x option x stack."""
    for perm in itertools.permutations(range(4)):
        for sink_first in (True, False):
            for stack in ('wsgi', 'asgi'):
                for again in ('/f', '/f/'):
                    items = [['static', 0, '/f', 0, None, False], ['static', 1, '/f/sub', 1, 'index.html', False],
                             ['static', 2, again, 2, None, False], ['sink', 0, '/f/sub/c', 0, False]]
                    yield {'stack': stack, 'sink_first': sink_first, 'resources': [{'callable': ['on_get']}],
                           'ops': [items[i] for i in perm]}


READD_SINK_PATHS = ['/f/common.txt', '/f/only0.txt', '/f/cx', '/f', '/g']
READD_STATIC_PATHS = ['/f/common.txt', '/f/sub/common.txt', '/f/sub/only1.txt', '/f/sub/only2.txt', '/f/only2.txt', '/f/sub']


def family_branch_classes():
    """Small fixed configurations that reach every branch class the floors ask for, independent of the random phase."""
    for stack in ('wsgi', 'asgi'):
        for sink_first in (True, False):
            for mw in MW_VARIANTS[:2]:
                yield {'stack': stack, 'sink_first': sink_first, 'mw': mw,
                       'resources': [{'callable': ['on_get', 'on_post', 'on_get_item', 'on_report_item']},
                                     {'callable': [], 'noncallable': ['on_put'], 'falsy': True},
                                     {'callable': ['on_get_byID', 'on_delete_byid', 'on_websocket']}],
                       'ops': [['sink', 0, r'/s2(/(?P<opt>\w+))?$', 0, False],
                               ['route', '/r1/{id:int}', 0, None],
                               ['route', '/r1/{id:int}/sub', 0, 'item'],
                               ['static', 0, '/r2', 0, None, False],
                               ['route', '/r2/{name}', 0, None],
                               ['route', '/r2/x', 2, 'byID'],
                               ['sink', 1, r'/s0/(?P<id>\d+)', re.I, True],
                               ['route', '/{top}', 0, 'item'],
                               ['route', '/r1', 2, None],
                               ['route', '/empty', 1, None]]}


BRANCH_REQUESTS = [('GET', '/r1/12'), ('POST', '/r1/042'), ('REPORT', '/r1/7/sub'), ('GET', '/r1/7/sub'), ('PUT', '/r1/7/sub'),
                   ('OPTIONS', '/r1/7/sub'), ('GET', '/r1/abc'), ('GET', '/r2/x'), ('DELETE', '/r2/x'), ('GET', '/r2/é'),
                   ('GET', '/r1'), ('OPTIONS', '/r1'), ('GET', '/zz'), ('GET', '/s2'), ('PUT', '/s2'), ('GET', '/s2/w'),
                   ('GET', '/s2/w/z'), ('GET', '/S0/12'), ('GET', '/empty'), ('OPTIONS', '/empty'), ('PUT', '/empty'),
                   ('GET', '/r2/common.txt/zz'), ('GET', '/r2/sub/common.txt')]


def family_resource_styles():
    """Resources whose responders are found by getattr() only (proxy / empty __dir__) or are falsy callable
    objects: all subsets of the 5-method universe x plain/suffixed x stack; sinks as falsy callable objects."""
    for style in ('proxy', 'nodir', 'callobj'):
        for mask in range(32):
            S = [m for i, m in enumerate(U5) if mask >> i & 1]
            rest = [m for m in U5 if m not in S] + ['DELETE']
            for suffix in (None, 'x'):
                if suffix and not S:
                    continue
                for stack in ('wsgi', 'asgi'):
                    attrs = [M.responder_name(m, suffix) for m in S] + \
                            [M.responder_name(m, None if suffix else 'x') for m in rest]
                    yield {'stack': stack, 'sink_first': bool(mask & 1), 'sink_objects': bool(mask & 2),
                           'resources': [{'callable': sorted(attrs), 'style': style, 'falsy': mask % 5 == 0}],
                           'ops': [['sink', 0, '/', 0, False], ['route', '/r0/{id}', 0, suffix]]}


def family_slashes():
    """Static prefixes ending in several slashes next to the single-slash spelling; request paths with doubled
    slashes inside and at the start."""
    for stack in ('wsgi', 'asgi'):
        for sink_first in (True, False):
            for catch_all in (True, False):
                ops = [['static', 0, '/st0', 1, None, False],
                       ['static', 1, '/st0//', 0, None, False],
                       ['static', 2, '/st1///', 2, 'index.html', False],
                       ['static', 3, '//dbl', 3, None, False],
                       ['route', '/things', 0, None],
                       ['route', '/things/{id}', 0, 'x'],
                       ['sink', 1, '//s', 0, False]]
                if catch_all:
                    ops.insert(0, ['sink', 0, '/', 0, False])
                yield {'stack': stack, 'sink_first': sink_first, 'resources': [{'callable': ['on_get', 'on_get_x']}],
                       'ops': ops}


SLASH_REQUESTS = [('GET', p) for p in (
    '/st0/common.txt', '/st0//common.txt', '/st0///common.txt', '/st0/only0.txt', '/st0//only0.txt', '/st0//', '/st0/',
    '/st1/common.txt', '/st1//common.txt', '/st1///common.txt', '/st1///zz.txt', '/st1//', '/st1///', '/st1',
    '//dbl/common.txt', '/dbl/common.txt', '//dbl', '//zz', '//s', '//s/1', '/s', '///', '/things', '/things/7')] + \
    [('PUT', '/st0/common.txt'), ('HEAD', '/st0//common.txt'), ('OPTIONS', '/things/7'), ('PUT', '//zz')]


def family_multi_field():
    """A literal segment and a multi-field segment that also matches that literal as siblings, with different
    continuations (top level and one level down), next to a sink and a static route they must mask."""
    for stack in ('wsgi', 'asgi'):
        for sink_first in (True, False):
            for base in ('', '/api'):
                for flip in (False, True):
                    routes = [['route', base + '/v1.0/status', 0, None],
                              ['route', base + '/v{major}.{minor}/items', 1, 'x'],
                              ['route', base + '/v{major}.{minor}', 1, None]]
                    if flip:
                        routes.reverse()
                    yield {'stack': stack, 'sink_first': sink_first,
                           'resources': [{'callable': ['on_get']}, {'callable': ['on_get', 'on_get_x', 'on_put_x']}],
                           'ops': [['sink', 0, '/', 0, False], ['static', 0, base + '/v1.0', 0, 'index.html', False]] + routes,
                           '_base': base}


def multi_field_requests(base):
    return [(m, base + p) for p in ('/v1.0/items', '/v2.7/items', '/v1.0/status', '/v2.7/status', '/v1.0/other',
                                    '/v1.0', '/v2.7', '/vx.y/items', '/v1.0.2/items', '/v1./items', '/w1.0/items')
            for m in ('GET', 'PUT', 'OPTIONS')]


CORS_HEADER_SETS = [
    (),
    (('Origin', 'https://a.example'),),
    (('Origin', 'https://a.example'), ('Access-Control-Request-Method', '')),
    (('Access-Control-Request-Method', 'GET'),),
    (('Origin', 'https://a.example'), ('Access-Control-Request-Method', 'GET')),
    (('Origin', 'https://a.example'), ('Access-Control-Request-Method', 'PUT'), ('Access-Control-Request-Headers', 'X-A')),
]


def family_cors():
    """Apps with the built-in CORS middleware (cors_enable=True or an explicit CORSMiddleware): all subsets of the
    5-method universe x stack; requests with no CORS headers, with headers that do not make a preflight (no Origin,
    no / empty Access-Control-Request-Method) and real preflights (where only status and trace are judged)."""
    for mask in range(32):
        S = [m for i, m in enumerate(U5) if mask >> i & 1]
        for stack in ('wsgi', 'asgi'):
            for cors in ('enable', 'explicit'):
                yield {'stack': stack, 'sink_first': bool(mask & 1), 'cors': cors,
                       'ctor': 'positional' if mask & 2 else 'kw',
                       'mw': MW_VARIANTS[1] if mask & 4 and cors == 'enable' else None,
                       'resources': [{'callable': sorted(M.responder_name(m) for m in S)}],
                       'ops': [['sink', 0, '/', 0, False], ['route', '/r0/{id}', 0, None]]}


CORS_REQUESTS = [(m, p, h) for h in CORS_HEADER_SETS for m, p in (('OPTIONS', '/r0/7'), ('PUT', '/r0/7'), ('GET', '/r0/7'),
                                                                   ('OPTIONS', '/zz'))]


def family_arg_types():
    """str arguments passed as str SUBCLASSES whose str()/format() differ from their value ((str, Enum) member,
    LoudStr), directories as pathlib.Path: every op alone and all together x option x stack."""
    ops = [['sink', 0, '/', 0, False],
           ['static', 0, '/st0', 0, 'index.html', False],
           ['static', 1, '/st1/', 1, None, False],
           ['sink', 1, r'/s0/(?P<id>\d+)', 0, False],
           ['route', '/r0/{id}', 0, 'Item'],
           ['route', '/st0/nope', 0, None]]
    for stack in ('wsgi', 'asgi'):
        for sink_first in (True, False):
            for kind in ('enum', 'loud'):
                for which in [list(range(len(ops)))] + [[i] for i in range(len(ops))]:
                    yield {'stack': stack, 'sink_first': sink_first,
                           'resources': [{'callable': ['on_get', 'on_get_Item', 'on_put_Item', 'on_post_item']}],
                           'ops': ops, 'wrap': {str(i): kind for i in which}}


ARG_TYPE_REQUESTS = [('GET', '/st0/common.txt'), ('HEAD', '/st0/only0.txt'), ('GET', '/st0'), ('GET', '/st0/zz.txt'),
                     ('GET', '/st1/common.txt'), ('GET', '/st1'), ('GET', '/s0/12'), ('GET', '/r0/7'), ('PUT', '/r0/7'),
                     ('POST', '/r0/7'), ('OPTIONS', '/r0/7'), ('GET', '/st0/nope'), ('PUT', '/st0/nope'), ('GET', '/zz')]


def family_equal_and_changing_resources():
    """Distinct resource instances that compare equal and hash alike, on several routes with and without suffix;
    a resource that gains/loses responders (on the class or on the instance) between two add_route calls."""
    for stack in ('wsgi', 'asgi'):
        for sink_first in (True, False):
            for on_instance in (False, True):
                yield {'stack': stack, 'sink_first': sink_first,
                       'resources': [{'callable': ['on_get', 'on_get_item', 'on_post'], 'eq': 0},
                                     {'callable': ['on_delete_item', 'on_get', 'on_get_item', 'on_put'], 'eq': 0},
                                     {'callable': ['on_get'], 'eq': 0, 'falsy': True}],
                       'ops': [['route', '/a', 0, None], ['route', '/b', 1, None], ['route', '/c', 1, 'item'],
                               ['route', '/d', 0, 'item'], ['route', '/f', 2, None], ['sink', 0, '/', 0, False],
                               ['mutate', 0, ['on_delete', 'on_patch_item'], ['on_post'], on_instance],
                               ['route', '/e', 0, None], ['route', '/g', 0, 'item'],
                               ['mutate', 1, ['on_report'], ['on_put'], on_instance],
                               ['route', '/h', 1, None], ['route', '/i/{x}', 2, None]]}


EQUAL_REQUESTS = [(m, p) for p in ('/a', '/b', '/c', '/d', '/e', '/f', '/g', '/h', '/i/1')
                  for m in ('GET', 'PUT', 'POST', 'DELETE', 'PATCH', 'REPORT', 'OPTIONS')]


def apply_or_report(rec, b, checkpoints):
    """Every generated add_* call is legal: an app that refuses it cannot dispatch as the statement demands."""
    try:
        b.apply_next()
        return True
    except Exception as ex:  # noqa
        op = b.cfg['ops'][b.nops - 1]
        if op[0] == 'route' and op[3] == '' and type(ex).__name__ == 'SuffixedMethodNotFoundError' and \
                not M.implemented(b.model.resources[op[2]], M.EMPTY_AS_SUFFIX):
            rec.count('skip.empty-suffix-refused')      # docs read literally: a suffix without responders
            return False
        rec.count('mon.add-op-refused')
        rec.violation('legal-add-op-raised', {'cfg': b.cfg, 'custom': CUSTOM, 'nops': b.nops, 'checkpoints': list(checkpoints),
                                              'op': b.cfg['ops'][b.nops - 1], 'exc': repr(ex)})
        return False


def run_config_fixed(rec, root, cfg, requests, every_step):
    b = Built(cfg, root)
    checkpoints = []
    n = len(cfg['ops'])
    for step in range(n):
        if not apply_or_report(rec, b, checkpoints):
            return
        final = step == n - 1
        if final or every_step:
            for req in requests:
                check_request(rec, b, req[0], req[1], checkpoints, final, req[2] if len(req) > 2 else ())
            checkpoints.append(b.nops)


# ---------------------------------------------------------------------------------------------
# random configurations

FIELD_BY_NS = {0: '{id}', 1: '{id:int}', 2: '{name}'}
FIELD_VALUES = ['7', '042', 'abc', 'x', 'é', 'common.txt', 'sub', 'Zz-9', '12', '1', '0']


def route_pool():
    pool = ['/', '/{top}', '/st0/common.txt', '/st1/{file}', '/s0/{id}', '/s1', '/s2/{a}/{b}', '/R0/x', '/r0/X', '/v1.0/status', '/v{major}.{minor}/items', '/v{major}.{minor}', '/v1.0',
            '/r2/{a}-{b}', '/r2/x-y/sub']
    for k, f in FIELD_BY_NS.items():
        pool += ['/r%d' % k, '/r%d/%s' % (k, f), '/r%d/x' % k, '/r%d/%s/sub' % (k, f), '/r%d/x/{tail}' % k,
                 '/r%d/' % k]
    return pool


def sink_pool(rng):
    k = rng.randrange(3)
    return [
        ('/', 0, ['/', '/zz', '/r%d/7' % k]),
        ('', 0, ['/q', '/']),
        ('/s%d' % k, 0, ['/s%d' % k, '/s%d/1' % k, '/s%dx' % k, '/s%d1' % k]),
        (r'/s%d/(?P<id>\d+)' % k, 0, ['/s%d/12' % k, '/s%d/12/more' % k, '/s%d/ab' % k, '/s%d/7' % k]),
        (r'/s%d/(?P<a>[^/]+)/(?P<b>[^/]+)' % k, 0, ['/s%d/u/v' % k, '/s%d/u' % k, '/s%d/é/v/w' % k]),
        (r'/s%d(/(?P<opt>\w+))?$' % k, 0, ['/s%d' % k, '/s%d/w' % k, '/s%d/w/z' % k]),
        ('/r%d' % k, 0, ['/r%d' % k, '/r%d/9' % k, '/r%d/abc/sub' % k]),
        (r'/r%d/(?P<id>\w+)' % k, 0, ['/r%d/9' % k, '/r%d/abc' % k, '/r%d/x/y' % k]),
        ('/st%d' % k, 0, ['/st%d/common.txt' % k, '/st%d' % k]),
        (r'/st%d/(?P<file>[a-z0-9]+)\.txt$' % k, 0, ['/st%d/common.txt' % k, '/st%d/nope.txt' % k, '/st%d/sub/common.txt' % k]),
        (r'/(?P<first>[a-z0-9]+)', 0, ['/abc', '/r0', '/st1/x']),
        (r'.*\.txt$', 0, ['/st0/common.txt', '/zz/a.txt', '/zz/a.txtx']),
        ('/S%d' % k, re.I, ['/s%d/1' % k, '/S%d' % k]),
        (r'/s(\d)/(\w+)', 0, ['/s1/w', '/s2/7']),
        (r'/s%d/(?P<id>\d+)$' % k, 0, ['/s%d/12' % k, '/s%d/12/' % k]),
    ]


def static_prefix_pool(rng):
    k = rng.randrange(3)
    return ['/st%d' % k, '/st%d/' % k, '/st%d/sub' % k, '/r%d' % k, '/s%d' % k, '/', '/st%d' % ((k + 1) % 3), '/St%d' % k, '/st%d//' % k, '/st%d///' % k]


def gen_method_subset(rng):
    r = rng.random()
    universe = M.STANDARD + CUSTOM + M.META
    if r < 0.1:
        return []
    if r < 0.5:
        k = rng.randint(1, 3)
    elif r < 0.85:
        k = rng.randint(4, 12)
    else:
        k = len(universe) - (0 if r < 0.93 else 1)
    return rng.sample(universe, k)


def gen_resource(rng):
    attrs = {M.responder_name(m) for m in gen_method_subset(rng)}
    suffixes = []
    chosen = rng.sample(SUFFIXES, rng.choice([0, 1, 1, 2, 3]))
    for sfx in list(chosen):
        # a suffix spelled with upper-case letters usually comes with its lower-case twin (other responders)
        if sfx != sfx.lower() and sfx.lower() not in chosen and rng.random() < 0.7:
            chosen.append(sfx.lower())
    for sfx in chosen:
        ms = gen_method_subset(rng) or ['GET']
        attrs |= {M.responder_name(m, sfx) for m in ms}
        suffixes.append(sfx)
    if rng.random() < 0.25:
        attrs |= set(rng.sample(DECOYS, rng.randint(1, 3)))     # callables that are NOT responders of any route here
    non = []
    if rng.random() < 0.25:
        for _ in range(rng.randint(1, 3)):
            n = M.responder_name(rng.choice(M.STANDARD + CUSTOM), rng.choice([None] + suffixes))
            if n not in attrs and n not in non:
                non.append(n)
    return {'callable': sorted(attrs), 'noncallable': non, 'falsy': rng.random() < 0.15, 'suffixes': suffixes}


def gen_config(rng):
    resources = [gen_resource(rng) for _ in range(rng.randint(1, 3))]
    ops = []
    templates = rng.sample(route_pool(), rng.randint(0, 6))
    for t in templates:
        ri = rng.randrange(len(resources))
        sfxs = resources[ri]['suffixes']
        suffix = rng.choice(sfxs) if sfxs and rng.random() < 0.5 else (None if rng.random() < 0.85 else '')
        ops.append(['route', t, ri, suffix])
    hints = []
    for i, (pat, flags, examples) in enumerate(rng.sample(sink_pool(rng), rng.randint(0, 4))):
        ops.append(['sink', i, pat, int(flags), bool(flags) or rng.random() < 0.3])
        hints += examples
    # an already used sink pattern registered again (equal string / equal compiled pattern) with a new callable
    sink_ops = [o for o in ops if o[0] == 'sink']
    for _ in range(rng.choice([0, 0, 1, 1, 2]) if sink_ops else 0):
        src = rng.choice(sink_ops)
        ops.append(['sink', len([o for o in ops if o[0] == 'sink']), src[2], src[3], bool(src[3]) or rng.random() < 0.5])
    dirs = rng.sample(range(NDIRS), rng.randint(0, 3))
    spare = [d for d in range(NDIRS) if d not in dirs]
    used_prefixes = []
    for i, d in enumerate(dirs):
        prefix = rng.choice(static_prefix_pool(rng))
        used_prefixes.append(prefix)
        ops.append(['static', i, prefix, d, rng.choice([None, None, 'index.html', 'sub/common.txt']), rng.random() < 0.2])
        p = prefix.rstrip('/')
        hints += [prefix + 'common.txt', prefix + '/common.txt', prefix, p + '//only%d.txt' % d]
        hints += [p + '/common.txt', p + '/only%d.txt' % d, p + '/sub/common.txt', p + '/nope.txt', p or '/', p + '/',
                  p + 'x/common.txt', p + '/7', p + '/sub', p + '/abc']
    # an already used static prefix registered again over another directory
    for _ in range(rng.choice([0, 0, 1, 2]) if used_prefixes else 0):
        if not spare:
            break
        prefix = rng.choice(used_prefixes)
        if rng.random() < 0.25 and prefix != '/':
            prefix = prefix[:-1] if prefix.endswith('/') else prefix + '/'
        d = spare.pop()
        ops.append(['static', len([o for o in ops if o[0] == 'static']), prefix, d,
                    rng.choice([None, None, 'index.html']), False])
        hints += [prefix.rstrip('/') + '/only%d.txt' % d, prefix.rstrip('/') + '/sub/only%d.txt' % d]
    rng.shuffle(ops)
    if not ops:
        ops.append(['sink', 0, '/', 0, False])
    for t in templates:
        segs = M.parse_template(t)
        for _ in range(2):
            path = '/' + '/'.join(s[1] if s[0] == 'lit' else rng.choice(FIELD_VALUES) for s in segs)
            hints += [path, path + '/', path + '/extra', path.rsplit('/', 1)[0] or '/']
    hints += ['/', '/zz', '/r0/7', '/s0/12', '/st0/common.txt', '/abc/def.txt', '/r1/abc', '/r1/12', '/r2/x/sub',
              '/R0/x', '/r0/x', '/r0/X', '/St0/common.txt', '/ST0/common.txt', '/S0/12',
              '//zz', '//r0/7', '//s0/12', '///', '//st0/common.txt', '/r0//7', '/s0//12',
              '/v1.0/items', '/v2.7/items', '/v1.0/status', '/v1.0', '/v3.1', '/r2/x-y', '/r2/x-y/sub', '/r2/p-q']
    # a resource gains / loses responders between two add_* calls (only unsuffixed ones are removed, so that a
    # later suffixed route still finds a responder)
    if rng.random() < 0.3:
        current = [set(r['callable']) for r in resources]
        plain = {M.responder_name(m) for m in M.http_verbs() + M.META}
        last = 0
        for _ in range(rng.randint(1, 2)):
            ri = rng.randrange(len(resources))
            sfxs = [None] + resources[ri]['suffixes']
            add = {M.responder_name(rng.choice(M.http_verbs()), rng.choice(sfxs)) for _ in range(rng.randint(0, 2))}
            add -= current[ri] | set(resources[ri].get('noncallable', []))
            removable = sorted(current[ri] & plain)
            remove = set(rng.sample(removable, min(len(removable), rng.randint(0, 2))))
            if not add and not remove:
                continue
            current[ri] = (current[ri] | add) - remove
            last = rng.randint(last, len(ops))      # changes happen in the order they are generated
            ops.insert(last, ['mutate', ri, sorted(add), sorted(remove), rng.random() < 0.5])
            last += 1
    if rng.random() < 0.25:
        g = rng.randrange(2)
        for r in resources:
            r['eq'] = g                 # all resources of this app compare equal and hash alike
    for r in resources:
        if rng.random() < 0.3:
            r['style'] = rng.choice(['proxy', 'nodir', 'callobj'])
    wrap = {}
    if rng.random() < 0.3:
        kind = rng.choice(['enum', 'loud'])
        wrap = {str(i): kind for i in range(len(ops)) if rng.random() < 0.6}
    mw = None
    if rng.random() < 0.35:
        mw = {'hook': rng.choice(['request', 'resource']), 'status': rng.choice([None, 202, 202, 404, 201]),
              'allow': rng.choice([None, None, 'BOGUS', 'GET, BOGUS', '']), 'dependent': rng.random() < 0.3}
    cfg = {'stack': rng.choice(['wsgi', 'asgi']), 'sink_first': rng.random() < 0.5,
           'resources': resources, 'ops': ops, 'mw': mw, 'wrap': wrap, 'sink_objects': rng.random() < 0.25,
           'cors': rng.choice([None, None, None, None, 'enable', 'explicit']),
           'ctor': rng.choice(['kw', 'kw', 'positional', 'default']),
           'own_router': rng.random() < 0.15,
           'compile_now': rng.random() < 0.25}
    if cfg['ctor'] == 'default':
        cfg['sink_first'] = True        # the option is not passed: the documented default applies
    return cfg, sorted(set(hints))


RANDOM_HEADER_SETS = CORS_HEADER_SETS + [
    (('Origin', 'null'), ('Access-Control-Request-Method', 'G T')),        # not a token: undecided here, skipped
    (('origin', 'https://b.example'), ('access-control-request-method', 'delete')),
]


def pick_methods(rng, b, path):
    ms = {rng.choice(REQ_METHODS), rng.choice(['GET', 'OPTIONS', 'POST', 'HEAD', 'PUT', 'OPTIONS'])}
    if rng.random() < 0.3:
        ms.add(rng.choice(M.WEBDAV_METHODS))
    return sorted(ms)


def run_random_config(rec, root, rng):
    cfg, hints = gen_config(rng)
    b = Built(cfg, root)
    rec.seen('configs', repr(cfg))
    n = len(cfg['ops'])
    checkpoints = []
    for step in range(n):
        if not apply_or_report(rec, b, checkpoints):
            return cfg
        final = step == n - 1
        if not final and rng.random() < 0.5:
            continue
        paths = rng.sample(hints, min(len(hints), 24 if final else 6))
        for path in paths:
            for method in pick_methods(rng, b, path):
                headers = rng.choice(RANDOM_HEADER_SETS) if cfg.get('cors') and rng.random() < 0.7 else ()
                check_request(rec, b, method, path, checkpoints, final, headers)
        checkpoints.append(b.nops)
    if final and rng.random() < 0.1:
        # one matched path under every request method there is
        path = rng.choice(hints)
        for method in REQ_METHODS:
            check_request(rec, b, method, path, checkpoints, True)
    return cfg


# ---------------------------------------------------------------------------------------------

def run(rec):
    rec.rule = ('generated apps (<=6 routes with/without suffix over literal/{field}/{field:int} templates, resources over '
                'subsets of the 22 HTTP/WebDAV methods + WEBSOCKET incl. empty, non-callable and falsy ones, <=4 regex sinks, '
                '<=3 static routes over scratch directories, both sink_before_static_route values, WSGI and ASGI, requests also '
                'between add_* calls); one case = (stack, option, request method, path, designated outcome incl. responder/'
                'sink/static identity, kwargs and Allow set); non-trivial = anything but a plain 404; distinct by that tuple')
    rec.assumptions = ['reference model vlib/models/c02_dispatch.py (written from the statement and the add_route/add_sink/'
                       'add_static_route documentation) is correct',
                       'WEBSOCKET as an HTTP request method is answered 400 before dispatch (anchored mechanism); an '
                       'unknown verb on a matched route may be answered 400, 405 or 501 but must not run user code',
                       'when several route templates match one path any of them is accepted',
                       'static-route answers to OPTIONS and to unclean remainders are not judged beyond "no sink/responder ran"']
    if list(falcon.constants.FALCON_CUSTOM_HTTP_METHODS) != CUSTOM:
        rec.mark_inconclusive('custom verbs not configured as planned: %r vs %r'
                              % (falcon.constants.FALCON_CUSTOM_HTTP_METHODS, CUSTOM))
    rec.count('proc.custom-verbs' if CUSTOM else 'proc.default-verbs')
    root = make_dirs()
    try:
        idx = 0
        if CUSTOM:
            reqs = [(m, '/r0/7') for m in ['GET', 'OPTIONS', 'PUT', 'FOO'] + CUSTOM + [CUSTOM[0].lower()]]
            for cfg in family_custom_verbs():
                run_config_fixed(rec, root, cfg, reqs, every_step=False)
                rec.count('exh.custom-verb-configs')
        for cfg in family_branch_classes():
            for _ in range(2):
                run_config_fixed(rec, root, cfg, BRANCH_REQUESTS, every_step=True)   # every shard: tiny
            rec.count('exh.branch-class-configs')
        for cfg in family_multi_field():
            idx += 1
            if idx % rec.nshards != rec.shard:
                continue
            cfg = dict(cfg)
            run_config_fixed(rec, root, cfg, multi_field_requests(cfg.pop('_base')), every_step=True)
            rec.count('exh.multi-field-configs')
        for fam, reqs, counter in ((family_cors, CORS_REQUESTS, 'exh.cors-configs'),
                                   (family_resource_styles, SUBSET_REQUESTS, 'exh.resource-style-configs'),
                                   (family_slashes, SLASH_REQUESTS, 'exh.slash-configs'),
                                   (family_arg_types, ARG_TYPE_REQUESTS, 'exh.arg-type-configs'),
                                   (family_equal_and_changing_resources, EQUAL_REQUESTS, 'exh.equal-resource-configs')):
            for cfg in fam():
                idx += 1
                if idx % rec.nshards != rec.shard:
                    continue
                run_config_fixed(rec, root, cfg, reqs, every_step=True)
                rec.count(counter)
        for cfg in family_method_subsets():
            idx += 1
            if idx % rec.nshards != rec.shard:
                continue
            run_config_fixed(rec, root, cfg, SUBSET_REQUESTS, every_step=False)
            rec.count('exh.subset-configs')
        for cfg in family_orders():
            idx += 1
            if idx % rec.nshards != rec.shard:
                continue
            reqs = [(('GET', 'POST', 'OPTIONS', 'PROPFIND')[(idx + i) % 4], p) for i, p in enumerate(ORDER_PATHS)]
            run_config_fixed(rec, root, cfg, reqs, every_step=True)
            rec.count('exh.order-configs')
        for fam, paths, counter in ((family_readd_sinks, READD_SINK_PATHS, 'exh.readd-sink-configs'),
                                    (family_readd_statics, READD_STATIC_PATHS, 'exh.readd-static-configs')):
            for cfg in fam():
                idx += 1
                if idx % rec.nshards != rec.shard:
                    continue
                reqs = [(('GET', 'POST', 'OPTIONS')[(idx + i) % 3], p) for i, p in enumerate(paths)]
                run_config_fixed(rec, root, cfg, reqs, every_step=True)
                rec.count(counter)
        rec.exhaustive = True
        if rec.shard == 0:
            rec.note('exhaustive re-add families: all 24 orders of {sink P, sink Q, sink P again, static} x 3 ways of '
                     'passing the equal pattern, and of {static /f, static /f/sub, static /f again, sink}, x 2 option '
                     'values x 2 stacks, requests after every add')
            rec.note('exhaustive: 32 subsets of %r x plain/suffixed x 2 stacks (%d requests each); all 120 add orders of '
                     '2 sinks + 2 static routes + 1 route x 2 option values x 2 stacks, requests after every add'
                     % (U5, len(SUBSET_REQUESTS)))
        n = 0
        while n < 15 or rec.budget_ok(0.85):      # a minimum sized by count, the rest by budget
            cfg = run_random_config(rec, root, rec.rng)
            n += 1
            rec.count('random.configs')
            if n <= 2:
                rec.sample({'stack': cfg['stack'], 'sink_first': cfg['sink_first'], 'ops': cfg['ops'],
                            'resources': [r['callable'][:6] for r in cfg['resources']]})
    finally:
        shutil.rmtree(root, ignore_errors=True)
    for stack in ('wsgi', 'asgi'):
        for cls in ('responder', 'auto-options', '405', 'unknown-verb', '400-meta', 'sink', 'static', '404'):
            rec.floor('mon.%s.%s' % (stack, cls), 40)
        rec.floor('cls.%s.route-masks-fallback' % stack, 40)
    for c in ('cls.route-kwargs', 'cls.route-int-kwarg', 'cls.suffixed-responder', 'cls.suffixed-405',
              'cls.suffixed-auto-options', 'cls.empty-method-set', 'cls.sink-kwargs', 'cls.sink-kwarg-none',
              'cls.lifo-sink-over-sink', 'cls.lifo-static-over-static', 'cls.sink-over-static', 'cls.static-over-sink',
              'cls.static-404-does-not-fall-through', 'cls.request-between-adds', 'cls.several-routes-match'):
        rec.floor(c, 10)
    for stack in ('wsgi', 'asgi'):
        rec.floor('cls.%s.readd-sink-decisive' % stack, 40)
        rec.floor('cls.%s.readd-static-decisive' % stack, 40)
    rec.floor('exh.readd-sink-configs', 288)
    rec.floor('exh.readd-static-configs', 192)
    rec.floor('exh.subset-configs', 816)
    for c, n in (('responder', 40), ('405', 40), ('auto-options', 20)):
        rec.floor('cls.explicit-empty-suffix.' + c, n)
    for hook in ('request', 'resource'):
        for cls in ('auto-options', '405', 'responder'):
            rec.floor('cls.preset-status.%s.%s' % (hook, cls), 40)
        for cls in ('auto-options', '405'):
            rec.floor('cls.preset-allow.%s.%s' % (hook, cls), 40)
    for cls in ('sink', 'static', '404'):
        rec.floor('cls.preset-status.request.%s' % cls, 40)
    rec.floor('exh.arg-type-configs', 56)
    rec.floor('exh.multi-field-configs', 16)
    rec.floor('exh.cors-configs', 128)
    for c in ('responder', '405', 'auto-options', 'masks-fallback'):
        rec.floor('cls.multi-field-route.' + c, 40)
    for stack in ('wsgi', 'asgi'):
        rec.floor('cls.ctor-default.%s.sink-wins-over-other-kind' % stack, 40)
        rec.floor('cls.ctor-positional.%s.static-wins-over-other-kind' % stack, 40)
    for kind in ('bare', 'origin', 'empty-acrm', 'preflight'):
        rec.floor('cls.cors.%s.auto-options' % kind, 40)
        if kind != 'preflight':         # a preflight is an OPTIONS request: never a 405 here
            rec.floor('cls.cors.%s.405' % kind, 40)
    rec.floor('exh.resource-style-configs', 378)
    rec.floor('exh.slash-configs', 8)
    for style in ('proxy', 'nodir', 'callobj'):
        for c in ('responder', '405', 'auto-options'):
            rec.floor('cls.resource-%s.%s' % (style, c), 40)
    for c in ('cls.sink-falsy-callable-object', 'cls.static-prefix-several-slashes',
              'cls.static-several-slashes-does-not-claim-single-slash-path', 'cls.leading-slashes.sink',
              'cls.leading-slashes.static'):
        rec.floor(c, 40)
    rec.floor('exh.equal-resource-configs', 8)
    for kind in ('enum', 'loud'):
        for c, n in (('route.responder', 40), ('route.405', 10), ('route.auto-options', 10), ('sink', 40), ('static', 40)):
            rec.floor('cls.strsub-%s.%s' % (kind, c), n)
    for c in ('responder', '405', 'auto-options'):
        rec.floor('cls.route-added-after-resource-changed.' + c, 40)
    rec.floor('cls.equal-but-distinct-resource.responder', 40)
    rec.floor('proc.custom-verbs', 1)
    rec.floor('proc.default-verbs', 1)
    rec.floor('exh.custom-verb-configs', 124)
    for c in ('cls.mixed-case-suffix-responder', 'cls.mixed-case-suffix-405', 'cls.mixed-case-suffix-auto-options',
              'cls.custom-verb-responder', 'cls.custom-verb-405', 'cls.custom-verb-in-allow.405',
              'cls.custom-verb-in-allow.auto-options'):
        rec.floor(c, 40)
    rec.floor('exh.order-configs', 480)
    rec.floor('random.configs', 50)


def replay(rec, w):
    wit = w['witness']
    cfg = wit['cfg']
    root = make_dirs()
    try:
        b = Built(cfg, root)
        if 'op' in wit and 'method' not in wit:        # a refused add_* call: re-apply the history
            rec.case(('replay', 'add'))
            rec.case(('replay', 'x'))
            cps = []
            while b.nops < wit['nops']:
                if not apply_or_report(rec, b, cps):
                    break
                if b.nops in wit.get('checkpoints', []):
                    b.request('GET', '/')           # requests were served at this point of the history
            print('replayed add history: violations', rec.counters.get('violations', 0))
            return
        for cp in list(wit.get('checkpoints', [])) + [wit['nops']]:
            while b.nops < cp:
                b.apply_next()
            if cp != wit['nops']:
                b.request(wit['method'], wit['path'], wit.get('headers', []))
        cls = check_request(rec, b, wit['method'], wit['path'], wit.get('checkpoints', []), True, wit.get('headers', []))
        rec.case(('replay', cls))
        rec.case(('replay', 'x'))
        print('replayed: designated outcome class', cls, 'violations', rec.counters.get('violations', 0))
    finally:
        shutil.rmtree(root, ignore_errors=True)
