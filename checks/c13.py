"""C13 - multipart forms parse to exactly the parts that were encoded, however consumed.

DESIGN.md section 4, C13.  Oracle: a reference ENCODER (vlib/models/c13_multipart.py); the parts
are known by construction.  Every generated form is sent through the real falcon.App and
falcon.asgi.App (own PEP 3333 / ASGI drivers), the responder iterates `req.get_media()` under a
generated per-part consumption plan and records what it saw; the judge compares with the
encoded parts, with the configured limits and - for single-edit corruptions - with the
(deliberately weak, sound) corruption oracle, and compares the two stacks with each other.
"""

import io
import json
import sys

import falcon
import falcon.asgi
import falcon.asgi.multipart as amp
import falcon.asgi.reader as areader
import falcon.media.multipart as smp
import falcon.util.reader as sreader

from vlib.drivers import asgi as A
from vlib.drivers import wsgi as W
from vlib.models import c13_multipart as M
from vlib.models.c13_multipart import Part

LEVEL = 'exploration'
SHARDS = {'quick': 4, 'thorough': 16}
BUDGET = {'quick': 15, 'thorough': 150}

KEY_UNICODE = 'multipart-header-unicode-decode-error'
KEY_LANG = 'filename-star-language-tag-hyphen'
KEY_COMMA = 'boundary-comma-unsupported-media-type'

DEFAULT_LIMITS = {'count': 64, 'buffer': 1024 * 1024, 'headers': 8192, 'charset': 'utf-8'}
SMALL_ICS = (96, 80, 128)        # internal buffer sizes used to amplify buffer-edge coverage (>= 74 = longest delimiter)


# ---------------------------------------------------------------------------------------------
# logical hang guard: counts loop back-edges inside falcon's reader / multipart code objects
# ---------------------------------------------------------------------------------------------

class HangDetected(Exception):
    pass


class Guard:
    TOOL = 4

    def __init__(self):
        self.n = 0
        self.budget = 0
        self.fired = False
        self.ok = False
        mon = getattr(sys, 'monitoring', None)
        if mon is None:
            return
        try:
            mon.use_tool_id(self.TOOL, 'c13-hang-guard')
        except ValueError:
            return
        codes = []
        for cls in (sreader.BufferedReader, areader.BufferedReader, smp.MultipartForm, amp.MultipartForm,
                    smp.BodyPart, amp.BodyPart):
            for v in vars(cls).values():
                f = getattr(v, 'fget', v)
                c = getattr(f, '__code__', None)
                if c is not None:
                    codes.append(c)
        mon.register_callback(self.TOOL, mon.events.JUMP, self._cb)
        for c in codes:
            mon.set_local_events(self.TOOL, c, mon.events.JUMP)
        self.ok = True

    def _cb(self, code, off, dest):
        if dest < off and self.budget:
            self.n += 1
            if self.n > self.budget:
                self.fired = True
                self.budget = 0
                raise HangDetected('more than %d loop iterations in %s' % (self.n - 1, code.co_name))

    def arm(self, budget):
        self.n, self.budget, self.fired = 0, budget, False

    def disarm(self):
        self.budget = 0


GUARD = None


def guard():
    global GUARD
    if GUARD is None:
        GUARD = Guard()
    return GUARD


# ---------------------------------------------------------------------------------------------
# the applications under observation
# ---------------------------------------------------------------------------------------------

class Harness:
    plan = ()
    records = None
    exc = None
    completed = False


H = Harness()
LOOP_CAP = 400000


def _op_for(i):
    return H.plan[i] if i < len(H.plan) else ('read_all',)


def _consume_sync(part, op, out):
    k = op[0]
    s = part.stream
    if k == 'skip':
        pass
    elif k == 'read':
        out.append(s.read(op[1]))
    elif k == 'read_rest':
        out.append(s.read(op[1]))
        out.append(s.read())
    elif k == 'read_all':
        out.append(s.read())
    elif k == 'loop':
        n = 0
        while True:
            c = s.read(op[1])
            if not c:
                break
            out.append(c)
            n += 1
            if n > LOOP_CAP:
                raise HangDetected('read(%d) never returned EOF' % op[1])
    elif k == 'until':
        out.append(s.read_until(op[1]))
        if op[2]:
            out.append(s.read())
    elif k == 'until_n':
        out.append(s.read_until(op[1], op[2]))
        out.append(s.read())
    elif k == 'mix':
        out.append(s.read(op[1]))
        out.append(s.read_until(op[2]))
        out.append(s.read())
    elif k == 'data':
        out.append(part.get_data())
    elif k == 'data2':
        out.append(part.get_data())
        out.append(part.data)
    elif k == 'data_catch':
        try:
            out.append(part.get_data())
        except falcon.errors.MultipartParseError:
            out.append('TOO_LARGE')
    elif k == 'text':
        out.append(part.get_text())
    elif k == 'media':
        out.append(part.get_media())
    elif k == 'media2':
        out.append(part.get_media())
        out.append(part.get_media())
        out.append(part.media)
    elif k == 'iter':          # sync twin of async iteration: line-wise reading
        n = 0
        while True:
            c = s.readline()
            if not c:
                break
            out.append(c)
            n += 1
            if n > LOOP_CAP:
                raise HangDetected('readline never returned EOF')
    elif k == 'pipe':
        buf = io.BytesIO()
        s.pipe(buf)
        out.append(buf.getvalue())
    elif k == 'exhaust':
        s.exhaust()
    else:
        raise AssertionError(op)


class _AsyncSink:
    def __init__(self):
        self.b = io.BytesIO()

    async def write(self, data):
        self.b.write(data)


async def _consume_async(part, op, out):
    k = op[0]
    s = part.stream
    if k == 'skip':
        pass
    elif k == 'read':
        out.append(await s.read(op[1]))
    elif k == 'read_rest':
        out.append(await s.read(op[1]))
        out.append(await s.read())
    elif k == 'read_all':
        out.append(await s.read())
    elif k == 'loop':
        n = 0
        while True:
            c = await s.read(op[1])
            if not c:
                break
            out.append(c)
            n += 1
            if n > LOOP_CAP:
                raise HangDetected('read(%d) never returned EOF' % op[1])
    elif k == 'until':
        out.append(await s.read_until(op[1]))
        if op[2]:
            out.append(await s.read())
    elif k == 'until_n':
        out.append(await s.read_until(op[1], op[2]))
        out.append(await s.read())
    elif k == 'mix':
        out.append(await s.read(op[1]))
        out.append(await s.read_until(op[2]))
        out.append(await s.read())
    elif k == 'data':
        out.append(await part.get_data())
    elif k == 'data2':
        out.append(await part.get_data())
        out.append(await part.data)
    elif k == 'data_catch':
        try:
            out.append(await part.get_data())
        except falcon.errors.MultipartParseError:
            out.append('TOO_LARGE')
    elif k == 'text':
        out.append(await part.get_text())
    elif k == 'media':
        out.append(await part.get_media())
    elif k == 'media2':
        out.append(await part.get_media())
        out.append(await part.get_media())
        out.append(await part.media)
    elif k == 'iter':
        n = 0
        async for c in s:
            out.append(c)
            n += 1
            if n > LOOP_CAP:
                raise HangDetected('stream iteration never ended')
    elif k == 'pipe':
        sink = _AsyncSink()
        await s.pipe(sink)
        out.append(sink.b.getvalue())
    elif k == 'exhaust':
        await s.exhaust()
    else:
        raise AssertionError(op)


class SyncResource:
    def on_post(self, req, resp):
        H.records = recs = []
        H.exc = None
        H.completed = False
        try:
            form = req.get_media()
            for part in form:
                r = {'meta': None, 'outs': [], 'done': False}
                recs.append(r)
                if len(recs) > 10000:
                    raise HangDetected('more than 10000 parts')
                r['meta'] = (part.name, part.filename, part.content_type)
                _consume_sync(part, _op_for(len(recs) - 1), r['outs'])
                r['done'] = True
            H.completed = True
        except BaseException as ex:  # noqa
            H.exc = ex
            raise
        resp.media = {'parts': len(recs)}


class AsyncResource:
    async def on_post(self, req, resp):
        H.records = recs = []
        H.exc = None
        H.completed = False
        try:
            form = await req.get_media()
            async for part in form:
                r = {'meta': None, 'outs': [], 'done': False}
                recs.append(r)
                if len(recs) > 10000:
                    raise HangDetected('more than 10000 parts')
                r['meta'] = (part.name, part.filename, part.content_type)
                await _consume_async(part, _op_for(len(recs) - 1), r['outs'])
                r['done'] = True
            H.completed = True
        except BaseException as ex:  # noqa
            H.exc = ex
            raise
        resp.media = {'parts': len(recs)}


_APPS = {}


def apps():
    if not _APPS:
        wapp = falcon.App()
        wapp.add_route('/form', SyncResource())
        aapp = falcon.asgi.App()
        aapp.add_route('/form', AsyncResource())
        _APPS['wsgi'] = (wapp, wapp.req_options.media_handlers[falcon.MEDIA_MULTIPART].parse_options)
        _APPS['asgi'] = (aapp, aapp.req_options.media_handlers[falcon.MEDIA_MULTIPART].parse_options)
    return _APPS


class Obs:
    __slots__ = ('status', 'records', 'exc', 'completed', 'hang', 'escaped', 'outcome')

    def summary(self):
        return {'status': self.status, 'exc': repr(self.exc)[:300] if self.exc is not None else None,
                'completed': self.completed, 'hang': self.hang, 'escaped': repr(self.escaped) if self.escaped else None,
                'outcome': self.outcome, 'records': [{'meta': r['meta'], 'outs': r['outs'], 'done': r['done']}
                                                     for r in (self.records or [])[:8]]}


def _event_sizes(transport, total):
    if transport is None:
        return None
    if isinstance(transport, int):
        return [transport] * (total // transport + 1)
    return list(transport)


def _wsgi_short(transport):
    if transport is None or isinstance(transport, int):
        return transport
    pos = [t for t in transport if t > 0]
    return min(pos) if pos else 1


def execute(stack, body, ctype, plan, transport=None, ics=None, limits=None, asgi_cl=True, declared=None):
    """Send one request through the real stack; return what the responder observed."""
    guard()
    app, opts = apps()[stack]
    # untouched options keep whatever a fresh MultipartParseOptions() carries (the documented defaults are
    # part of the oracle: DEFAULT_LIMITS)
    orig = (opts.max_body_part_count, opts.max_body_part_buffer_size, opts.max_body_part_headers_size)
    orig_charset = opts.default_charset
    lim = limits or {}
    if 'charset' in lim:
        opts.default_charset = lim['charset']
    if 'count' in lim:
        opts.max_body_part_count = lim['count']
    if 'buffer' in lim:
        opts.max_body_part_buffer_size = lim['buffer']
    if 'headers' in lim:
        opts.max_body_part_headers_size = lim['headers']
    old = (sreader.DEFAULT_CHUNK_SIZE, areader.DEFAULT_CHUNK_SIZE)
    if ics is not None:
        sreader.DEFAULT_CHUNK_SIZE = ics
        areader.DEFAULT_CHUNK_SIZE = ics
    H.plan = plan
    H.records, H.exc, H.completed = None, None, False
    o = Obs()
    o.escaped = None
    o.outcome = None
    GUARD.arm(200000 + 60 * len(body))
    try:
        if stack == 'wsgi':
            short = _wsgi_short(transport)
            env = W.make_environ('POST', '/form', headers=[('Content-Type', ctype)], body=body,
                                 content_length=len(body) if declared is None else declared, short=short)
            res = W.run_wsgi(app, env)
            o.escaped = res.exc
            o.outcome = 'done' if res.exc is None else 'raised'
        else:
            hs = [('Content-Type', ctype)]
            if asgi_cl:
                hs.append(('Content-Length', str(len(body) if declared is None else declared)))
            scope = A.make_scope('POST', '/form', headers=hs)
            res = A.run_asgi_http(app, scope, events=A.body_events(body, chunks=_event_sizes(transport, len(body))))
            o.outcome = res.outcome
            if res.outcome == 'raised':
                o.escaped = res.exc
    finally:
        GUARD.disarm()
        sreader.DEFAULT_CHUNK_SIZE, areader.DEFAULT_CHUNK_SIZE = old
        opts.max_body_part_count, opts.max_body_part_buffer_size, opts.max_body_part_headers_size = orig
        opts.default_charset = orig_charset
    o.status = res.status
    o.records = H.records
    o.exc = H.exc
    o.completed = H.completed
    o.hang = GUARD.fired or isinstance(H.exc, HangDetected) or o.outcome in ('blocked', 'steps')
    return o


# ---------------------------------------------------------------------------------------------
# cases
# ---------------------------------------------------------------------------------------------

def make_case(boundary, parts, plan, preamble=b'', epilogue=b'', final_crlf=True, quoted=None, transport=None,
              ics=None, limits=None, edit=None, asgi_cl=True, stacks=('wsgi', 'asgi'), tag=''):
    return {'boundary': boundary, 'parts': parts, 'plan': [tuple(op) for op in plan], 'preamble': preamble,
            'epilogue': epilogue, 'final_crlf': final_crlf, 'quoted': quoted, 'transport': transport, 'ics': ics,
            'limits': limits, 'edit': edit, 'asgi_cl': asgi_cl, 'stacks': tuple(stacks), 'tag': tag}


def case_to_json(case):
    d = dict(case)
    d['parts'] = [p.to_json() for p in case['parts']]
    d['plan'] = [list(op) for op in case['plan']]
    return d


def case_from_json(d):
    c = dict(d)
    c['boundary'] = M.unb(d['boundary'])
    c['preamble'] = M.unb(d['preamble'])
    c['epilogue'] = M.unb(d['epilogue'])
    c['parts'] = [Part.from_json(p) for p in d['parts']]
    plan = []
    for op in d['plan']:
        op = list(op)
        if op[0] in ('until', 'until_n'):
            op[1] = M.unb(op[1])
        if op[0] == 'mix':
            op[2] = M.unb(op[2])
        plan.append(tuple(op))
    c['plan'] = plan
    if d.get('edit'):
        c['edit'] = tuple(d['edit'])
    tr = d.get('transport')
    c['transport'] = tr if (tr is None or isinstance(tr, int)) else list(tr)
    c['stacks'] = tuple(d.get('stacks') or ('wsgi', 'asgi'))
    return c


def apply_edit(body, edit):
    kind, pos = edit[0], edit[1]
    if kind == 'sub':
        return body[:pos] + bytes([edit[2]]) + body[pos + 1:]
    if kind == 'del':
        return body[:pos] + body[pos + 1:]
    if kind == 'ins':
        return body[:pos] + bytes([edit[2]]) + body[pos:]
    if kind == 'trunc':         # the transport lost the tail; the declared Content-Length stays that of the full body
        return body[:pos]
    raise AssertionError(edit)


MEDIA_PARTS = [   # (ctype, content, expected media) - the only parts on which get_media() is planned
    ('application/json', b'{"count": 6, "numbers": [1, 2, 6, 24, 120, 720]}', {'count': 6, 'numbers': [1, 2, 6, 24, 120, 720]}),
    ('application/json', b'[\r\n-1,\r\n-2,\r\n "--"]', [-1, -2, '--']),
    ('application/json; charset=utf-8', b'"\xe2\x82\xac"', '€'),
    ('application/x-www-form-urlencoded', b'name=Jane&surname=Doe', {'name': 'Jane', 'surname': 'Doe'}),
    # documents whose deserialized value is falsy / None (a cache must not confuse them with "not yet deserialized")
    ('application/json', b'null', None), ('application/json', b'false', False), ('application/json', b'0', 0),
    ('application/json', b'""', ''), ('application/json', b'[]', []), ('application/json', b'{}', {}),
    ('application/json', b' null\r\n', None), ('application/json', b'0.0', 0.0),
]
MEDIA_EXPECT = {(c, b): m for c, b, m in MEDIA_PARTS}


def normalize_plan(parts, plan):
    """Make the plan total and applicable (get_media only where the oracle knows the answer)."""
    out = []
    for i, p in enumerate(parts):
        op = tuple(plan[i]) if i < len(plan) else ('read_all',)
        if op[0] in ('media', 'media2') and (p.ctype, p.content) not in MEDIA_EXPECT:
            op = ('read_all',)
        out.append(op)
    return out


def _is_mpe(ex):
    return isinstance(ex, falcon.errors.MultipartParseError)


def _classify_unicode(ex):
    """narrow classifier for known finding KEY_UNICODE: UnicodeDecodeError raised by the bytes->str
    decoding inside BodyPart.name / .filename / .content_type."""
    if not isinstance(ex, UnicodeDecodeError):
        return None
    tb = ex.__traceback__
    last = None
    while tb is not None:
        last = tb
        tb = tb.tb_next
    if last is None:
        return None
    code = last.tb_frame.f_code
    if code.co_name in ('name', 'filename', 'content_type') and code.co_filename.replace('\\', '/').endswith('falcon/media/multipart.py'):
        return KEY_UNICODE
    return None


def classify_exc(o, case):
    ex = o.exc if o.exc is not None else o.escaped
    known = _classify_unicode(ex)
    if (known is None and o.status == 415 and isinstance(ex, falcon.HTTPUnsupportedMediaType) and
            b',' in case['boundary'] and not o.records):
        # the request Content-Type is matched like an Accept list: a comma inside the quoted boundary splits it
        known = KEY_COMMA
    return known


_reported = {}


def report(rec, kind, wit, known_key=None):
    """rec.violation with a per-class cap for not-yet-listed known keys (so a run still completes)."""
    if known_key is not None and known_key not in rec.known_keys:
        rec.count('classified.' + known_key)
        n = _reported.get(known_key, 0)
        _reported[known_key] = n + 1
        if n >= 1:
            return
    if known_key is not None:
        wit = dict(wit, classified_as=known_key)
    rec.violation(kind, wit, known_key=known_key)


def judge_ops(p, op, outs, buf_limit, default_charset='utf-8'):
    """Compare what one consumption op returned with the encoded content. -> None | reason"""
    c = p.content
    k = op[0]
    if any(not isinstance(o, (bytes, str, type(None), dict, list, int, float)) for o in outs):
        return 'unexpected output types'
    if k in ('skip', 'exhaust'):
        return None if not outs else 'unexpected output'
    if k == 'read':
        if len(outs) != 1 or not isinstance(outs[0], bytes):
            return 'read: no bytes'
        o, n = outs[0], op[1]
        if n is None or n < 0:
            return None if o == c else 'read(-1) != content'
        if not c.startswith(o) or len(o) > n:
            return 'read(n) is not a prefix of at most n bytes'
        if n > 0 and c and not o:
            return 'read(n) returned nothing from a non-empty part'
        return None
    if k == 'read_rest':
        if len(outs) != 2 or not all(isinstance(o, bytes) for o in outs):
            return 'read_rest: no bytes'
        if len(outs[0]) > max(op[1], 0) and op[1] >= 0:
            return 'read(n) returned more than n bytes'
        return None if outs[0] + outs[1] == c else 'read(n)+read() != content'
    if k in ('read_all', 'pipe'):
        return None if outs == [c] else k + ' != content'
    if k == 'loop':
        if any(not isinstance(o, bytes) or len(o) > op[1] for o in outs):
            return 'loop: chunk larger than requested'
        return None if b''.join(outs) == c else 'joined read(n) chunks != content'
    if k == 'iter':
        if any(not isinstance(o, bytes) for o in outs):
            return 'iter: non-bytes'
        return None if b''.join(outs) == c else 'joined iteration chunks != content'
    if k == 'until':
        d = op[1]
        j = c.find(d)
        want = c if j < 0 else c[:j]
        if not outs or outs[0] != want:
            return 'read_until != content up to the delimiter'
        if op[2]:
            return None if len(outs) == 2 and outs[0] + outs[1] == c else 'read_until()+read() != content'
        return None
    if k == 'mix':
        if len(outs) != 3 or not all(isinstance(o, bytes) for o in outs):
            return 'mix: no bytes'
        if len(outs[0]) > op[1] or op[2] in outs[1]:
            return 'read(n) returned more than n bytes or read_until ran over the delimiter'
        return None if b''.join(outs) == c else 'read(n)+read_until(d)+read() != content'
    if k == 'until_n':
        d, n = op[1], op[2]
        if len(outs) != 2 or not all(isinstance(o, bytes) for o in outs):
            return 'read_until(d, n): no bytes'
        if len(outs[0]) > n or d in outs[0]:
            return 'read_until(d, n) returned more than n bytes or ran over the delimiter'
        return None if outs[0] + outs[1] == c else 'read_until(d, n)+read() != content'
    if k == 'data':
        return None if outs == [c] else 'get_data != content'
    if k == 'data2':
        return None if outs == [c, c] else 'get_data/data != content'
    if k == 'data_catch':
        if len(c) > buf_limit:
            return None if outs == ['TOO_LARGE'] else 'oversized part not refused by get_data'
        return None if outs == [c] else 'get_data != content'
    if k == 'text':
        want = M.model_text(c, p.ctype, default_charset)
        if want[0] == 'ok':
            return None if outs == [want[1]] else 'get_text != decoded content'
        if want[0] == 'fail':
            return 'get_text returned something for a part that cannot be decoded'
        return None if outs == [None] else 'get_text on a non-text part is not None'
    if k == 'media':
        return None if repr(outs) == repr([MEDIA_EXPECT[(p.ctype, p.content)]]) else 'get_media != expected document'
    if k == 'media2':
        return None if repr(outs) == repr([MEDIA_EXPECT[(p.ctype, p.content)]] * 3) else \
            'repeated get_media()/.media != expected document (three times)'
    return 'unknown op'


def expected_failure(parts, plan, lim):
    """Where (if anywhere) must the parse stop with MultipartParseError?  -> None | (index, stage, why)"""
    for i, p in enumerate(parts):
        if lim['count'] > 0 and i >= lim['count']:
            return (i, 'pre', 'count')
        if len(M.header_block(p)) > lim['headers']:
            return (i, 'pre', 'headers')
        op = plan[i]
        if op[0] in ('data', 'data2') and len(p.content) > lim['buffer']:
            return (i, 'op', 'buffer')
        if op[0] == 'text' and M.text_label(p.ctype, lim['charset']) is not None:
            if len(p.content) > lim['buffer']:
                return (i, 'op', 'buffer')
            if M.model_text(p.content, p.ctype, lim['charset'])[0] == 'fail':
                return (i, 'op', 'text')
    return None


def meta_known(p, got):
    """narrow classifier for KEY_LANG: only the filename differs, the part carries filename* with a hyphenated
    language tag, and what came back is the plain filename= fallback (or None)."""
    want = M.expected(p)
    if (got is not None and got[0] == want[0] and got[2] == want[2] and p.ext is not None and '-' in p.ext[1] and
            got[1] == p.filename):
        return KEY_LANG
    return None


def check_records(rec, parts, plan, lim, records, upto, stack):
    """records[0:upto] must describe parts[0:upto] exactly. -> None | (kind, detail, known_key)"""
    for i in range(upto):
        r = records[i]
        p = parts[i]
        want = M.expected(p)
        rec.count('mon.part_meta')
        if r['meta'] != want[:3]:
            return ('part-metadata-mismatch', {'index': i, 'got': r['meta'], 'want': want[:3]}, meta_known(p, r['meta']))
        if not r['done']:
            return ('part-not-finished', {'index': i}, None)
        rec.count('mon.op.' + plan[i][0])
        bad = judge_ops(p, plan[i], r['outs'], lim['buffer'], lim['charset'])
        if bad:
            known = None
            return ('part-content-mismatch', {'index': i, 'op': plan[i], 'reason': bad, 'got': r['outs'][:3],
                                               'content': p.content[:200], 'content_len': len(p.content)}, known)
    return None


def judge_valid(rec, case, stack, o, wit):
    """Valid body (possibly with limits): demand exactly the encoded parts / the exact limit behaviour."""
    parts, plan = case['parts'], case['plan']
    lim = dict(DEFAULT_LIMITS)
    lim.update(case['limits'] or {})
    rec.count('mon.valid.' + stack)
    if o.hang:
        return report(rec, 'hang', wit)
    fail = expected_failure(parts, plan, lim)
    records = o.records or []
    if o.exc is not None and not _is_mpe(o.exc):
        return report(rec, 'valid-form-other-exception', wit, classify_exc(o, case))
    if o.escaped is not None:
        return report(rec, 'exception-escaped-app', wit)
    if fail is None:
        if case['limits']:
            rec.count('mon.limit.pass')
        if (_is_mpe(o.exc) and o.status == 400 and records and records[-1]['meta'] is None and len(records) <= len(parts) and
                M.ext_undecodable(parts[len(records) - 1])):
            # filename* whose octets are not valid in its declared charset: refusing the part is admissible (the other
            # admissible outcome, reporting the plain filename= fallback, is what M.expected() asks for below)
            rec.count('mon.ext_bad.400')
            bad = check_records(rec, parts, plan, lim, records, len(records) - 1, stack)
            if bad:
                return report(rec, bad[0], dict(wit, detail=bad[1]), bad[2])
            return None
        if o.exc is not None or o.status != 200 or not o.completed:
            return report(rec, 'valid-form-rejected', wit)
        if len(records) != len(parts):
            return report(rec, 'part-count-mismatch', dict(wit, got_parts=len(records), want_parts=len(parts)))
        bad = check_records(rec, parts, plan, lim, records, len(parts), stack)
        if bad:
            return report(rec, bad[0], dict(wit, detail=bad[1]), bad[2])
        return None
    idx, stage, why = fail
    rec.count('mon.limit.fail.' + why)
    if o.exc is None or o.status != 400:
        return report(rec, 'limit-not-enforced' if why != 'text' else 'undecodable-text-accepted',
                      dict(wit, expected_failure=[idx, stage, why]))
    if stage == 'pre':
        if len(records) > idx:
            return report(rec, 'limit-enforced-late', dict(wit, expected_failure=[idx, stage, why], got_parts=len(records)))
        upto = len([r for r in records if r['done']])
    else:
        if len(records) != idx + 1:
            return report(rec, 'limit-enforced-at-wrong-part', dict(wit, expected_failure=[idx, stage, why],
                                                                    got_parts=len(records)))
        upto = idx
        if records[idx]['meta'] != M.expected(parts[idx])[:3]:
            return report(rec, 'part-metadata-mismatch', dict(wit, detail={'index': idx, 'got': records[idx]['meta']}),
                          meta_known(parts[idx], records[idx]['meta']))
    bad = check_records(rec, parts, plan, lim, records, upto, stack)
    if bad:
        return report(rec, bad[0], dict(wit, detail=bad[1]), bad[2])
    return None


def strong_corruption(case, body, lay, edit):
    """If the edit provably leaves the structure intact, return the list of parts a parser must
    still report (with the edited content); else None (weak oracle applies)."""
    kind, pos = edit[0], edit[1]
    boundary = case['boundary']
    if kind == 'trunc':
        return list(case['parts']) if pos >= lay.span('close')[3] else None
    span = lay.find(pos) if kind != 'ins' else None
    if kind == 'ins':
        # an insertion at pos lies inside a span when pos is strictly inside it, or at either end of a content span
        for s in lay.spans:
            if s[0] in ('content', 'epilogue') and s[2] <= pos <= s[3]:
                span = s
                break
            if s[0] == 'preamble' and s[2] <= pos < s[3] - 2:
                span = s
                break
    if span is None:
        return None
    k, idx, s, e = span
    if k == 'content':
        old = body[s:e]
        rel = pos - s
        if kind == 'sub':
            new = old[:rel] + bytes([edit[2]]) + old[rel + 1:]
        elif kind == 'del':
            new = old[:rel] + old[rel + 1:]
        else:
            new = old[:rel] + bytes([edit[2]]) + old[rel:]
        if not M.content_legal(new, boundary):
            return None
        parts = list(case['parts'])
        p = parts[idx]
        parts[idx] = Part(p.name, new, p.filename, p.ext, p.ctype, p.style)
        return parts
    if k == 'epilogue':
        return list(case['parts'])
    if k == 'preamble':
        old = body[s:e]
        rel = pos - s
        if rel >= len(old) - 2 and kind != 'ins':
            return None          # touches the CRLF that ends the preamble
        if kind == 'sub':
            new = old[:rel] + bytes([edit[2]]) + old[rel + 1:]
        elif kind == 'del':
            new = old[:rel] + old[rel + 1:]
        else:
            new = old[:rel] + bytes([edit[2]]) + old[rel:]
        if (b'--' + boundary) in new:
            return None
        return list(case['parts'])
    return None


def _cmp_view(o):
    if o.hang:
        return ('hang',)
    if o.exc is not None:
        return ('error', type(o.exc).__name__, o.status)
    return ('ok', o.status, [(r['meta'], [x for x in r['outs']]) for r in (o.records or [])])


def run_case(rec, case):
    """Execute one case on its stacks and judge it.  Returns list of Obs."""
    parts = case['parts']
    case['plan'] = plan = normalize_plan(parts, case['plan'])
    boundary = case['boundary']
    body, lay = M.encode_form(parts, boundary, case['preamble'], case['epilogue'], case['final_crlf'])
    ctype = M.content_type_header(boundary, case['quoted'])
    edit = case['edit']
    sent = apply_edit(body, edit) if edit else body
    strong = strong_corruption(case, body, lay, edit) if edit else None
    # a part announcing an identity Content-Transfer-Encoding in another spelling than the one falcon documents ('binary'):
    # the statement fixes neither acceptance nor refusal -> exact parts or the multipart parse error, same on both stacks
    cte_weak = not edit and any(p.style.get('cte') not in (None, 'binary') for p in parts)
    weak = bool(edit and strong is None) or cte_weak
    obs = []
    for stack in case['stacks']:
        try:
            o = execute(stack, sent, ctype, plan, case['transport'], case['ics'], case['limits'], case['asgi_cl'],
                        declared=len(body) if edit and edit[0] == 'trunc' else None)
        except HangDetected as ex:
            o = Obs()
            o.status, o.records, o.exc, o.completed, o.hang, o.escaped, o.outcome = None, [], ex, False, True, None, 'hang'
        obs.append(o)
        wit = {'case': case_to_json(case), 'stack': stack, 'observed': o.summary(), 'ctype_header': ctype,
               'body_len': len(sent)}
        if cte_weak:
            rec.count('mon.cte.weak')
            if _is_mpe(o.exc) and o.status == 400 and not o.hang and o.escaped is None:
                rec.count('cte.weak.400')
            else:
                judge_valid(rec, case, stack, o, wit)
        elif not edit:
            judge_valid(rec, case, stack, o, wit)
        elif strong is not None:
            rec.count('mon.corrupt.strong')
            c2 = dict(case)
            c2['parts'] = strong
            judge_valid(rec, c2, stack, o, wit)
        else:
            rec.count('mon.corrupt.weak')
            if o.hang:
                report(rec, 'corrupt-body-hang', wit)
            elif o.escaped is not None:
                report(rec, 'corrupt-body-exception-escaped', wit, classify_exc(o, case))
            elif o.exc is not None:
                if _is_mpe(o.exc) and o.status == 400:
                    rec.count('corrupt.weak.400')
                else:
                    report(rec, 'corrupt-body-other-exception', wit, classify_exc(o, case))
            elif o.status == 200 and o.completed:
                rec.count('corrupt.weak.200')
            else:
                report(rec, 'corrupt-body-odd-outcome', wit)
    if len(obs) == 2:
        rec.count('mon.xstack')
        a, b = _cmp_view(obs[0]), _cmp_view(obs[1])
        if a != b:
            known = None
            if weak:
                known = classify_exc(obs[0], case) or classify_exc(obs[1], case)
            # on a valid/strong case each stack was already judged against the encoder; only report
            # a divergence here when the weak oracle is the only judge
            if weak:
                report(rec, 'wsgi-asgi-disagree', {'case': case_to_json(case), 'wsgi': obs[0].summary(),
                                                   'asgi': obs[1].summary(), 'ctype_header': ctype}, known)
    classes(rec, case, body, lay)
    return obs


def classes(rec, case, body, lay):
    """Branch-class counters (what kinds of forms/histories were exercised)."""
    parts, b = case['parts'], case['boundary']
    n = len(b)
    rec.count('cls.boundary_len.%s' % (n if n in (1, 2, 70) else ('3-34' if n < 35 else '35-69')))
    rec.count('cls.parts.%s' % (len(parts) if len(parts) < 4 else '4+'))
    if case['preamble']:
        rec.count('cls.preamble')
    if case['epilogue']:
        rec.count('cls.epilogue')
    if not case['final_crlf']:
        rec.count('cls.no_final_crlf')
    d = b'\r\n--' + b
    for p in parts:
        if not p.content:
            rec.count('cls.empty_content')
        elif any(d[:j] in p.content for j in (len(d) - 1, 4)):
            rec.count('cls.content_delim_prefix')
        if p.ext is not None:
            rec.count('cls.ext_filename')
    tr = case['transport']
    if tr is not None:
        rec.count('cls.transport.' + ('1byte' if tr == 1 else 'chunked'))
    ics = case['ics']
    rec.count('cls.ics.' + ('default' if ics is None else 'small'))
    if len(body) > (ics or 32768):
        rec.count('cls.body_spans_buffers.wsgi')
    if len(body) > (ics or 8192) and tr is not None:
        rec.count('cls.body_spans_buffers.asgi')
    if case['limits']:
        for k in case['limits']:
            rec.count('cls.limit.' + k)
    if case['edit']:
        rec.count('cls.edit.' + case['edit'][0])
    for op in case['plan']:
        rec.count('cls.plan.' + op[0])


def nontrivial_key(case):
    parts = case['parts']
    d = b'\r\n--' + case['boundary']
    hard = (len(parts) >= 2 or case['transport'] is not None or case['limits'] or case['edit'] or case['ics'] or
            any(d[:4] in p.content for p in parts))
    if not hard:
        return None
    return repr(case_to_json(case))


def do_case(rec, case):
    run_case(rec, case)
    rec.case(nontrivial_key(case))


# ---------------------------------------------------------------------------------------------
# generators
# ---------------------------------------------------------------------------------------------

B35 = b"b'(o)+u_n,d-a.r/y:=?x 0123456789ABC"
B70 = b'----WebKitFormBoundary' + b'7MA4YWxkTrZu0gW' + b'x' * 33
assert len(B35) == 35 and len(B70) == 70
BOUNDARIES = [b'B', b'ab', B35, B70, b'-', b'--', b'a0d738bcdb30449eb0d13f4b72c2897e']


def hostile_contents(b):
    d = b'\r\n--' + b
    cand = [b'', b'x', b'\r', b'\n', b'\r\n', b'-', b'--', b'\r\n-', b'\r\n--', d[:-1], d[:-1] * 2,
            b'x--' + b + b'--\r\n', d[:-1] + b'\r', b + b'\r\n', b'\r\n--' + b[:-1] + b'!', b'abc\r',
            bytes(range(256)), b'\r\n\r\n', b'--\r\n']
    out = []
    for c in cand:
        if M.content_legal(c, b) and c not in out:
            out.append(c)
    return out


PREAMBLES = [b'', b'This is the preamble.  It is to be ignored.\r\n']
EPILOGUES = [b'', b'This is the epilogue.']

OPS_BASIC = [('skip',), ('read', 0), ('read', 1), ('read', 3), ('read_rest', 2), ('read_all',), ('loop', 1), ('loop', 5),
             ('until', b'\n', False), ('until', b'\r\n--', True), ('until', b'-', False), ('until_n', b'\n', 2), ('mix', 2, b'-'), ('data',), ('data2',), ('text',),
             ('iter',), ('pipe',), ('exhaust',), ('data_catch',), ('read', -1), ('read', 100000)]
OPS_COMMON = [op for op in OPS_BASIC if op[0] != 'iter']      # ops whose outputs are comparable across stacks
TRANSPORTS = [None, 1, 2, 7, 64, [0, 3, 0, 0, 5, 1, 0, 100000], 1000]
NAMES = ['a', 'field name', 'f;x=1', 'näme€', "it's", 'a*b', '', 'x' * 150]
# values that need quoted-pair escapes: 1, 2, 3 escaped quotes, backslashes, ';' ',' '=' around them.  Never a trailing
# backslash: `a="b\\"` is the separately recorded C11 finding quoted-value-trailing-backslash-swallows-params.
QVALS = ['5" disk', 'a"b"c', 'a"b"c"d', '"', '""', '"' * 3, 'a\\b', '\\"x', 'a";b', 'a;"b', 'x\\y;z="1",', '";"=',
         'C:\\dir\\f"1".txt', 'say "hi"; then \\"bye', 'p%22q;r']
FILENAMES = [None, 'hd.txt', 'my file.txt', 'ünï.txt', 'a;b=c.txt', '']
EXTS = [None, ('UTF-8', '', '⬅ Arrow.txt'), ('utf-8', 'en', '£ rates'), ('ISO-8859-1', '', '£ rates'),
        ('UTF-8', 'en-GB', '£ and € rates')]
# RFC 5987 ext-values: every attr-char that is not alphanumeric, kept literal by an encoder that follows the grammar, at the
# start / in the middle / at the end of the name; characters that must be escaped ('%', "'", '*', ';', ',', '=', '"', space)
EXT_SPECIALS = "!#$&+-.^_`|~"
EXT_TEXTS = [t for c in EXT_SPECIALS for t in (c + 'a', 'a' + c + 'b', 'a' + c)] + [
    EXT_SPECIALS, 'a' + EXT_SPECIALS + 'z.txt', '100% sure?.txt', "it's *.txt", 'a;b,c="d" e=f.txt', '€&£#$', 'r&d/q+a\\x|y.txt',
    '%41', '%', "'", "''x", 'x']
EXT_RAWS = ["UTF-8''%E2%28%AC", "UTF-8''%E2%82", "UTF-8''a%FFb", "utf-8'en'%C0%AF", "UTF-8''%ED%A0%80", "UTF-8''%F8%88%80%80%80",
            "us-ascii''%A3", "ascii'en'caf%E9", "x-unknown''abc", "x-unknown''a%20b", "utf-16''%00", "utf-16le''a", "cp1252''%81",
            "shift_jis''%81", "utf-8''%e2%82%ac", "iso-8859-1''%A3%20rates", "us-ascii''plain.txt", "utf-16''%FF%FEh%00",
            "cp1252'de'%80uro"]
CTE_VALUES = ['binary', 'Binary', 'BINARY', 'bInArY', '8bit', '8BIT', '7bit', '7Bit']
CTYPES = [None, 'text/plain', 'text/plain; charset=utf-8', 'text/plain; charset=latin-1', 'application/json',
          'application/octet-stream', 'image/png', 'application/x-www-form-urlencoded']
STYLES = [{}, {'case': 'lower'}, {'case': 'upper', 'sep': ';'}, {'token': True}, {'ext_first': True, 'ctype_first': True},
          {'token': True, 'sep': ';', 'ctype_first': True, 'case': 'lower'}]


def filler(n, boundary, salt=0):
    """n bytes of content rich in CR, LF, dashes and delimiter prefixes, legal for this boundary."""
    d = b'\r\n--' + boundary
    unit = d[:-1] + b'\r' + d[:3] + bytes([65 + salt % 26]) + b'-\n' + d[:len(d) // 2] + b'xy'
    out = (unit * (n // len(unit) + 1))[:n]
    if not M.content_legal(out, boundary):
        out = (b'abc\r\n-' * (n // 6 + 1))[:n]
    assert M.content_legal(out, boundary), (n, boundary)
    return out


def phase_forms(rec, counter):
    """A: every form over boundaries x hostile contents x layouts (bounded), rotating plan/transport/buffer size."""
    maxparts = 2 if rec.tier == 'quick' else 3
    bset = BOUNDARIES[:4] if rec.tier == 'quick' else BOUNDARIES
    idx = 0
    for b in bset:
        contents = hostile_contents(b)
        if rec.tier == 'quick':
            contents = contents[:11]
        for n in range(0, maxparts + 1):
            tuples = [()]
            for _ in range(n):
                tuples = [t + (c,) for t in tuples for c in contents]
            for tup in tuples:
                for lay_i in (range(8) if n < 3 else (0, 7)):
                    idx += 1
                    if idx % rec.nshards != rec.shard:
                        continue
                    pre = PREAMBLES[lay_i & 1]
                    epi = EPILOGUES[(lay_i >> 1) & 1]
                    fcrlf = not (lay_i >> 2) & 1 or bool(epi)
                    parts = [Part('f%d' % j, c, filename=('x.bin' if (idx + j) % 3 == 0 else None),
                                  ctype=(None if (idx + j) % 2 else 'application/octet-stream'),
                                  style=STYLES[(idx + j) % len(STYLES)]) for j, c in enumerate(tup)]
                    k = idx // rec.nshards
                    plan = [OPS_BASIC[(k + 7 * j) % len(OPS_BASIC)] for j in range(n)]
                    tr = TRANSPORTS[(k // 3) % len(TRANSPORTS)]
                    ics = (None, 96, 80, None, 128)[(k // 2) % 5]
                    do_case(rec, make_case(b, parts, plan, pre, epi, fcrlf, transport=tr, ics=ics,
                                           asgi_cl=bool(k % 4), tag='A'))
                    counter[0] += 1
    rec.count('phase.A.done')


def phase_consumption(rec):
    """B: first part content x every consumption op x every size k, second part must be intact."""
    idx = 0
    bset = [b'B', B35] if rec.tier == 'quick' else [b'B', B35, b'-', B70]
    for b in bset:
        d = b'\r\n--' + b
        tail = Part('tail', b'tail\r\n--', filename='t.txt', ctype='text/plain')
        contents = hostile_contents(b)
        contents = [c for c in contents if len(c) < 80] + [filler(230, b)]
        for c in contents:
            ks = sorted(set([0, 1, 2, len(c) - 1, len(c), len(c) + 1, 95, 96, 97]) - {-1})
            ops = [('skip',), ('read_all',), ('data',), ('data2',), ('text',), ('iter',), ('pipe',), ('exhaust',),
                   ('read', -1), ('read', None)]
            ops += [('read', k) for k in ks] + [('read_rest', k) for k in ks] + [('loop', k) for k in ks if k > 0]
            ops += [('until', dl, rest) for dl in (b'\n', b'\r\n', b'-', d[:-1], b'\r\n--', b'zz') for rest in (False, True)]
            ops += [('until_n', dl, k) for dl in (b'\n', b'--', b'zz') for k in ks]
            ops += [('mix', k, dl) for dl in (b'\n', b'zz') for k in ks]
            for op in ops:
                for ics in (None, 96):
                    idx += 1
                    if idx % rec.nshards != rec.shard:
                        continue
                    k = idx // rec.nshards
                    if rec.tier == 'quick' and (k + (ics is None)) % 2:
                        continue          # quick: each (content, op) at one of the two buffer sizes, alternating
                    tr = (None, 1, 7, 97)[k % 4]
                    first = Part('first', c, ctype='text/plain; charset=latin-1')
                    do_case(rec, make_case(b, [first, tail], [op, ('read_all',)], transport=tr, ics=ics, tag='B'))
    rec.count('phase.B.done')


def phase_meta(rec):
    """M: names x filenames x RFC 5987 x content types (all 4-tuples), styles rotating."""
    idx = 0
    for name in NAMES:
        for fn in FILENAMES:
            for ext in EXTS:
                for ct in CTYPES:
                    idx += 1
                    if idx % rec.nshards != rec.shard:
                        continue
                    st = STYLES[(idx // rec.nshards) % len(STYLES)]
                    if st.get('token') and fn == '':
                        st = {}
                    p = Part(name, b'v\xe9', filename=fn, ext=ext, ctype=ct, style=st)
                    q = Part('other', b'{"a": 1}', ctype='application/json')
                    op = (('data',), ('text',), ('read_all',))[(idx // rec.nshards) % 3]
                    do_case(rec, make_case(b'ab', [p, q], [op, ('media',)], tag='M'))
    # quoted-pair encoder style: '"' and '\' inside name only / filename only / both, followed by further parameters
    combos = [(q, fn) for q in QVALS for fn in (None, 'hd.txt', 'a;b=c.txt')]
    combos += [(nm, q) for nm in ('a', 'f;x=1') for q in QVALS]
    combos += [(q, r) for q in QVALS for r in QVALS]
    plain_styles = [x for x in STYLES if not x.get('token')]
    for name, fn in combos:
        for ext in (None, EXTS[1]):
            idx += 1
            if idx % rec.nshards != rec.shard:
                continue
            st = plain_styles[(idx // rec.nshards) % len(plain_styles)]
            p = Part(name, b'v', filename=fn, ext=ext, ctype=(None, 'image/png')[idx % 2], style=st)
            do_case(rec, make_case(b'ab', [p, Part('other', b'w', filename='t"1".bin')], [('data',), ('read_all',)], tag='MQ'))
            rec.count('cls.quoted_pair')
    # RFC 5987 extended values: attr-chars literal / all escaped / lower-case hex / every byte escaped
    for text in EXT_TEXTS:
        for enc in ('attr', 'all', 'lower', 'full'):
            for plain in (None, 'fallback.txt'):
                idx += 1
                if idx % rec.nshards != rec.shard:
                    continue
                k = idx // rec.nshards
                charset = ('UTF-8', 'utf-8', 'ISO-8859-1')[k % 3]
                try:
                    text.encode(charset)
                except UnicodeEncodeError:
                    charset = 'UTF-8'
                st = {'ext_enc': enc, 'ext_first': bool(k % 2), 'sep': ('; ', ';')[(k // 2) % 2], 'token': bool((k // 4) % 2)}
                p = Part('up', b'v', filename=plain, ext=(charset, ('', 'en', 'de-CH')[(k // 3) % 3], text), style=st)
                do_case(rec, make_case(b'ab', [p, Part('other', b'w')], [('data',), ('read_all',)], tag='MX'))
                rec.count('cls.ext_value.' + enc)
    # filename* ext-values given literally: octets invalid in the declared charset, truncated sequences, unknown charsets
    # (with and without escapes) - and decodable controls
    for raw in EXT_RAWS:
        for fb in (None, 'fb.txt'):
            for pos in (0, 1):
                idx += 1
                if idx % rec.nshards != rec.shard:
                    continue
                k = idx // rec.nshards
                p = Part('up', b'v', filename=fb, style={'ext_raw': raw, 'ext_first': bool(k % 2), 'sep': ('; ', ';')[(k // 2) % 2]})
                parts = [p, Part('other', b'w')] if pos == 0 else [Part('first', b'u', filename='ok.txt'), p]
                do_case(rec, make_case(b'ab', parts, [('data',), ('read_all',)], tag='MB'))
                rec.count('cls.ext_raw.' + M.model_ext(raw)[0])
    # Content-Transfer-Encoding: identity encodings in every spelling, on the first / middle / last part
    for cte in CTE_VALUES:
        for pos in (0, 1, 2):
            for first in (False, True):
                for op in (('data',), ('read_all',), ('skip',)):
                    idx += 1
                    if idx % rec.nshards != rec.shard:
                        continue
                    k = idx // rec.nshards
                    parts = [Part('p%d' % j, b'seven bit text %d\r\n--' % j, ctype=(None, 'application/octet-stream')[j % 2])
                             for j in range(3)]
                    parts[pos].style = {'cte': cte, 'cte_first': first, 'case': ('title', 'lower', 'upper')[k % 3]}
                    do_case(rec, make_case(b'ab', parts, [op] * 3, ics=(None, 96)[k % 2], transport=(None, 1, 7)[(k // 2) % 3],
                                           tag='MC'))
                    rec.count('cls.cte.' + ('binary' if cte == 'binary' else 'other'))
    # get_media parts
    for i, (ct, content, _m) in enumerate(MEDIA_PARTS):
        if i % rec.nshards != rec.shard:
            continue
        for ics in (None, 96):
            for tr in (None, 1, 5):
                for op in (('media',), ('media2',)):
                    p = Part('doc', content, ctype=ct)
                    do_case(rec, make_case(B35, [p, Part('t', b'x'), Part('doc2', content, ctype=ct)],
                                           [op, ('text',), ('media2',)], transport=tr, ics=ics, tag='M'))
    rec.count('phase.M.done')


def phase_limits(rec):
    idx = 0
    # ---- part count
    for n in range(0, 5):
        for limit in sorted(set([0, 1, n - 1, n, n + 1]) - {-1}):
            for ics in (None, 96):
                for op in (('skip',), ('read', 1), ('data',)):
                    idx += 1
                    if idx % rec.nshards != rec.shard:
                        continue
                    parts = [Part('p%d' % j, filler(3 + 40 * j, b'B', j)) for j in range(n)]
                    do_case(rec, make_case(b'B', parts, [op] * n, limits={'count': limit}, ics=ics,
                                           transport=(None, 3)[idx % 2], tag='L-count'))
                    rec.count('limit.count.%s' % ('unlimited' if limit == 0 else 'pass' if n <= limit else 'fail'))
    # ---- buffered part size
    sizes_small = [0, 1, 2, 10, 79, 80, 81, 95, 96, 97, 191, 192, 193]
    sizes_big = [8191, 8192, 8193, 32767, 32768, 32769] if rec.tier == 'quick' else \
        [8191, 8192, 8193, 16384, 32767, 32768, 32769, 65536, 65537]
    for s, ics_set in [(s, (None, 96, 80)) for s in sizes_small] + [(s, (None,)) for s in sizes_big]:
        for limit in sorted(set([s - 1, s, s + 1]) - {-1}):
            for ics in ics_set:
                for op in (('data',), ('text',), ('data_catch',), ('data2',)):
                    for pos in (0, 1):
                        idx += 1
                        if idx % rec.nshards != rec.shard:
                            continue
                        big = Part('big', filler(s, B35, s), ctype='text/plain; charset=latin-1')
                        other = Part('o', b'\r\n--other')
                        parts = [big, other] if pos == 0 else [other, big]
                        plan = [op, ('read_all',)] if pos == 0 else [('read', 2), op]
                        tr = (None, 7, 1000)[(idx // rec.nshards) % 3] if s < 1000 else (None, 4096, 1000)[(idx // rec.nshards) % 3]
                        do_case(rec, make_case(B35, parts, plan, limits={'buffer': limit}, ics=ics, transport=tr,
                                               tag='L-buffer'))
                        rec.count('limit.buffer.%s' % ('pass' if s <= limit else 'fail'))
    # ---- header block size: sweep the size over more than one buffer period so the terminator meets every edge
    base = len(M.header_block(Part('', b'')))
    p1 = Part('second', b'y', filename='f', ctype='image/png')
    h1 = len(M.header_block(p1))
    sweeps = [(96, range(70, 70 + 97))] if rec.tier == 'quick' else [(96, range(60, 300)), (80, range(60, 250)), (None, range(60, 160))]
    for ics, hs in sweeps:
        for hsize in hs:
            for order in (0, 1):
                for limit in (hsize - 1, hsize, hsize + 1):
                    idx += 1
                    if idx % rec.nshards != rec.shard:
                        continue
                    p0 = Part('n' * (hsize - base), b'x\r\n-')
                    parts = [p0, p1] if order == 0 else [p1, p0]
                    for tr in (1 if ics else 8192, (5, None, 13)[(idx // rec.nshards) % 3]):
                        do_case(rec, make_case(b'ab', parts, [('read_all',), ('skip',)], limits={'headers': limit}, ics=ics,
                                               transport=tr, tag='L-headers'))
                        rec.count('limit.headers.%s' % ('pass' if max(hsize, h1) <= limit else 'fail'))
    for limit in (h1 - 1, h1, h1 + 1):
        idx += 1
        if idx % rec.nshards != rec.shard:
            continue
        do_case(rec, make_case(b'ab', [Part('a', b'1'), p1, Part('c', b'3')], [('data',)] * 3, limits={'headers': limit},
                               tag='L-headers'))
        rec.count('limit.headers.%s' % ('pass' if h1 <= limit else 'fail'))
    # default header limit (8192) at its own threshold, default buffers
    for j, hsize in enumerate((8191, 8192, 8193)):
        if j % rec.nshards != rec.shard:
            continue
        p0 = Part('n' * (hsize - base), b'x')
        do_case(rec, make_case(b'ab', [Part('a', b'1'), p0], [('skip',), ('data',)], transport=(None, 1000)[j % 2],
                               tag='L-headers-default'))
        rec.count('limit.headers.%s' % ('pass' if hsize <= 8192 else 'fail'))
    # the documented defaults at their own thresholds (64 parts, 1 MiB buffered part)
    jobs = [('count', n) for n in (63, 64, 65)] + [('buffer', n) for n in (2 ** 20 - 1, 2 ** 20, 2 ** 20 + 1)]
    for j, (what, n) in enumerate(jobs):
        if (j + 1) % rec.nshards != rec.shard:
            continue
        if what == 'count':
            parts = [Part('p%d' % i, b'%d\r\n--' % i) for i in range(n)]
            do_case(rec, make_case(b'B', parts, [('data',), ('skip',), ('read', 1)] * (n // 3 + 1), transport=(None, 1000)[j % 2],
                                   tag='L-count-default'))
            rec.count('limit.count.%s' % ('pass' if n <= 64 else 'fail'))
        else:
            big = Part('big', filler(n, b'ab', j), ctype='application/octet-stream')
            do_case(rec, make_case(b'ab', [Part('a', b'1'), big, Part('z', b'26')], [('data',)] * 3,
                                   transport=(None, 65536)[j % 2], tag='L-buffer-default'))
            rec.count('limit.buffer.%s' % ('pass' if n <= 2 ** 20 else 'fail'))
    rec.count('phase.L.done')


def phase_align(rec):
    """D: sweep every structural element across internal buffer edges.

    small buffers: a preamble of every length 0..ics shifts the whole form over the edge grid;
    default buffers: a first part padded so that the 2nd delimiter / header terminator straddles
    offset 32768 (WSGI) resp. the first coalesced ASGI chunk edge (>= 8192).
    """
    idx = 0
    for ics in (96, 80) if rec.tier == 'quick' else SMALL_ICS:
        for b in (b'B', B70) if rec.tier == 'quick' else (b'B', B35, B70, b'-'):
            for pad in range(0, ics + 1):
                for op in (('skip',), ('read', 5), ('data',), ('until', b'\r\n', False), ('until_n', b'\n-', 40)):
                    idx += 1
                    if idx % rec.nshards != rec.shard:
                        continue
                    pre = b'' if pad < 2 else b'p' * (pad - 2) + b'\r\n'
                    parts = [Part('a', filler(150, b, pad)), Part('b', b'\r\n--', filename='x'), Part('c', b'')]
                    tr = (None, 1, ics, ics - 1, ics + 1, 13)[(idx // rec.nshards) % 6]
                    do_case(rec, make_case(b, parts, [op, ('read_all',), ('data',)], preamble=pre, ics=ics, transport=tr,
                                           final_crlf=bool(pad % 2), tag='D-small'))
                    rec.count('align.small')
    # default-size buffers
    bsets = (b'B', B70)
    for b in bsets:
        d = b'\r\n--' + b
        p0h = Part('a', b'')
        head = len(b'--' + b + b'\r\n') + len(M.header_block(p0h)) + 4        # offset where part 0 content starts
        p1 = Part('b', b'second\r\n--', filename='x', ctype='text/plain')
        span = len(d) + 2 + len(M.header_block(p1)) + 4
        step = 1 if rec.tier == 'thorough' else 1
        for ev, edge in ((None, 32768), (8192, 8192), (1000, 9000), (8193, 8193), (4096, 8192), (None, 65536)):
            for off in range(-3, span + 3, step):
                for op in (('skip',), ('read_all',), ('read', 100), ('data',)):
                    idx += 1
                    if idx % rec.nshards != rec.shard:
                        continue
                    if rec.tier == 'quick' and (idx // rec.nshards) % 3:
                        continue
                    n0 = edge - off - head               # delimiter #1 starts at body offset edge - off
                    if n0 < 0:
                        continue
                    parts = [Part('a', filler(n0, b, off)), p1, Part('c', filler(300, b))]
                    stacks = ('wsgi',) if edge in (32768, 65536) and ev is None else ('asgi',)
                    if edge == 32768 and (idx // rec.nshards) % 2:
                        stacks = ('wsgi', 'asgi')
                    do_case(rec, make_case(b, parts, [op, ('read_all',), ('loop', 64)], transport=ev, stacks=stacks,
                                           asgi_cl=bool(off % 2), tag='D-default'))
                    rec.count('align.default.' + stacks[0])
    rec.count('phase.D.done')


ALIGN_CORRUPT_OPS = [('read_all',), ('data',), ('read', 100000), ('pipe',), ('skip',), ('read', 2), ('read_rest', 1), ('loop', 50)]


def phase_align_corrupt(rec):
    """F: single-edit corruptions x every buffer alignment (phase E runs each edit at one alignment only).

    The edits are taken at the structural joints of the form: first byte of every content (the base contents are
    'x--' boundary ..., so deleting the 'x' leaves a content line that BEGINS with the dash-boundary / the close
    delimiter - a body no RFC 2046 encoder may write), last header byte, every byte of the blank line, first and last
    byte of every delimiter line.  Weak oracle + WSGI/ASGI agreement, at every preamble pad 0..buffer size.
    """
    idx = 0
    for ics in (96,) if rec.tier == 'quick' else (96, 80):
        for b in (b'B', B70) if rec.tier == 'quick' else (b'B', b'ab', B70, b'-'):
            parts = [Part('a', b'x--' + b + b'\r\nX-Fake: 1\r\n\r\nboo'), Part('b', b'y--' + b + b'--\r\n', filename='f'),
                     Part('c', filler(2 * ics + 7, b))]
            if not all(M.content_legal(p.content, b) for p in parts):
                continue
            _body, lay = M.encode_form(parts, b)
            joints = []
            for kind, i, s0, e0 in lay.spans:
                if kind == 'content' and i < 2:
                    joints += [('del', s0), ('sub', s0, 0x2d)]
                elif kind == 'headers' and i < 2:
                    joints += [('del', e0 - 1)]
                elif kind == 'blank' and i < 2:
                    joints += [('del', s0), ('sub', s0 + 1, 0x41), ('del', s0 + 3)]
                elif kind == 'delimiter' and i in (1, 2):
                    joints += [('del', s0), ('sub', e0 - 1, 0x0d)]
            if rec.tier == 'quick':
                joints = [j for j in joints if j[0] == 'del']
            for pad in range(0, ics + 1):
                pre = b'' if pad < 2 else b'p' * (pad - 2) + b'\r\n'
                for e in joints:
                    idx += 1
                    if idx % rec.nshards != rec.shard:
                        continue
                    k = idx // rec.nshards
                    ops = ALIGN_CORRUPT_OPS if rec.tier == 'thorough' else [ALIGN_CORRUPT_OPS[k % 4]]
                    for j, op in enumerate(ops):
                        e2 = (e[0], e[1] + len(pre)) + tuple(e[2:])
                        do_case(rec, make_case(b, parts, [op] * 3, preamble=pre, edit=e2, ics=ics,
                                               transport=(None, 1, ics, 7)[(k + j) % 4], tag='F'))
                        rec.count('align.corrupt')
    rec.count('phase.F.done')


# charset labels a part's Content-Type (or parse_options.default_charset) may carry: aliases, case, legacy and multi-byte
# codecs, stateful / escape codecs, codecs that are not text encodings, the always-failing 'undefined' codec, unknown and
# empty labels, and a label with an embedded NUL (what bytes.decode() does with each is the model's business)
CHARSET_LABELS = ['utf-8', 'UTF-8', 'utf8', 'Utf_8', 'latin-1', 'iso-8859-1', 'ISO-8859-15', 'ascii', 'us-ascii', 'cp1252',
                  'windows-1252', 'utf-16', 'utf-16le', 'utf-16-be', 'utf-32', 'utf-7', 'utf-8-sig', 'big5', 'shift_jis',
                  'euc-jp', 'gb2312', 'gb18030', 'koi8-r', 'cp037', 'cp437', 'mac-roman', 'idna', 'punycode',
                  'unicode_escape', 'raw_unicode_escape', 'undefined', 'hex', 'base64', 'rot13', 'rot_13', 'zlib', 'bz2', 'uu',
                  'quopri', 'mbcs', 'oem', 'x-unknown', 'utf-9', '', ' ', 'utf-8\x00', '\x00', 'a' * 300, 'utf-8 ', '*', '8859']
TEXT_CONTENTS = [b'', b'plain ascii', b'caf\xc3\xa9 \xe2\x82\xac', b'caf\xe9', b'\xff\xfeh\x00i\x00', b'a\x00b', b'\\x41\\u20ac\\',
                 b'xn--caf-dma', b'\x80\x81\xfe\xff', b'+AGEAYg-', b'\xef\xbb\xbfbom', b'\r\n--\r\n']


def phase_text(rec):
    """T: get_text() over charset labels x contents, label given as parameter / quoted parameter / configured default."""
    idx = 0
    for label in CHARSET_LABELS:
        for content in TEXT_CONTENTS:
            for how in ('param', 'quoted', 'default', 'default+plain'):
                idx += 1
                if idx % rec.nshards != rec.shard:
                    continue
                limits = None
                if how == 'param':
                    ct = 'text/plain; charset=' + label
                elif how == 'quoted':
                    if '"' in label or '\\' in label:
                        continue
                    ct = 'text/plain;CHARSET="%s"' % label
                else:
                    ct = None if how == 'default' else 'text/plain'
                    limits = {'charset': label}
                if ct is not None and ct != ct.strip():
                    continue      # a trailing blank of an unquoted value is not part of the value
                p = Part('t', content, ctype=ct)
                k = idx // rec.nshards
                parts = [p, Part('after', b'\r\n--z')] if k % 2 else [Part('before', b'q'), p, Part('after', b'z')]
                plan = [('text',), ('read_all',)] if k % 2 else [('read', 1), ('text',), ('text',)]
                do_case(rec, make_case(b'ab', parts, plan, limits=limits, ics=(None, 96)[(k // 2) % 2],
                                       transport=(None, 1, 7)[(k // 4) % 3], tag='T'))
                w = M.model_text(content, ct, label if limits else 'utf-8')
                rec.count('text.' + w[0])
    rec.count('phase.T.done')


def phase_mixed_transport(rec):
    """G: transports of MIXED event sizes: at least one internal buffer worth of data, then one or two events shorter than
    the searched delimiter (optionally with empty events around them), then a large event - with every delimiter line and
    every header terminator of the form laid over the three pieces in every possible way (tail t >= 1 bytes in the first
    piece, the whole short piece(s), head >= 1 bytes in the last).  Uniform chunkings never produce this shape."""
    idx = 0
    configs = [(96, b'B'), (96, B70), (None, b'B')] if rec.tier == 'quick' else \
        [(96, b'B'), (96, b'ab'), (96, B70), (80, B35), (None, b'B'), (None, B70)]
    for ics, b in configs:
        size = ics or 8192
        d = b'\r\n--' + b
        parts = [Part('a', filler(size + 20, b)), Part('b', b'mid\r\n-', filename='m.bin', ctype='image/png'),
                 Part('c', filler(size + 9, b, 3))]
        epi = b'e' * (2 * size + 5)
        body, lay = M.encode_form(parts, b, b'', epi, True)
        targets = []          # (offset of the searched byte string in the body, its length)
        for kind, i, s0, e0 in lay.spans:
            if kind == 'delimiter' and i > 0:
                targets.append((s0, len(d)))
            elif kind == 'close':
                targets.append((s0, len(d)))
            elif kind == 'blank':
                targets.append((s0, 4))
        for pos, n in targets:
            if pos < size:
                continue
            shorts = range(1, n - 1) if n <= 8 else [1, 2, 3, 5, n // 2, n - 3, n - 2]
            if rec.tier == 'quick' and n > 8:
                shorts = [1, 2, n // 2, n - 2]
            for sh in shorts:
                tails = range(1, n - sh)
                if n > 8 and (rec.tier == 'quick' or ics is None):
                    tails = sorted(set([1, 2, (n - sh) // 2, n - sh - 1]) - {0})
                for t in tails:
                    if t < 1 or t + sh >= n:
                        continue
                    first = pos + t
                    variants = [[first, sh], [first, 0, sh, 0]]
                    if sh >= 2:
                        variants.append([first, 1, sh - 1])
                    variants.append([size, first - size, sh] if first - size > 0 else [first, sh, 0])
                    for v, tr in enumerate(variants):
                        idx += 1
                        if idx % rec.nshards != rec.shard:
                            continue
                        k = idx // rec.nshards
                        op = (('read_all',), ('data',), ('skip',), ('read', 5), ('loop', 64))[k % 5]
                        do_case(rec, make_case(b, parts, [op, ('read_all',), ('data',)], epilogue=epi, ics=ics,
                                               transport=tr + [10 ** 7], asgi_cl=bool(k % 2),
                                               stacks=('asgi',) if ics is None else ('wsgi', 'asgi'), tag='G'))
                        rec.count('transport.mixed')
    rec.count('phase.G.done')


EDIT_BYTES = [0x0d, 0x0a, 0x2d, 0x22, 0xff, 0x41, 0x3b, 0x20, 0x00, 0x3a]


def corruption_bases(rec):
    bases = [
        (b'B', [Part('a', b'x\r\n--'), Part('f', b'\r\n-', filename='hd.txt', ctype='text/plain')], b'', b'', True),
        (b'ab', [Part('näme', b'caf\xc3\xa9\r\n', ext=('UTF-8', '', 'ü.txt'))],
         b'pre\r\n', b'epilogue --ab', True),
        (b'bnd=1', [Part('p', b''), Part('q', b'--bnd=', ctype='application/octet-stream'), Part('r', b'\r')], b'', b'', False),
    ]
    if rec.tier == 'thorough':
        bases += [
            (b'-', [Part('a', b'-\r\n--'), Part('b', b'--')], b'', b'', True),
            (B35, [Part('a', filler(120, B35)), Part('b', b'1')], b'x\r\n', b'', True),
            (b'Z', [], b'', b'', True),
        ]
    return bases


CORRUPT_PLANS = [('read_all',), ('skip',), ('data',), ('read', 2), ('loop', 3), ('until', b'\n', False),
                 ('mix', 2, b'\n'), ('read_rest', 1), ('until_n', b'-', 3), ('text',)]


def phase_corrupt(rec):
    idx = 0
    for bi, (b, parts, pre, epi, fcrlf) in enumerate(corruption_bases(rec)):
        body, _lay = M.encode_form(parts, b, pre, epi, fcrlf)
        bytes_set = (EDIT_BYTES[:5] if rec.tier == 'quick' else EDIT_BYTES) + [b[0]]
        for pos in range(len(body) + 1):
            edits = [('ins', pos, x) for x in bytes_set]
            if pos < len(body):
                edits.append(('trunc', pos))
                edits += [('del', pos)] + [('sub', pos, x) for x in bytes_set if x != body[pos]]
            for e in edits:
                idx += 1
                if idx % rec.nshards != rec.shard:
                    continue
                k = idx // rec.nshards
                if rec.tier == 'quick' and e[0] == 'ins' and k % 2:
                    continue
                ops = CORRUPT_PLANS if rec.tier == 'thorough' else [CORRUPT_PLANS[k % len(CORRUPT_PLANS)]]
                for j, op in enumerate(ops):
                    ics = (None, 96)[((k + j) // 6) % 2] if rec.tier == 'thorough' or bi == 0 else None
                    tr = (None, 1, 5)[((k + j) // 12) % 3]
                    do_case(rec, make_case(b, parts, [op] * len(parts), pre, epi, fcrlf, edit=e, ics=ics, transport=tr,
                                           tag='E'))
    rec.count('phase.E.done')


def phase_boundary_param(rec):
    """Boundary parameter of illegal length (0 / 71): weak oracle - a 400 or a correct parse, nothing else."""
    if rec.shard != 0:
        return
    for b in (b'', b'x' * 71, b'y' * 200):
        parts = [Part('a', b'1')]
        body, _ = M.encode_form(parts, b or b'', b'', b'', True)
        ctype = 'multipart/form-data; boundary=' + (b.decode() if b else '""')
        for stack in ('wsgi', 'asgi'):
            o = execute(stack, body, ctype, [('read_all',)])
            rec.count('mon.boundary_param')
            rec.case(None)
            ok = (o.status == 400 and o.escaped is None and isinstance(o.exc, falcon.HTTPError)) or \
                 (o.status == 200 and o.completed and [r['meta'][0] for r in o.records] == ['a'] and
                  o.records[0]['outs'] == [b'1'])
            if not ok or o.hang:
                report(rec, 'illegal-boundary-length-odd-outcome', {'boundary_len': len(b), 'stack': stack,
                                                                   'observed': o.summary()})


# ---- random

def rand_boundary(rng):
    r = rng.random()
    if r < 0.25:
        return rng.choice(BOUNDARIES)
    n = rng.choice([1, 1, 2, 3, 8, 20, 35, 69, 70, rng.randint(1, 70)])
    s = ''.join(rng.choice(M.BCHARS if rng.random() < 0.5 else 'ab-') for _ in range(n))
    if s.endswith(' '):
        s = s[:-1] + 'x'
    if rng.random() < 0.9:
        s = s.replace(',', '.')      # a comma makes falcon answer 415 (classified finding); keep it rare
    return s.encode('ascii')


def rand_content(rng, b):
    d = b'\r\n--' + b
    r = rng.random()
    if r < 0.15:
        return rng.choice(hostile_contents(b))
    if r < 0.25:
        n = rng.choice([95, 96, 97, 191, 192, 193, 8191, 8192, 8193, 32767, 32768, 32769, rng.randint(0, 70000)])
        return filler(n, b, rng.randint(0, 25))
    frags = [b'\r', b'\n', b'-', b'--', b'\r\n', b'\r\n-', b'\r\n--', d[:-1], d[:rng.randint(0, len(d) - 1)], b'x',
             b'--' + b[:-1], b[:rng.randint(0, len(b))], bytes([rng.randrange(256)]), b'abc', b'\x00']
    for _ in range(20):
        c = b''.join(rng.choice(frags) for _ in range(rng.randint(0, rng.choice([4, 12, 40]))))
        if M.content_legal(c, b):
            return c
    return b'fallback'


def _rand_ext(rng):
    if rng.random() < 0.5:
        return rng.choice(EXTS)
    return (rng.choice(['UTF-8', 'utf-8']), rng.choice(['', 'en', 'pt-BR']), rng.choice(EXT_TEXTS))


def rand_part(rng, b, j):
    if rng.random() < 0.12:
        ct, content, _m = rng.choice(MEDIA_PARTS)
        if M.content_legal(content, b):
            return Part('m%d' % j, content, ctype=ct, style=rng.choice(STYLES))
    st = dict(rng.choice(STYLES), ext_enc=rng.choice(["attr", "attr", "all", "lower", "full"]))
    fn = rng.choice(FILENAMES)
    if st.get('token') and fn == '':
        fn = None
    name = rng.choice(NAMES)
    if rng.random() < 0.25:
        name = rng.choice(QVALS)
    if rng.random() < 0.2 and not st.get('token'):
        fn = rng.choice(QVALS)
    if rng.random() < 0.05:
        name = ''.join(rng.choice('a"\\;,= ') for _ in range(rng.randint(1, 8))).rstrip('\\') or '"'
    ct = rng.choice(CTYPES)
    if rng.random() < 0.1:
        label = rng.choice(CHARSET_LABELS)
        if label == label.strip():
            ct = 'text/plain; charset=' + label
    content = rand_content(rng, b)
    if rng.random() < 0.1 and M.content_legal(rng.choice(TEXT_CONTENTS), b):
        content = rng.choice([c for c in TEXT_CONTENTS if M.content_legal(c, b)])
    return Part(name, content, filename=fn,
                ext=_rand_ext(rng) if rng.random() < 0.3 else None, ctype=ct, style=st)


def rand_op(rng, p, b):
    r = rng.random()
    n = len(p.content)
    k = rng.choice([0, 1, 2, 3, 7, max(n - 1, 0), n, n + 1, 95, 96, 97, rng.randint(0, n + 2)])
    if r < 0.12:
        return ('skip',)
    if r < 0.24:
        return ('read', k)
    if r < 0.34:
        return ('read_rest', k)
    if r < 0.44:
        return ('read_all',)
    if r < 0.52:
        return ('loop', max(1, k) if n < 5000 else max(64, k))
    if r < 0.62:
        d = b'\r\n--' + b
        dl = rng.choice([b'\n', b'\r\n', b'-', b'--', d[:-1], d[:rng.randint(1, len(d) - 1)], b'x'])
        if rng.random() < 0.4:
            return ('until_n', dl, k)
        if rng.random() < 0.3:
            return ('mix', k, dl)
        return ('until', dl, rng.random() < 0.5)
    if r < 0.72:
        return (rng.choice(['data', 'data2', 'data_catch']),)
    if r < 0.80:
        return ('text',)
    if r < 0.88:
        return (rng.choice(['media', 'media2']),)
    if r < 0.94:
        return ('iter',)
    return (rng.choice(['pipe', 'exhaust']),)


def rand_case(rec, rng):
    b = rand_boundary(rng)
    n = rng.choice([0, 1, 1, 2, 2, 3, 4, 5, 6])
    parts = [rand_part(rng, b, j) for j in range(n)]
    total = sum(len(p.content) for p in parts)
    plan = [rand_op(rng, p, b) for p in parts]
    pre = b''
    if rng.random() < 0.3:
        pre = b''.join(rng.choice([b'pre', b'--', b'-' + b[:-1], b'\r\n', b' ', b'x' * rng.randint(0, 90)])
                       for _ in range(rng.randint(0, 4))) + b'\r\n'
        if (b'--' + b) in pre:
            pre = b'preamble\r\n'
    epi = b''
    if rng.random() < 0.3:
        epi = rng.choice([b'epilogue', b'\r\n--' + b + b'\r\nContent-Disposition: form-data; name="ghost"\r\n\r\nboo\r\n--' +
                          b + b'--\r\n', b'--', b'\r\n', b'--' + b + b'--'])
    fcrlf = bool(epi) or rng.random() < 0.7
    if total > 20000:
        tr = rng.choice([None, 1000, 4096, 8192, 8191, 8193, 32768, 777,
                         [rng.choice([1, 2, 3, 70, 4096, 8192, 8193, 9000, 20000]) for _ in range(rng.randint(2, 30))] + [10 ** 7]])
        ics = None
    else:
        tr = rng.choice([None, None, 1, 2, 3, 7, 64, 96, 97, 1000, [rng.randint(0, 9) for _ in range(rng.randint(1, 30))] + [10 ** 6],
                         [rng.choice([0, 1, 2, 3, 5, 40, 80, 96, 97, 128, 200, 257, 300]) for _ in range(rng.randint(2, 40))] + [10 ** 6],
                         [rng.choice([1, 2, 3, 96, 130, 260]) for _ in range(rng.randint(2, 40))] + [10 ** 6]])
        ics = rng.choice([None, None, 80, 96, 128, 257])
    limits = None
    r = rng.random()
    if r < 0.12:
        limits = {'count': max(0, n + rng.choice([-1, 0, 1]))}
    elif r < 0.24 and parts:
        p = rng.choice(parts)
        limits = {'buffer': max(0, len(p.content) + rng.choice([-1, 0, 1]))}
    elif r < 0.36 and parts:
        p = rng.choice(parts)
        limits = {'headers': max(0, len(M.header_block(p)) + rng.choice([-1, 0, 1]))}
    elif r < 0.42:
        limits = {'charset': rng.choice(CHARSET_LABELS)}
    return make_case(b, parts, plan, pre, epi, fcrlf, quoted=rng.choice([None, None, True]), transport=tr, ics=ics,
                     limits=limits, asgi_cl=rng.random() < 0.7, tag='R')


def rand_corrupt_case(rec, rng):
    b = rand_boundary(rng)
    n = rng.choice([0, 1, 2, 2, 3])
    parts = []
    for j in range(n):
        c = rand_content(rng, b)
        if len(c) > 400:
            c = filler(rng.randint(0, 300), b)
        st = rng.choice(STYLES)
        parts.append(Part(rng.choice(NAMES[:6]), c, filename=rng.choice([None, 'f.txt']),
                          ext=rng.choice(EXTS[:4]) if rng.random() < 0.2 else None, ctype=rng.choice(CTYPES), style=st))
    pre = rng.choice([b'', b'', b'pre\r\n'])
    epi = rng.choice([b'', b'', b'epi'])
    fcrlf = bool(epi) or rng.random() < 0.7
    body, _ = M.encode_form(parts, b, pre, epi, fcrlf)
    pos = rng.randrange(len(body) + 1)
    kind = rng.choice(['sub', 'del', 'ins', 'trunc']) if pos < len(body) else 'ins'
    x = rng.choice(EDIT_BYTES + [b[0], b[-1], rng.randrange(256)])
    if kind == 'sub' and x == body[pos]:
        x ^= 1
    e = (kind, pos) if kind in ('del', 'trunc') else (kind, pos, x)
    op = rng.choice(CORRUPT_PLANS)
    return make_case(b, parts, [op] * n, pre, epi, fcrlf, edit=e, ics=rng.choice([None, 80, 96]),
                     transport=rng.choice([None, 1, 3, 50]), tag='RE')


# ---------------------------------------------------------------------------------------------

def run(rec):
    rec.rule = ('a case = one encoded form (boundary, parts, preamble/epilogue/final CRLF) x consumption plan x transport '
                'chunking x internal buffer size x limits x optional single-byte edit, sent through falcon.App and '
                'falcon.asgi.App; non-trivial = at least two parts, or chunked transport, or a non-default buffer size, '
                'or limits near the form\'s sizes, or an edit, or a part content containing CRLF "--"; distinct by the '
                'whole case')
    rec.assumptions = [
        'reference encoder vlib/models/c13_multipart.py is a correct reading of RFC 7578 / RFC 2046 5.1 / RFC 5987',
        'part names/filenames containing \'"\' or a backslash are written as quoted-strings with quoted-pair escapes (the RFC '
        'quoted-string reading that falcon\'s parse_header implements); a percent-encoded quote (browser style) is not an escape '
        'and is expected back verbatim; no CR/LF; a value never ENDS in a backslash (recorded C11 finding '
        'quoted-value-trailing-backslash-swallows-params)',
        'encoded contents never contain CRLF "--" boundary (RFC 2046) and never start with "--" boundary',
        'header block size := bytes of the header lines joined by CRLF, excluding the terminating blank line',
        'small internal buffers are obtained by setting the documented module constants '
        'falcon.util.reader.DEFAULT_CHUNK_SIZE / falcon.asgi.reader.DEFAULT_CHUNK_SIZE (80..257) for the duration of a request; '
        'default-size runs are part of every phase',
        'WSGI requests always carry Content-Length (PEP 3333 servers de-chunk); ASGI with and without it',
        'hangs are decided logically: loop back-edges inside falcon reader/multipart code are counted (sys.monitoring) '
        'and ASGI receive() past the script is "blocked"',
    ]
    if not guard().ok:
        rec.note('sys.monitoring hang guard unavailable; hangs would surface as shard watchdog (inconclusive)')
    counter = [0]
    times = []
    for name, fn in (('P', phase_boundary_param), ('M', phase_meta), ('B', phase_consumption), ('L', phase_limits),
                     ('T', phase_text), ('D', phase_align), ('G', phase_mixed_transport), ('F', phase_align_corrupt), ('E', phase_corrupt), ('A', lambda r: phase_forms(r, counter))):
        t0, e0 = rec.elapsed(), rec.evaluations
        fn(rec)
        times.append('%s %.1fs/%d' % (name, rec.elapsed() - t0, rec.evaluations - e0))
    if rec.tier == 'thorough':
        rec.exhaustive = True
        if rec.shard == 0:
            rec.note('enumerated completely (bounded spaces): M = names x filenames x filename* x content types; '
                     'B = hostile first-part contents x every consumption op x sizes 0..len+1 and around the buffer size; '
                     'L = limits at size-1/size/size+1 with the header block swept over more than one buffer period; '
                     'D = every preamble pad 0..buffer size (small buffers) and every offset of delimiter+header block '
                     'across offset 32768 / the first coalesced ASGI chunk edge (default buffers); '
                     'E = every position x {sub, del, ins, trunc} x edit bytes x 9 consumption plans on 6 base forms; '
                     'A = all forms with 0..3 parts over 19 hostile contents x 7 boundaries (plans/transports rotate)')
    rec.note('shard %d: exhaustive phases took %.1fs (%s)' % (rec.shard, rec.elapsed(), ', '.join(times)))
    rng = rec.rng
    n = 0
    min_rounds = 3 if rec.tier == 'quick' else 30
    while n < 20 * min_rounds or rec.budget_ok(0.9):
        for _ in range(20):
            c = rand_case(rec, rng)
            do_case(rec, c)
            rec.count('random.valid')
            if n < 3:
                rec.sample({'boundary': c['boundary'], 'n_parts': len(c['parts']), 'plan': [list(o) for o in c['plan']],
                            'transport': c['transport'], 'ics': c['ics'], 'limits': c['limits'],
                            'content_sizes': [len(p.content) for p in c['parts']]})
            do_case(rec, rand_corrupt_case(rec, rng))
            rec.count('random.corrupt')
            n += 1
    floors(rec)


def floors(rec):
    q = rec.tier == 'quick'
    for name, n in [
        ('mon.valid.wsgi', 3000), ('mon.valid.asgi', 3000), ('mon.part_meta', 5000), ('mon.xstack', 3000),
        ('mon.corrupt.strong', 500), ('mon.corrupt.weak', 1000), ('corrupt.weak.400', 200), ('corrupt.weak.200', 20),
        ('mon.limit.pass', 300), ('mon.limit.fail.count', 20), ('mon.limit.fail.buffer', 100), ('mon.limit.fail.headers', 50),
        ('limit.count.pass', 10), ('limit.count.fail', 10), ('limit.buffer.pass', 50), ('limit.buffer.fail', 50),
        ('limit.headers.pass', 20), ('limit.headers.fail', 20),
        ('align.small', 200), ('align.default.wsgi', 50), ('align.default.asgi', 50),
        ('cls.boundary_len.1', 100), ('cls.boundary_len.70', 100), ('cls.preamble', 100), ('cls.epilogue', 100),
        ('cls.no_final_crlf', 100), ('cls.parts.0', 8), ('cls.empty_content', 50), ('cls.content_delim_prefix', 500),
        ('cls.transport.1byte', 200), ('cls.transport.chunked', 500), ('cls.ics.small', 1000), ('cls.ics.default', 1000),
        ('cls.body_spans_buffers.wsgi', 500), ('cls.body_spans_buffers.asgi', 200), ('cls.ext_filename', 100), ('cls.quoted_pair', 100), ('cls.ext_raw.bad', 40), ('cls.ext_raw.ok', 15), ('cls.cte.binary', 15), ('cls.cte.other', 100), ('mon.cte.weak', 200), ('cls.ext_value.attr', 40), ('cls.ext_value.all', 40), ('cls.ext_value.lower', 40), ('cls.ext_value.full', 40),
        ('cls.edit.sub', 300), ('cls.edit.del', 50), ('cls.edit.ins', 300), ('cls.edit.trunc', 50),
        ('mon.op.read', 200), ('mon.op.read_rest', 100), ('mon.op.read_all', 500), ('mon.op.loop', 100),
        ('mon.op.until', 100), ('mon.op.until_n', 50), ('mon.op.mix', 50), ('mon.op.data', 300), ('mon.op.text', 50), ('mon.op.media', 20), ('mon.op.media2', 20), ('mon.op.iter', 20),
        ('mon.op.skip', 200), ('mon.op.data_catch', 20), ('mon.op.pipe', 10),
        ('random.valid', 40 if q else 400), ('random.corrupt', 40 if q else 400), ('mon.boundary_param', 6),
        ('phase.A.done', rec.nshards), ('phase.B.done', rec.nshards), ('phase.M.done', rec.nshards),
        ('phase.L.done', rec.nshards), ('phase.D.done', rec.nshards), ('phase.G.done', rec.nshards), ('transport.mixed', 200), ('phase.T.done', rec.nshards), ('text.ok', 200), ('text.fail', 200), ('cls.limit.charset', 100), ('phase.F.done', rec.nshards), ('align.corrupt', 300), ('phase.E.done', rec.nshards),
    ]:
        rec.floor(name, n)


def replay(rec, w):
    guard()
    wit = w['witness']
    if 'case' not in wit:
        print('witness has no case; nothing to replay:', json.dumps(wit)[:300])
        return
    case = case_from_json(wit['case'])
    obs = run_case(rec, case)
    rec.case(repr(wit['case']))
    rec.case(repr(wit['case']) + '#replay')
    for stack, o in zip(case['stacks'], obs):
        print(stack, json.dumps(__import__('vlib.verdict', fromlist=['jsonable']).jsonable(o.summary()))[:2000])
