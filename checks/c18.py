"""C18 - WebSocket receive buffering: FIFO, bounded, lossless under every schedule.  DESIGN.md section 4, C18.

The real falcon.asgi.App / WebSocket / _BufferedReceiver run on a real asyncio loop that the
harness steps one iteration at a time.  The only nondeterminism - when the next client event becomes
available at the server (D), when the application issues its next operation (A), and how many
loop iterations pass in between (T) - is chosen by the controller, enumerated exhaustively for small
bounds (with replay from scratch per prefix and state-signature pruning) and randomly beyond.

Monitors: FIFO/no-loss/no-dup of received payloads, bound on events held by the framework
(deque <= capacity at every step; pulled-from-server minus handed-to-app <= capacity+1, no pull outstanding
at that point), disconnect ordering for receivers, disconnect promptness for senders, no lost wake-up
at quiescence, nothing left running after close, no unexpected exception from any operation.
"""

import asyncio
import collections
import itertools
import logging

import falcon
import falcon.asgi
from falcon import errors

from vlib.sched import aio

logging.raiseExceptions = False      # a log record that cannot be rendered is the logging module's business, not noise for us

LEVEL = 'exploration'
SHARDS = {'quick': 4, 'thorough': 16}
BUDGET = {'quick': 18, 'thorough': 170}

STEP_KINDS = ('recv', 'recv2', 'send', 'send!', 'recv!', 'close', 'rstart', 'rcancel', 'rawait', 'raiseh!', 'raisex!')
K_FAILED_SEND = 'recv-after-failed-send-skips-buffered-messages'


class Server:
    """Fake ASGI server side with asyncio.Queue-like receive(): an event is dequeued only when
    receive() actually returns it; a cancelled getter consumes nothing."""

    def __init__(self, loop, events):
        self.loop = loop
        self.future_events = collections.deque(events)   # not yet arrived from the network
        self.inbox = collections.deque()                 # arrived, not yet pulled by the framework
        self.getters = collections.deque()
        self.pulled = []                                 # events handed to the framework
        self.sent = []
        self.disconnect_pulled = False
        self.pull_log = []                               # (pulled_count_at_issue)
        self.raises_when_gone = False
        self.failed_sends = []

    def deliver(self):
        ev = self.future_events.popleft()
        self.inbox.append(ev)
        while self.getters:
            g = self.getters.popleft()
            if not g.done():
                g.set_result(None)
                break

    async def receive(self):
        while not self.inbox:
            g = self.loop.create_future()
            self.getters.append(g)
            try:
                await g
            except BaseException:
                g.cancel()
                try:
                    self.getters.remove(g)
                except ValueError:
                    pass
                # wake the next getter if an event arrived meanwhile (as asyncio.Queue does)
                if self.inbox:
                    while self.getters:
                        h = self.getters.popleft()
                        if not h.done():
                            h.set_result(None)
                            break
                raise
        ev = self.inbox.popleft()
        self.pulled.append(ev)
        if ev['type'] == 'websocket.disconnect':
            self.disconnect_pulled = True
        return dict(ev)

    async def send(self, ev):
        # swallow mode (Daphne-like): a send after the client went away is swallowed, never an error;
        # raising mode (uvicorn-like, spec 2.4): it raises OSError once the disconnect has arrived
        gone = self.disconnect_pulled or any(e['type'] == 'websocket.disconnect' for e in self.inbox)
        if self.raises_when_gone and gone and ev.get('type') == 'websocket.send':    # (failing close events: C17)
            self.failed_sends.append(ev)
            raise OSError('client is gone')
        self.sent.append(ev)

    def pending_getters(self):
        return sum(1 for g in self.getters if not g.done())


class PlainTextHandlerWS(falcon.media.TextBaseHandlerWS):
    """Media = the text itself (so that an empty text message is a valid document)."""

    def serialize(self, media):
        return media

    def deserialize(self, payload):
        return payload


class UnprintableHTTPError(falcon.HTTPError):
    def __init__(self):
        super().__init__(418)

    def __str__(self):
        raise AttributeError('this error cannot be rendered')

    __repr__ = __str__


class UnprintableError(Exception):
    def __str__(self):
        raise AttributeError('this error cannot be rendered')

    __repr__ = __str__


class Run:
    """One execution of (config, script) under a prefix of controller actions."""

    def __init__(self, st, cap, k, with_disc, script):
        self.st = st
        self.cap, self.k, self.with_disc, self.script = cap, k, with_disc, script
        # message j is received with method (cap + j) % 3: receive_text / receive_media (text) / receive_data, so its
        # payload is text, text, bytes accordingly; every fourth message is EMPTY (a legal message)
        self.msgs = []
        for i in range(k):
            p = '' if i % 4 == 1 else 'm%d' % i
            self.msgs.append(p.encode() if (cap + i) % 3 == 2 else p)
        evs = [{'type': 'websocket.connect'}]
        for i, m in enumerate(self.msgs):
            ev = {'type': 'websocket.receive', ('bytes' if isinstance(m, bytes) else 'text'): m}
            if i % 2:
                ev['text' if isinstance(m, bytes) else 'bytes'] = None      # the spec allows the other key as None
            evs.append(ev)
        if with_disc:
            evs.append({'type': 'websocket.disconnect', 'code': 1001})
        self.server = Server(st.loop, evs)
        self.server.raises_when_gone = (cap + k + len(script)) % 2 == 1      # both server behaviours, by configuration
        self.server.deliver()                      # the connect event is there from the start
        self.R = []                                # payloads handed to the application, in order
        self.outcomes = []                         # per step
        self.step_idx = -1
        self.gate = None
        self.in_op = None                          # kind of the op the script is currently inside
        self.rtask = None
        self.ws = None
        self.problems = []
        self.finished = False
        self.send_checks = 0
        self.quiescent_checks = 0
        self.send_methods = set()
        self.recv_methods = set()
        self.left_by_exception = False
        self.app = falcon.asgi.App()
        self.app.ws_options.max_receive_queue = cap
        self.app.ws_options.media_handlers[falcon.WebSocketPayloadType.TEXT] = PlainTextHandlerWS()
        run = self

        class Res:
            async def on_websocket(self, req, ws):
                run.ws = ws
                await run._script(ws)

        self.app.add_route('/ws', Res())
        scope = {'type': 'websocket', 'asgi': {'version': '3.0', 'spec_version': '2.3'}, 'http_version': '1.1',
                 'scheme': 'ws', 'path': '/ws', 'raw_path': b'/ws', 'query_string': b'', 'root_path': '',
                 'headers': [(b'host', b'example.org')], 'client': ('127.0.0.1', 5000), 'server': ('example.org', 80),
                 'subprotocols': []}
        asyncio.set_event_loop(st.loop)
        self.task = st.loop.create_task(self.app(scope, self.server.receive, self.server.send))

    # ---- the application script (runs inside the real responder)
    async def _wait_gate(self):
        self.gate = self.st.loop.create_future()
        try:
            await self.gate
        finally:
            self.gate = None

    async def _send(self, ws, i):
        # every public send method reaches the same disconnect check; which one a step uses rotates with the
        # configuration so that all of them meet every script shape
        which = (self.cap + self.k + i) % 3      # (BINARY media needs msgpack, which is not installed here)
        if which == 0:
            await ws.send_text('s%d' % i)
        elif which == 1:
            await ws.send_data(b's%d' % i)
        else:
            await ws.send_media('s%d' % i)
        self.send_methods.add(which)

    async def _recv_into_R(self, ws):
        which = (self.cap + len(self.R)) % 3
        if which == 0:
            v = await ws.receive_text()
        elif which == 1:
            v = await ws.receive_media()
        else:
            v = await ws.receive_data()
        self.recv_methods.add(which)
        self.R.append(v)
        return v

    async def _script(self, ws):
        steps = ('accept',) + tuple(self.script)
        for i, kind in enumerate(steps):
            await self._wait_gate()
            self.step_idx = i
            self.in_op = kind
            disc_pulled_at_start = self.server.disconnect_pulled
            handed = len(self.R)
            out = None
            propagate = None
            try:
                if kind == 'accept':
                    await ws.accept()
                    out = ('ok',)
                elif kind == 'recv':
                    v = await self._recv_into_R(ws)
                    out = ('value', v)
                elif kind == 'recv2':
                    # two receives back to back: no event-loop iteration in between when both are served
                    # from the queue (queued receives do not suspend)
                    v1 = await self._recv_into_R(ws)
                    handed = len(self.R)
                    v2 = await self._recv_into_R(ws)
                    out = ('value', v1, v2)
                elif kind == 'send':
                    await self._send(ws, i)
                    out = ('ok',)
                elif kind in ('send!', 'recv!'):
                    # the responder does not catch: WebSocketDisconnected ends it by exception (the framework's
                    # error path, not its normal-return path, then has to clean up)
                    try:
                        if kind == 'send!':
                            await self._send(ws, i)
                            out = ('ok',)
                        else:
                            v = await self._recv_into_R(ws)
                            out = ('value', v)
                    except errors.WebSocketDisconnected as ex:
                        propagate = ex
                        out = ('disconnected',)
                    kind = kind[:-1]
                elif kind in ('raiseh!', 'raisex!'):
                    # the responder fails with an exception object that cannot be rendered (its __str__ raises):
                    # an HTTP error (-> close 3000+status) or anything else (-> close with the error code); either
                    # way the connection has to be closed and the background reader stopped
                    propagate = UnprintableHTTPError() if kind == 'raiseh!' else UnprintableError()
                    out = ('raised',)
                    kind = kind[:-1]
                elif kind == 'close':
                    await ws.close()
                    out = ('ok',)
                elif kind == 'rstart':
                    self.rtask = self.st.loop.create_task(self._recv_into_R(ws))
                    # the harness always looks at the result itself; keep asyncio's
                    # 'exception was never retrieved' report out of the loop-error monitor
                    self.rtask.add_done_callback(lambda t: t.cancelled() or t.exception())
                    out = ('started',)
                elif kind == 'rcancel':
                    t, self.rtask = self.rtask, None
                    t.cancel()
                    try:
                        v = await t
                        out = ('value', v)
                    except asyncio.CancelledError:
                        out = ('cancelled',)
                elif kind == 'rawait':
                    t, self.rtask = self.rtask, None
                    v = await t
                    out = ('value', v)
            except errors.WebSocketDisconnected:
                out = ('disconnected',)
            except asyncio.CancelledError:
                raise
            except Exception as ex:  # noqa
                out = ('exc', type(ex).__name__ + ': ' + str(ex)[:120])
            self.outcomes.append((kind, out, disc_pulled_at_start, handed))
            self.in_op = None
            if propagate is not None:
                if self.rtask is not None:      # a receive the application itself started is the application's to end
                    t, self.rtask = self.rtask, None
                    t.cancel()
                    try:
                        await t
                    except (asyncio.CancelledError, errors.WebSocketDisconnected):
                        pass
                self.finished = True
                self.left_by_exception = True
                raise propagate
        if self.rtask is not None:          # never leave a started receive dangling
            t, self.rtask = self.rtask, None
            t.cancel()
            try:
                await t
            except (asyncio.CancelledError, errors.WebSocketDisconnected):
                pass
        self.finished = True

    # ---- controller side
    def enabled(self):
        acts = []
        d = bool(self.server.future_events)
        a = self.gate is not None and not self.gate.done()
        if d:
            acts.append('D')
        if a:
            acts.append('A')
        if d and a:
            acts += ['DA', 'AD']
        if self.st.loop._ready:
            acts.append('T')
        return acts

    def apply(self, act):
        for ch in act:
            if ch == 'D':
                self.server.deliver()
            elif ch == 'A':
                self.gate.set_result(None)
        self.st.step()
        self.invariants()

    def receiver(self):
        return None if self.ws is None else self.ws._buffered_receiver

    def invariants(self):
        """Checked after every loop iteration."""
        if self.ws is None:
            return
        br = self.receiver()
        held = len([e for e in self.server.pulled if e['type'] == 'websocket.receive']) - len(self.R)
        if self.server.disconnect_pulled:
            held_all = held + 1
        else:
            held_all = held
        if self.cap > 0:
            if len(br._messages) > self.cap:
                self.problems.append(('queue-over-capacity', {'deque': len(br._messages), 'cap': self.cap}))
            if held_all > self.cap + 1:
                self.problems.append(('held-over-bound', {'held': held_all, 'cap': self.cap}))
            if held_all >= self.cap + 1 and self.server.pending_getters() and not self._app_receiving_direct():
                self.problems.append(('pull-while-full', {'held': held_all, 'cap': self.cap}))
            # bounded progress: at a quiescent point (nothing runnable) the background reader must not sit idle while
            # an event has arrived at the server and the queue has room again (that is also how a sender learns of
            # a disconnect "promptly")
            if not self.st.loop._ready and self.server.inbox and br._pump_task is not None and not br._pump_task.done() \
                    and len(br._messages) < self.cap and not self.finished:
                self.problems.append(('reader-idle-although-room', {'deque': len(br._messages), 'cap': self.cap,
                                                                      'arrived_not_pulled': len(self.server.inbox)}))
            if not self.st.loop._ready:
                self.quiescent_checks += 1
        else:
            if held_all > 1:
                self.problems.append(('held-over-bound-unbuffered', {'held': held_all}))

    def _app_receiving_direct(self):
        return False

    def signature(self):
        br = self.receiver()
        ready = []
        for h in self.st.loop._ready:
            cb = h._callback
            owner = getattr(cb, '__self__', None)
            if isinstance(owner, asyncio.Task):
                co = owner.get_coro()
                ready.append('task:' + getattr(co, '__qualname__', str(co)))
            else:
                ready.append(getattr(cb, '__qualname__', repr(cb))[:40])
        return (
            len(self.server.future_events), len(self.server.inbox), self.server.pending_getters(),
            len(self.server.pulled), len(self.server.sent),
            None if br is None else (len(br._messages), br._pop_message_waiter is not None,
                                     br._put_message_waiter is not None, br.client_disconnected,
                                     None if br._pump_task is None else br._pump_task.done()),
            None if self.ws is None else int(self.ws._state.value) if hasattr(self.ws._state, 'value') else str(self.ws._state),
            self.step_idx, self.gate is not None, self.in_op, self.rtask is not None and self.rtask.done(),
            tuple(o[1] for o in self.outcomes), tuple(self.R), self.finished, self.task.done(), tuple(ready),
        )

    def state_class(self):
        br = self.receiver()
        if br is None:
            return None
        return (len(br._messages), br._pop_message_waiter is not None, br._put_message_waiter is not None,
                br.client_disconnected, None if br._pump_task is None else br._pump_task.done())

    def quiesce(self, limit=200):
        n = 0
        while self.st.loop._ready and n < limit:
            self.st.step()
            self.invariants()
            n += 1
        return n < limit

    def finish(self, rec):
        """Terminal: judge the run, then tear down and check that nothing is left running."""
        probs = list(self.problems)
        if not self.quiesce():
            probs.append(('no-quiescence', {}))
        # -- lost wake-up: the application waits in a receive although something is available
        br = self.receiver()
        waiting_recv = self.in_op in ('recv', 'recv2', 'recv!', 'rawait') or (self.rtask is not None and not self.rtask.done())
        if waiting_recv and br is not None:
            avail = len(br._messages) > 0 or len(self.server.inbox) > 0
            if avail:
                probs.append(('receive-left-waiting', {'deque': len(br._messages), 'inbox': len(self.server.inbox),
                                                       'in_op': self.in_op}))
            rec.count('mon.lost_wakeup')
        rec.count('mon.reader_progress_at_quiescence', self.quiescent_checks)
        if self.server.raises_when_gone:
            rec.count('cls.server_raises_when_client_gone')
            data_failures = [e for e in self.server.failed_sends if e.get('type') == 'websocket.send']
            if len(data_failures) > 1:
                probs.append(('send-reached-lost-connection-again', {'failed_data_sends': len(data_failures)}))
        else:
            rec.count('cls.server_swallows_when_client_gone')
        for w in self.send_methods:
            rec.count('cls.send_method_%d' % w)
        for w in self.recv_methods:
            rec.count('cls.recv_method_%d' % w)
        # -- FIFO / no loss / no duplication
        rec.count('mon.fifo')
        if self.R != self.msgs[:len(self.R)]:
            probs.append(('fifo-violated', {'received': self.R, 'sent': self.msgs}))
        # -- per-operation outcomes
        closed_by_app = False
        send_failed = False
        for kind, out, disc_pulled, handed in self.outcomes:
            rec.count('mon.op.' + kind)
            if out[0] == 'exc':
                probs.append(('unexpected-exception', {'op': kind, 'exc': out[1]}))
            if kind in ('recv', 'recv2', 'rawait', 'rcancel') and out[0] == 'disconnected':
                rec.count('mon.disconnect_to_receiver')
                if not closed_by_app:
                    # everything that preceded the disconnect must have been handed over first
                    if handed < self.k or not self.with_disc:
                        known = K_FAILED_SEND if (send_failed and self.with_disc) else None
                        probs.append(('disconnect-before-preceding-messages',
                                      {'handed_to_app': handed, 'messages': self.k, 'with_disconnect': self.with_disc,
                                       'after_failed_send': send_failed}, known))
            if kind == 'send':
                if out[0] == 'disconnected':
                    send_failed = True
                    rec.count('cls.send_saw_disconnect')
                    if not closed_by_app and not self.with_disc:
                        probs.append(('sender-told-disconnected-without-disconnect', {}))
                elif out[0] == 'ok':
                    if disc_pulled and self.cap > 0 and not closed_by_app:
                        probs.append(('sender-not-told-after-disconnect-pulled', {}))
                if disc_pulled and self.cap > 0:
                    rec.count('mon.sender_promptness')
            if kind == 'close' and out[0] == 'ok':
                closed_by_app = True
        # -- teardown: let the app end naturally (a server would deliver a disconnect), then look for leftovers
        if not self.task.done():
            if not self.server.disconnect_pulled and not any(e['type'] == 'websocket.disconnect'
                                                             for e in list(self.server.inbox) + list(self.server.future_events)):
                self.server.future_events.append({'type': 'websocket.disconnect', 'code': 1000})
            guard = 0
            while not self.task.done() and guard < 400:
                if self.server.future_events:
                    self.server.deliver()
                if self.gate is not None and not self.gate.done():
                    self.gate.set_result(None)
                self.st.step()
                guard += 1
            if not self.task.done():
                probs.append(('app-never-finished', {'in_op': self.in_op, 'step': self.step_idx}))
                self.task.cancel()
                for _ in range(20):
                    self.st.step()
        else:
            self.quiesce()
        if self.task.done() and not self.task.cancelled() and self.task.exception() is not None:
            probs.append(('app-raised', {'exc': repr(self.task.exception())}))
        for _ in range(5):
            self.st.step()
        left = [t for t in asyncio.all_tasks(self.st.loop) if not t.done()]
        rec.count('mon.leftover_tasks')
        if left:
            probs.append(('task-left-running-after-close',
                          {'tasks': [getattr(t.get_coro(), '__qualname__', '?') for t in left]}))
            for t in left:
                t.cancel()
            for _ in range(10):
                self.st.step()
        if self.server.pending_getters():
            probs.append(('server-pull-left-pending-after-close', {'n': self.server.pending_getters()}))
        if self.st.loop_errors:
            probs.append(('loop-error', {'errors': self.st.loop_errors[:3]}))
            del self.st.loop_errors[:]
        return probs

    def abandon(self):
        """Discard a partially executed run (prefix replay) without judging it."""
        if not self.task.done():
            self.task.cancel()
        if self.rtask is not None and not self.rtask.done():
            self.rtask.cancel()
        for _ in range(30):
            self.st.step()
            if not [t for t in asyncio.all_tasks(self.st.loop) if not t.done()]:
                break
        for t in asyncio.all_tasks(self.st.loop):
            if not t.done():
                t.cancel()
        for _ in range(10):
            self.st.step()
        del self.st.loop_errors[:]


def valid_script(script):
    pending = False
    if 'close' in script[:-1]:
        return False        # the session is over at close(); what misuse after close raises is C17's subject
    if any(k.endswith('!') for k in script[:-1]):
        return False        # an uncaught-exception step is generated as the last step only
    for s in script:
        if s in ('rcancel', 'rawait'):
            if not pending:
                return False
            pending = False
        elif s in ('recv', 'recv2', 'recv!', 'rstart'):
            if pending:
                return False
            if s == 'rstart':
                pending = True
    return True


def execute(st, cfg, actions):
    cap, k, disc, script = cfg
    run = Run(st, cap, k, disc, script)
    for a in actions:
        run.apply(a)
    return run


def report(rec, cfg, actions, probs):
    cap, k, disc, script = cfg
    for p in probs:
        kind, detail = p[0], p[1]
        known = p[2] if len(p) > 2 else None
        rec.violation(kind, {'capacity': cap, 'messages': k, 'disconnect': disc, 'script': list(script),
                             'schedule': list(actions), 'detail': detail}, known_key=known)


def explore(rec, st, cfg, max_nodes):
    """DFS over controller choices with replay-from-scratch and state-signature pruning."""
    seen = set()
    stack = [()]
    nodes = 0
    terminals = 0
    while stack and nodes < max_nodes:
        prefix = stack.pop()
        run = execute(st, cfg, prefix)
        nodes += 1
        sig = run.signature()
        sc = run.state_class()
        if sc is not None:
            rec.seen('receiver_states', sc)
            if sc[0] >= cfg[0] > 0:
                rec.count('cls.queue_full')
            if sc[1]:
                rec.count('cls.receiver_waiting')
            if sc[2]:
                rec.count('cls.pump_waiting_for_room')
            if sc[3] and sc[0] >= cfg[0] > 0:
                rec.count('cls.disconnect_while_full')
        if sig in seen:
            rec.count('explore.pruned')
            run.abandon()
            continue
        seen.add(sig)
        acts = run.enabled()
        if run.problems:
            report(rec, cfg, prefix, run.finish(rec))
            rec.case((cfg, prefix))
            terminals += 1
            continue
        if not acts:
            probs = run.finish(rec)
            terminals += 1
            rec.seen('schedules', (cfg, prefix))
            rec.case((cfg, prefix))
            if any(o[0] == 'rcancel' for o in run.outcomes):
                rec.count('cls.cancel_pending_receive')
            if run.left_by_exception:
                rec.count('cls.responder_left_by_exception')
            if probs:
                report(rec, cfg, prefix, probs)
            continue
        run.abandon()
        for a in reversed(acts):
            stack.append(prefix + (a,))
    rec.count('explore.nodes', nodes)
    rec.count('explore.terminals', terminals)
    if stack:
        rec.count('explore.truncated')
    return terminals


def random_walk(rec, st, cfg, rng=None):
    rng = rng or rec.rng
    run = Run(st, *cfg)
    actions = []
    for _ in range(400 + 8 * len(cfg[3]) + 8 * cfg[1]):
        acts = run.enabled()
        if not acts or run.problems:
            break
        a = rng.choice(acts)
        actions.append(a)
        run.apply(a)
        sc = run.state_class()
        if sc is not None:
            rec.seen('receiver_states', sc)
    probs = run.finish(rec)
    rec.seen('schedules', (cfg, tuple(actions)))
    rec.case((cfg, tuple(actions)))
    rec.count('random.walks')
    if probs:
        report(rec, cfg, actions, probs)


def policy_walk(rec, st, cfg, prefs):
    """One schedule chosen by a fixed preference order over the enabled controller actions."""
    run = Run(st, *cfg)
    actions = []
    for _ in range(600 + 8 * len(cfg[3]) + 8 * cfg[1]):
        acts = run.enabled()
        if not acts or run.problems:
            break
        a = next((p for p in prefs if p in acts), acts[0])
        actions.append(a)
        run.apply(a)
    probs = run.finish(rec)
    rec.seen('schedules', (cfg, tuple(actions)))
    rec.case((cfg, tuple(actions)))
    rec.count('policy.walks')
    if probs:
        report(rec, cfg, actions, probs)


def configs(quick):
    caps = (0, 1, 2) if quick else (0, 1, 2, 3, 4)
    kmax = 2 if quick else 3
    mmax = 2 if quick else 3
    out = []
    for m in range(0, mmax + 1):
        for script in itertools.product(STEP_KINDS, repeat=m):
            if not valid_script(script):
                continue
            for k in range(0, (kmax + 2 if m <= 1 else kmax) + 1):
                for disc in (False, True):
                    for cap in caps:
                        if cap > k + 1:
                            continue        # a larger queue behaves like capacity k+1 for k messages
                        out.append((cap, k, disc, script))
    return out


def run(rec):
    rec.rule = ('configurations (capacity, #messages, disconnect?, application script over recv/send/close/'
                'start-receive/cancel-receive/await-receive) x controller schedules over D (next client event arrives), '
                'A (application issues its next operation), DA/AD (both in one loop iteration, either order), T (one idle '
                'iteration); exhaustive DFS with replay and state-signature pruning for small bounds, random walks beyond. '
                'non-trivial = every completed schedule; distinct by (configuration, action word)')
    rec.assumptions = ['boundary bound is capacity+1: the pump holds one pulled event in hand while the queue is full (DESIGN C18)',
                       'two server behaviours by configuration: sends after the client went away are swallowed (Daphne-like: only the pump flag can tell a sender) or raise OSError (uvicorn-like)',
                       'state-signature pruning treats runs with equal observable harness state as equivalent']
    quick = rec.tier == 'quick'
    st = aio.Stepper()
    cfgs = configs(quick)
    for i, cfg in enumerate(cfgs):
        if i % rec.nshards != rec.shard:
            continue
        explore(rec, st, cfg, max_nodes=4000 if quick else 20000)
        if i < 8:
            rec.sample({'capacity': cfg[0], 'messages': cfg[1], 'disconnect': cfg[2], 'script': list(cfg[3])})
    rec.exhaustive = rec.counters.get('explore.truncated', 0) == 0
    if rec.shard == 0:
        rec.note('exhaustive bounds: capacities %s, messages <= %d, script length <= %d; configurations: %d'
                 % ('0-2' if quick else '0-4', 2 if quick else 3, 2 if quick else 3, len(cfgs)))
    # ---- capacities beyond the exhaustive bound (the docs allow any size): guided schedules - deliveries first,
    #      application first, alternating - plus a few random walks each; more messages than the queue holds
    big = [(cap, cap + extra, disc, script)
           for cap in (5, 8, 9, 16, 17, 32)
           for extra in (0, 2)
           for disc in (True, False)
           for script in (('recv', 'send', 'send'), ('recv', 'recv', 'send', 'recv'), ('recv2', 'send', 'recv'),
                          ('send', 'recv', 'send', 'send'), ('rstart', 'rawait', 'send', 'send'), ('recv',) * 3 + ('send', 'close'))]
    # long sessions: hundreds of messages through a small queue (counters, waiter objects reused many times)
    for cap in (0, 1, 3):
        for n in ((150,) if quick else (150, 1200)):
            big.append((cap, n, True, ('recv',) * (n - 1) + ('send', 'recv', 'recv')))
            big.append((cap, n, False, ('recv2',) * (n // 2) + ('send', 'close')))
    wrng = __import__('random').Random(99 + rec.shard)
    for i, cfg in enumerate(big):
        if i % rec.nshards != rec.shard:
            continue
        for prefs in (('D', 'A', 'T'), ('A', 'D', 'T'), ('DA', 'T', 'A', 'D'), ('T', 'D', 'A')):
            policy_walk(rec, st, cfg, prefs)
        for _ in range(2 if quick else 10):
            random_walk(rec, st, cfg, wrng)
        rec.count('big.configs')
    rng = rec.rng
    t0 = rec.elapsed()
    rand_budget = max(rec.budget_s * 0.25, rec.time_left() * 0.9)
    while rec.elapsed() - t0 < rand_budget:
        for _ in range(10):
            m = rng.randint(1, 8 if quick else 12)
            script = []
            pending = False
            for _ in range(m):
                opts = ['send', 'send!', 'close'] if pending else ['recv', 'recv', 'recv2', 'recv2', 'recv!', 'send', 'send!', 'close', 'rstart']
                if pending:
                    opts += ['rcancel', 'rawait', 'rawait']
                if rng.random() < 0.7 and 'close' in opts:
                    opts.remove('close')
                s = rng.choice(opts)
                if s == 'close':
                    script.append(s)
                    break
                if s == 'rstart':
                    pending = True
                elif s in ('rcancel', 'rawait'):
                    pending = False
                script.append(s)
            cap = rng.choice([0, 1, 1, 2, 3, 4, 4, rng.randint(5, 20)])
            cfg = (cap, rng.randint(0, max(8 if quick else 12, cap + 3)), rng.random() < 0.6, tuple(script))
            random_walk(rec, st, cfg)
    st.close()
    rec.floor('mon.fifo', 200)
    rec.floor('mon.sender_promptness', 5)
    rec.floor('mon.disconnect_to_receiver', 5)
    rec.floor('mon.leftover_tasks', 200)
    rec.floor('cls.queue_full', 5)
    rec.floor('cls.receiver_waiting', 5)
    rec.floor('cls.pump_waiting_for_room', 5)
    rec.floor('cls.disconnect_while_full', 2)
    rec.floor('cls.cancel_pending_receive', 2)
    rec.floor('cls.responder_left_by_exception', 5)
    rec.floor('random.walks', 20)
    rec.floor('policy.walks', 40)
    rec.floor('cls.server_raises_when_client_gone', 50)
    rec.floor('cls.server_swallows_when_client_gone', 50)
    rec.floor('mon.reader_progress_at_quiescence', 200)
    for w in range(3):
        rec.floor('cls.send_method_%d' % w, 20)
        rec.floor('cls.recv_method_%d' % w, 20)


def replay(rec, w):
    wit = w['witness']
    st = aio.Stepper()
    cfg = (wit['capacity'], wit['messages'], wit['disconnect'], tuple(wit['script']))
    run = execute(st, cfg, wit['schedule'])
    probs = run.finish(rec)
    print('replay problems:', probs)
    report(rec, cfg, wit['schedule'], probs)
    rec.case(('replay', 1))
    rec.case(('replay', 2))
    st.close()
