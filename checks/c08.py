"""C08 - query strings parse to one well-defined mapping; typed getters never misreport.
DESIGN.md section 4, C08.

Monitors (every one evaluated next to the real code on every generated case):
  parse      falcon.uri.parse_query_string(s, keep_blank, csv) == reference reading (vlib/models/uri.py
             ref_parse_qs), never raises, result is a dict of str -> str | list[str]
  request    the same through real WSGI requests, ASGI HTTP requests and ASGI WebSocket handshake requests
             (vlib.drivers wsgi/asgi/ws; one app per interface, options toggled between requests): req.params,
             req.has_param, and a program of typed getter calls compared op by op with the reference
             conversion of the last occurrence (required/default/store/min/max/blank_as_true/transform),
             documented 400-class error or nothing; params unchanged by getters and not shared between
             requests; options read per request (toggled between requests on the same app objects).
             Response status, req.query_string and the output alphabet of to_query_str are recorded as
             observations only (obs.* counters): the statement does not speak about them.
  roundtrip  parse(to_query_str(d)) == normal form of d (vlib/models/c08_query.py rendered_canon)

Known-finding classifiers (narrow, by mechanism): see K_* below.
"""

import collections
import collections.abc
import itertools
import math
import types

import falcon
import falcon.asgi
from falcon import uri

from vlib.drivers import asgi as A
from vlib.drivers import ws as WS
from vlib.drivers import wsgi as W
from vlib.models import c08_query as M
from vlib.models import uri as MU

LEVEL = 'exploration'
SHARDS = {'quick': 4, 'thorough': 16}
BUDGET = {'quick': 16, 'thorough': 90}
MODES = {'quick': ['pure'], 'thorough': ['pure', 'asbuilt', 'asan']}

SYMS = ['&', '=', ',', '+', '%', '2', 'C', 'c', 'g', 'a', '\x00', 'é']
COMBOS = [(False, False), (False, True), (True, False), (True, True)]      # (keep_blank, csv)
POISON = '~poison~'
FLAVORS = ('wsgi', 'asgi', 'ws')
DIRECT = ('direct_wsgi', 'direct_asgi')
# request objects that must follow the documented DEFAULT option setting (keep_blank_qs_values=True,
# auto_parse_qs_csv=False, stock JSON handler) whatever was configured on OTHER objects before:
#   noopt_*  public constructors called without options; afterwards that request's own req.options is reconfigured
#   app2_*   a second App whose req_options nobody touches, while the first App is reconfigured all the time
DEFAULTED = ('noopt_wsgi', 'noopt_asgi', 'app2_wsgi', 'app2_asgi', 'app2_ws')

# Proposed known_findings.json keys (genuine defects met on the unchanged tree, see the final report).
K_EMPTY_LIST = 'csv-all-blank-value-empty-list-indexerror'
K_JSON_DEPTH = 'json-param-recursionerror-not-400'
K_ASGI_UTF8 = 'asgi-query-string-non-utf8-unicodedecodeerror'
K_TWIN_EQ = 'cy-twin-keeps-lone-equals-as-empty-name'
K_JSON_LEN = 'json-param-content-length-counts-characters'


# =============================================================== parse monitor

def mapping_problem(qs, kb, csv, got, want):
    """None when `got` is an allowed reading of qs, else a short label."""
    if not M.well_typed(got):
        return 'ill-typed'
    amb = M.all_blank_csv_names(qs, kb, csv)
    if not amb:
        return None if got == want else 'mismatch'
    g = {k: v for k, v in got.items() if k not in amb}
    w = {k: v for k, v in want.items() if k not in amb}
    if g != w:
        return 'mismatch'
    ga = M.canon({k: v for k, v in got.items() if k in amb})
    wa = M.canon({k: v for k, v in want.items() if k in amb})
    return None if ga == wa else 'mismatch'


def _twin_rebuild(qs, kb, csv):
    """Reference reading in which a field with an explicit '=' and empty name+value is kept."""
    params = {}
    for f in qs.split('&'):
        if f == '=':
            if '' in params:
                old = params['']
                if isinstance(old, list):
                    old.append('')
                else:
                    params[''] = [old, '']
            else:
                params[''] = ''
            continue
        one = MU.ref_parse_qs(f, kb, csv)
        for k, v in one.items():
            vs = v if isinstance(v, list) else [v]
            if k in params:
                old = params[k]
                if isinstance(old, list):
                    old.extend(vs)
                else:
                    params[k] = [old] + vs
            else:
                params[k] = v
    return params


def check_parse(rec, qs, classes=0):
    """All four option settings; branch classes are accounted for one of them (classes % 4)."""
    for ci, (kb, csv) in enumerate(COMBOS):
        try:
            got = uri.parse_query_string(qs, keep_blank=kb, csv=csv)
        except Exception as ex:  # noqa
            rec.violation('parse-raised', {'case': 'parse', 'qs': qs, 'kb': kb, 'csv': csv, 'exc': repr(ex)})
            continue
        want = MU.ref_parse_qs(qs, kb, csv)
        rec.count('mon.parse')
        prob = mapping_problem(qs, kb, csv, got, want)
        if prob:
            known = None
            if rec.mode != 'pure' and got == _twin_rebuild(qs, kb, csv) and kb and '=' in qs.split('&'):
                known = K_TWIN_EQ
            rec.violation('parse-' + prob, {'case': 'parse', 'qs': qs, 'kb': kb, 'csv': csv, 'got': got,
                                           'want': want, 'mode': rec.mode}, known_key=known)
        if ci == classes % 4:
            for c in M.classify(qs, kb, csv):
                rec.count('cls.' + c)


def check_parse_defaults(rec, qs):
    """Positional arguments and the documented defaults (keep_blank=False, csv=False)."""
    try:
        a = uri.parse_query_string(qs)
        b = uri.parse_query_string(qs, True)
        c = uri.parse_query_string(qs, False, True)
    except Exception as ex:  # noqa
        rec.violation('parse-raised', {'case': 'parse', 'qs': qs, 'kb': None, 'csv': None, 'exc': repr(ex)})
        return
    rec.count('mon.parse_defaults')
    for got, kb, csv in ((a, False, False), (b, True, False), (c, False, True)):
        want = MU.ref_parse_qs(qs, kb, csv)
        if mapping_problem(qs, kb, csv, got, want):
            known = None
            if rec.mode != 'pure' and kb and got == _twin_rebuild(qs, kb, csv) and '=' in qs.split('&'):
                known = K_TWIN_EQ
            rec.violation('parse-defaults-mismatch', {'case': 'parse', 'qs': qs, 'kb': kb, 'csv': csv,
                                                      'got': got, 'want': want, 'positional': True},
                          known_key=known)


def nontrivial(qs):
    return any(c in qs for c in '&=,+%') or not qs.isascii() or '\x00' in qs


# =============================================================== request monitor

def snapshot(params):
    if not isinstance(params, dict):
        return ('not-a-dict', repr(type(params)))
    return {k: (list(v) if isinstance(v, list) else v) for k, v in params.items()}


def call_getter(req, op, store):
    g, name = op['g'], op['name']
    kw = {}
    if op.get('required'):
        kw['required'] = True
    if 'default' in op:
        kw['default'] = op['default']
    if store is not None:
        kw['store'] = store
    if g == 'str':
        return req.get_param(name, **kw)
    if g in ('int', 'float'):
        if op.get('min') is not None:
            kw['min_value'] = op['min']
        if op.get('max') is not None:
            kw['max_value'] = op['max']
        return (req.get_param_as_int if g == 'int' else req.get_param_as_float)(name, **kw)
    if g == 'bool':
        if 'blank_as_true' in op:
            kw['blank_as_true'] = op['blank_as_true']
        return req.get_param_as_bool(name, **kw)
    if g == 'uuid':
        return req.get_param_as_uuid(name, **kw)
    if g in ('datetime', 'date'):
        if op.get('fmt'):
            kw['format_string'] = op['fmt']
        return (req.get_param_as_datetime if g == 'datetime' else req.get_param_as_date)(name, **kw)
    if g == 'json':
        return req.get_param_as_json(name, **kw)
    if g == 'list':
        tr = M.TRANSFORMS[op.get('transform')]
        if tr is not None:
            kw['transform'] = tr
        return req.get_param_as_list(name, **kw)
    raise AssertionError(g)


def run_program(req, probe):
    out = {'qs': req.query_string, 'params': snapshot(req.params), 'has': {}, 'ops': [], 'done': False}
    probe.out = out
    for n in probe.has_names:
        try:
            out['has'][n] = req.has_param(n)
        except Exception as ex:  # noqa
            out['has'][n] = 'raised ' + repr(ex)
    for op in probe.program:
        store = {} if op.get('store') else None
        try:
            val = call_getter(req, op, store)
            out['ops'].append(('ret', val, store))
        except falcon.HTTPBadRequest as ex:
            code = getattr(ex, 'status_code', None)
            out['ops'].append(('400', type(ex).__name__, code, store))
            if op.get('propagate'):
                out['params_after'] = snapshot(req.params)
                raise
        except (Exception, GeneratorExit) as ex:  # noqa
            out['ops'].append(('exc', type(ex).__name__, repr(ex)[:200], store))
    out['params_after'] = snapshot(req.params)
    out['done'] = True
    # a later request must not see anything of this one
    if isinstance(req.params, dict):
        req.params[POISON] = 'x'


class Probe:
    def __init__(self):
        self.program, self.has_names, self.out = [], [], None

    def on_get(self, req, resp):
        run_program(req, self)
        resp.media = {'ok': True}


class ProbeAsync(Probe):
    async def on_get(self, req, resp):
        run_program(req, self)
        resp.media = {'ok': True}

    async def on_websocket(self, req, ws):
        # the handshake request of a WebSocket connection is an ASGI request with a query string too
        run_program(req, self)
        await ws.accept()
        await ws.close()


class LengthHonouringJSONHandler(falcon.media.BaseHandler):
    """A custom JSON handler (sync interface, as the documentation requires also for ASGI apps) that reads
    exactly the announced number of bytes."""

    def deserialize(self, stream, content_type, content_length):
        data = stream.read() if content_length is None else stream.read(content_length)
        if not data:
            raise falcon.MediaNotFoundError('JSON')
        try:
            return M.tagged_loads(data.decode('utf-8'))
        except (ValueError, RecursionError) as ex:
            raise falcon.MediaMalformedError('JSON') from ex

    def serialize(self, media, content_type):
        import json
        return json.dumps(media).encode()


class SubclassedJSONHandler(falcon.media.JSONHandler):
    """A user subclass of the stock handler that overrides ONE documented method, deserialize()."""
    TAG = 'subclass-deserialize'

    def deserialize(self, stream, content_type, content_length):
        return {'via': self.TAG, 'value': super().deserialize(stream, content_type, content_length)}


class FalsyBoolJSONHandler(SubclassedJSONHandler):
    """... and whose truth value is False."""
    TAG = 'falsy-bool'

    def __bool__(self):
        return False


class EmptyContainerJSONHandler(LengthHonouringJSONHandler):
    """A handler that is also a (currently empty) container: len() == 0, so it is falsy."""

    def __len__(self):
        return 0

    def deserialize(self, stream, content_type, content_length):
        return {'via': 'falsy-len', 'value': super().deserialize(stream, content_type, content_length)['value']}


OLD_MEDIA_JSON = 'application/json; charset=UTF-8'      # the value of falcon.MEDIA_JSON before 3.0
_STRICT = falcon.media.JSONHandler(loads=M.strict_decimal_loads)
_HANDLER_SETS = {
    'stock': {falcon.MEDIA_JSON: falcon.media.JSONHandler()},
    'exact': {falcon.MEDIA_JSON: _STRICT},
    'charset_key': {OLD_MEDIA_JSON: _STRICT},           # an equivalent media type string, no exact key
    'custom_base': {falcon.MEDIA_JSON: LengthHonouringJSONHandler()},
    'subclass': {falcon.MEDIA_JSON: SubclassedJSONHandler()},
    'falsy_len': {falcon.MEDIA_JSON: EmptyContainerJSONHandler()},
    'falsy_bool_charset': {OLD_MEDIA_JSON: FalsyBoolJSONHandler()},
}
JCFGS = ('stock', 'exact', 'charset_key', 'custom_base', 'subclass', 'falsy_len', 'falsy_bool_charset')
JSON_LOADS = {'stock': None, 'exact': M.strict_decimal_loads, 'charset_key': M.strict_decimal_loads,
              'custom_base': M.tagged_loads, 'subclass': M.make_tagged_loads('subclass-deserialize'),
              'falsy_len': M.make_tagged_loads('falsy-len'), 'falsy_bool_charset': M.make_tagged_loads('falsy-bool')}


def configure_json(options, jcfg):
    """Reconfigure the JSON handler of a live RequestOptions.media_handlers object in place."""
    mh = options.media_handlers
    want = _HANDLER_SETS[jcfg]
    for key in (falcon.MEDIA_JSON, OLD_MEDIA_JSON):
        if key in mh and key not in want:
            del mh[key]
    for key, handler in want.items():
        if mh.get(key) is not handler:
            mh[key] = handler


class _NoResponse:
    status, body = None, b''


class Harness:
    def __init__(self):
        self.probe = {'wsgi': Probe(), 'asgi': ProbeAsync()}
        self.app = {'wsgi': falcon.App(), 'asgi': falcon.asgi.App()}
        for f in ('wsgi', 'asgi'):
            self.app[f].add_route('/q', self.probe[f])
        # 'ws': the same ASGI app and resource, reached through a WebSocket connection scope
        self.probe['ws'], self.app['ws'] = self.probe['asgi'], self.app['asgi']
        self.seq = 0
        self.last_jcfg = {'wsgi': 'stock', 'asgi': 'stock'}
        self.probe2 = {'wsgi': Probe(), 'asgi': ProbeAsync()}
        self.app2 = {'wsgi': falcon.App(), 'asgi': falcon.asgi.App()}
        for f in ('wsgi', 'asgi'):
            self.app2[f].add_route('/q', self.probe2[f])
        self.last_primary = {'wsgi': None, 'asgi': None}    # (kb, csv, jcfg) last configured on the first apps
        self.last_leak = {'noopt_wsgi': None, 'noopt_asgi': None}

    def run(self, flavor, query, kb, csv, program, has_names, drop_key=False, jcfg='stock', leak=None):
        if flavor.startswith('direct_'):
            return self.run_direct(flavor, query, kb, csv, program, has_names, jcfg)
        if flavor.startswith('noopt_'):
            return self.run_direct(flavor, query, kb, csv, program, has_names, jcfg, leak)
        if flavor.startswith('app2_'):
            flavor = flavor[5:]
            app, probe = self.app2['wsgi' if flavor == 'wsgi' else 'asgi'], self.probe2['wsgi' if flavor == 'wsgi' else 'asgi']
        else:
            app, probe = self.app[flavor], self.probe[flavor]
            configure_json(app.req_options, jcfg)
            self.last_jcfg[flavor if flavor == 'wsgi' else 'asgi'] = jcfg
            self.last_primary[flavor if flavor == 'wsgi' else 'asgi'] = (kb, csv, jcfg)
            app.req_options.keep_blank_qs_values = kb
            app.req_options.auto_parse_qs_csv = csv
        probe.program, probe.has_names, probe.out = program, has_names, None
        if flavor == 'wsgi':
            env = W.make_environ('GET', '/q', query)
            if drop_key:
                del env['QUERY_STRING']
            res = W.run_wsgi(app, env)
            failed = res.exc
        elif flavor == 'ws':
            sess = WS.WsSession([]).run(app, WS.make_ws_scope('/q', query))
            res = _NoResponse()
            failed = sess.exc if sess.outcome == 'raised' else (None if sess.outcome == 'done' else sess.outcome)
        else:
            res = A.run_asgi_http(app, A.make_scope('GET', '/q', query))
            failed = res.exc if res.outcome == 'raised' else (None if res.outcome == 'done' else res.outcome)
        return res, probe.out, failed


    def run_direct(self, flavor, query, kb, csv, program, has_names, jcfg='stock', leak=None):
        """Request objects built through the public constructors: with an explicit RequestOptions (direct_*) or
        without options (noopt_*: documented defaults; afterwards this request's own options are reconfigured
        to `leak`, which must not reach any later request)."""
        kwargs = {}
        if flavor.startswith('direct_'):
            opts = falcon.RequestOptions()
            configure_json(opts, jcfg)
            opts.keep_blank_qs_values = kb
            opts.auto_parse_qs_csv = csv
            kwargs['options'] = opts
        probe = self.probe['wsgi']
        probe.program, probe.has_names, probe.out = program, has_names, None
        failed = None
        req = None
        try:
            if flavor.endswith('wsgi'):
                req = falcon.Request(W.make_environ('GET', '/q', query), **kwargs)
            else:
                async def receive():
                    return {'type': 'http.disconnect'}
                req = falcon.asgi.Request(A.make_scope('GET', '/q', query), receive, **kwargs)
            run_program(req, probe)
        except falcon.HTTPBadRequest:
            pass                        # a propagating op: recorded by run_program
        except Exception as ex:  # noqa
            failed = ex
        if leak is not None and req is not None:
            # what an application may do with the public req.options attribute of ITS request
            req.options.keep_blank_qs_values, req.options.auto_parse_qs_csv = leak[0], leak[1]
            configure_json(req.options, leak[2])
            self.last_leak[flavor] = list(leak)
        return _NoResponse(), probe.out, failed


_H = []


def harness():
    if not _H:
        _H.append(Harness())
    return _H[0]


def op_problem(op, acc, obs):
    """None when the observed behaviour `obs` is one of the acceptable outcomes."""
    name = op['name']
    store = obs[-1]
    for o in acc:
        if o.kind == 'any':
            if obs[0] in ('ret', '400'):
                return None
        elif o.kind == 'raise400':
            if obs[0] == '400' and obs[2] == 400 and (store is None or store == {}):
                return None
        elif o.kind == 'propagate':
            if obs[0] == 'exc' and obs[1] == o.value and (store is None or store == {}):
                return None
        else:
            if obs[0] != 'ret' or not M.same(obs[1], o.value):
                continue
            if store is None:
                return None
            if o.stored:
                if list(store) == [name] and M.same(store[name], o.value):
                    return None
            elif store == {}:
                return None
    if obs[0] == 'ret' and any(o.kind == 'propagate' for o in acc):
        return 'getter-returned-despite-failed-transform'
    if obs[0] == 'exc':
        return 'getter-raised-non-400'
    if obs[0] == '400':
        if store:
            return 'getter-stored-before-raising'
        return 'getter-wrong-400'
    if any(o.kind == 'return' and M.same(obs[1], o.value) for o in acc):
        return 'getter-store-wrong'
    if any(o.kind == 'raise400' for o in acc) and not any(o.kind == 'return' for o in acc):
        return 'getter-accepted-invalid'
    return 'getter-wrong-value'


def _length_in_characters_explains(vals, obs):
    """Narrow classifier: the handler was told len(text) (characters) as content_length although the stream holds
    len(text.encode()) bytes, and a handler reading exactly content_length bytes gives what was observed."""
    if not vals:
        return False
    text = vals[-1]
    raw = text.encode('utf-8')
    if len(raw) == len(text):
        return False
    try:
        short = M.tagged_loads(raw[:len(text)].decode('utf-8'))
    except ValueError:
        return obs[0] == '400'
    return obs[0] == 'ret' and M.same(obs[1], short)


def check_request(rec, flavor, query, kb, csv, program, extra_has=(), drop_key=False, jcfg=None):
    """query: str (WSGI: environ QUERY_STRING; ASGI: sent as its UTF-8 bytes) or bytes (ASGI only).
    jcfg: JSON handler configuration of the request options (None: next one in rotation)."""
    H = harness()
    if jcfg is None:
        jcfg = JCFGS[H.seq % len(JCFGS)]
        H.seq += 1
    prev_jcfg = H.last_jcfg.get(flavor if flavor == 'wsgi' else 'asgi') if flavor in FLAVORS else None
    leak = prev_leak = None
    if flavor in DEFAULTED:
        # kb/csv/jcfg are what gets configured elsewhere; this request must show the documented defaults
        leak = (kb, csv, jcfg)
        kb, csv, jcfg = True, False, 'stock'
        if flavor.startswith('noopt_'):
            prev_leak = H.last_leak[flavor]
        else:
            prev_leak = H.last_primary['wsgi' if flavor == 'app2_wsgi' else 'asgi']
            prev_leak = list(prev_leak) if prev_leak else None
    if isinstance(query, bytes):
        try:
            qs = query.decode('utf-8')
        except UnicodeDecodeError:
            qs = None
    else:
        qs = query
    wire = query.encode('utf-8') if (not flavor.endswith('wsgi') and isinstance(query, str)) else query
    wit = {'case': 'request', 'flavor': flavor, 'kb': kb, 'csv': csv, 'program': program,
           'drop_key': drop_key, 'mode': rec.mode, 'jcfg': jcfg, 'prev_jcfg': prev_jcfg}
    if leak is not None:
        wit.update(leak=list(leak), prev_leak=prev_leak)
    if isinstance(query, bytes):
        wit['query_hex'] = query.hex()
    else:
        wit['query'] = query
    if drop_key:
        qs = ''
    ref = MU.ref_parse_qs(qs, kb, csv) if qs else {}
    amb = M.all_blank_csv_names(qs, kb, csv) if qs else set()
    has_names = list(dict.fromkeys(list(ref) + [op['name'] for op in program] + list(extra_has) + ['nope', 'A']))
    res, out, failed = H.run(flavor, wire, kb, csv, program, has_names, drop_key, jcfg, leak)
    rec.count('mon.request.' + flavor)
    if prev_leak is not None and tuple(prev_leak[:2]) != (True, False):
        rec.count('cls.defaults_after_foreign_reconfiguration')
    rec.count('cls.json_handler_' + jcfg)
    if prev_jcfg is not None and prev_jcfg != jcfg:
        rec.count('cls.json_handler_reconfigured')
    if qs is None:
        # bytes that are not UTF-8: the statement only says that parsing never fails
        rec.count('cls.asgi_non_utf8')
        if failed is not None or out is None:
            known = K_ASGI_UTF8 if isinstance(failed, UnicodeDecodeError) and out is None else None
            rec.violation('request-parse-failed', dict(wit, exc=repr(failed), status=res.status), known_key=known)
        return
    if out is None or failed is not None:
        rec.violation('request-parse-failed', dict(wit, exc=repr(failed), status=res.status))
        return
    if out['qs'] != qs:
        rec.count('obs.query_string_attribute_differs')         # observation only (not part of the statement)
    twin_known = None
    if rec.mode != 'pure' and kb and '=' in qs.split('&'):
        twin_known = K_TWIN_EQ
    for label in ('params', 'params_after'):
        got = out.get(label)
        prob = mapping_problem(qs, kb, csv, got, ref) if isinstance(got, dict) else 'ill-typed'
        if prob:
            known = twin_known if (twin_known and got == _twin_rebuild(qs, kb, csv)) else None
            what = 'request-params-' + prob if label == 'params' else 'request-params-changed-by-getters'
            rec.violation(what, dict(wit, got=got, want=ref), known_key=known)
            if known:
                return          # everything below is derived from the (known) deviating mapping
            break
    cref = M.canon(ref)
    for n, v in out['has'].items():
        rec.count('mon.has_param')
        want = n in cref
        if n in amb and n not in cref:
            continue
        if v is not want:
            rec.violation('has_param-wrong', dict(wit, name=n, got=v, want=want))
    expect_400 = None
    for i, op in enumerate(program):
        if i >= len(out['ops']):
            if expect_400 is None:
                rec.violation('program-cut-short', dict(wit, ops_done=len(out['ops'])))
            break
        obs = out['ops'][i]
        acc = M.ref_getter(ref, amb, op, JSON_LOADS[jcfg]) if JSON_LOADS[jcfg] else M.ref_getter(ref, amb, op)
        if op['g'] == 'json' and jcfg != 'stock':
            for o in acc:
                rec.count('out.json_%s.%s' % (jcfg, o.tag))
        rec.count('mon.getter.' + op['g'])
        for o in acc:
            rec.count('out.%s.%s' % (op['g'], o.tag))
        prob = op_problem(op, acc, obs)
        if prob:
            known = None
            if obs[0] == 'exc' and obs[1] == 'IndexError' and op['name'] in amb and op['name'] not in cref:
                known = K_EMPTY_LIST
            elif obs[0] == 'exc' and obs[1] == 'RecursionError' and op['g'] == 'json' and \
                    any(o.tag == 'too-deep' for o in acc):
                known = K_JSON_DEPTH
            elif op['g'] == 'json' and jcfg == 'custom_base' and _length_in_characters_explains(cref.get(op['name']), obs):
                known = K_JSON_LEN
            rec.violation(prob, dict(wit, op_index=i, op=op, observed=obs[:3], store=obs[-1],
                                     acceptable=[repr(o) for o in acc]), known_key=known)
        if op.get('propagate') and obs[0] == '400':
            expect_400 = i
            break
    # the response (observed, not judged here): 400 when a documented error left the responder, 200 otherwise
    rec.count('mon.response')
    if expect_400 is not None:
        rec.count('cls.error_propagated_' + flavor)
        if flavor in ('wsgi', 'asgi') and res.status != 400:
            rec.count('obs.propagated_error_status_not_400')    # observation only: rendering errors is C04's subject
    elif out['done'] and flavor in ('wsgi', 'asgi') and res.status != 200:
        rec.count('obs.status_not_200_after_clean_responder')


# =============================================================== programs of getter calls

KINDS = ['str', 'int', 'float', 'bool', 'uuid', 'datetime', 'date', 'json', 'list']

U1 = '64be949b-3433-4d36-a4a8-9f19d352fee8'
POOLS = {
    'str': ['', 'x', 'a b', 'é', ',', 'a,b', '%', '\x00', '+'],
    'int': ['0', '-0', '5', '-5', '+5', ' 7 ', '1_000', '١٢٣', '９', '0x10', '1e3', '1.0', '', '²', '1\x00',
            '--1', '5 5', '1' * 4300, '1' * 4301, 'nan', '1,2', '007', '\t8\n', '-'],
    'float': ['1.5', '-0.0', 'nan', 'NaN', '-nan', 'inf', '-inf', 'Infinity', '1e308', '1e309', '1e-400', '1_0.5',
              ' 2.5 ', '.5', '5.', '0x1p3', '1,5', '١.٥', '1e', '', '1.5f', '3', '-', '1e+2'],
    'bool': list(M.TRUE_STRINGS) + list(M.FALSE_STRINGS) + ['TRUE', 'FALSE', 'T', 'F', 'Yes', 'NO', 'ON', 'Off', 'oN',
                                                            '', ' ', 'true ', ' false', '2', '01', '00', 'tru', 'nope',
                                                            'Y', 'N', 'yes,no', 'None', '-1', '１'],
    'uuid': [U1, U1.upper(), '81c8155C-D6de-443B-9495-39Fa8FB239b5', U1.replace('-', ''), '{' + U1 + '}',
             'urn:uuid:' + U1, U1[:-1], U1 + '0', U1.replace('6', 'g', 1), '', 'x', U1.replace('-', '_'),
             ' ' + U1.replace('-', '')[:30] + ' ', '-' + U1.replace('-', '')[:31], '00000000-0000-0000-0000-000000000000',
             'ffffffff-ffff-ffff-ffff-ffffffffffff', U1 + ',' + U1.upper(), '64be949b3433-4d36-a4a8-9f19-d352fee8'],
    'datetime': ['2024-02-29T23:59:59Z', '2023-02-29T00:00:00Z', '0001-01-01T00:00:00+0000', '9999-12-31T23:59:59-2359',
                 '2024-01-01T00:00:60Z', '2024-01-01T00:00:61Z', '2024-01-01T00:00:00', '2024-1-1T0:0:0Z',
                 '2024-01-01T00:00:00+05:30', '2024-01-01T00:00:00+00:00:00.123456', ' 2024-01-01T00:00:00Z',
                 '2024-01-01T00:00:00Z ', '', 'T', '２０２４-01-01T00:00:00Z', '2024-01-01T24:00:00Z', '2024-01-01T00:00:00z',
                 '2024-01-01T00:00:00+2400', '2024-01-01T00:00:00-0000', '2024-01-01 00:00:00Z', '2024-12-31T23:59:59+2359',
                 '0000-01-01T00:00:00Z', '2024-01-01T00:00:00Z,2025-01-01T00:00:00Z'],
    'date': ['2024-02-29', '2023-02-29', '0001-01-01', '9999-12-31', '10000-01-01', '2024-13-01', '2024-00-10',
             '24-1-1', '2024-1-1', '', '2024-02-30', '2024-04-31', '2024-12-31', ' 2024-01-01', '2024-01-01 ', '2024/01/01',
             '2024-01-01T00:00:00Z', '2024-01-01,2024-01-02', '0000-01-01', '2024-01-00'],
    'json': ['{}', '[]', '{"a": 1}', '[1,2]', 'null', 'true', 'false', '1', '-0', '1.5', '"s"', '"\\ud800"', 'NaN', 'Infinity',
             '-Infinity', '1e999', '', ' ', '{', '[1,]', "{'a':1}", '\ufeff{}', '1' * 4301, '[' * 200 + ']' * 200,
             '{"a":[{"b":null}],"c":"é"}', ' {"a" : 2 } ', '{"a":1}{"b":2}', '"\x00"', '[1, 2', 'nul', '{"a":1,"a":2}'],
    'list': ['', 'x', '1', 'a,b', '1,2,3', ',', '1,,3', 'é', 'A1', U1, '1.5,2.5', ' ', '1,x'],
}
OTHER = {   # a valid value of the kind that differs from every pool value (for first/last occurrence cases)
    'str': 'other', 'int': '41', 'float': '41.25', 'bool': 'on', 'uuid': 'be71ecaa-f719-4d42-87fd-32613c2eeb60',
    'datetime': '2001-02-03T04:05:06+0100', 'date': '2001-02-03', 'json': '{"other": [41]}', 'list': 'zz',
}
DEFAULTS = {'str': 'dflt', 'int': -7, 'float': -7.5, 'bool': True, 'uuid': 'dflt', 'datetime': 'dflt', 'date': 'dflt',
            'json': {'d': 1}, 'list': ['d']}
# falsy objects are defaults too ("default (any)")
FALSY_DEFAULTS = {'str': '', 'int': 0, 'float': 0.0, 'bool': False, 'uuid': '', 'datetime': 0, 'date': '', 'json': {}, 'list': []}
FORMATS = {'datetime': [None, None, '%Y-%m-%dT%H:%M:%SZ', '%Y-%m-%d', '%d/%m/%y %H:%M', '%Y%m%d%H%M%S'],
           'date': [None, None, '%Y/%m/%d', '%d.%m.%Y', '%Y%m%d', '%Y-%m-%dT%H:%M:%S%z']}
DEEP_JSON = ['[' * 5000, '{"a":' * 5000 + '1' + '}' * 5000]     # far beyond what json.loads nests (about 1500)


def qenc(s, style):
    """Encode text for use as a name or value so that the reference reading gives back s."""
    out = []
    for i, ch in enumerate(s):
        if ch == ' ' and style in (1, 3):
            out.append('+')
        elif ch == ',' and style == 1:
            out.append(',')         # a literal comma: splits when csv parsing is on
        elif ch in MU.UNRESERVED and style != 2:
            out.append(ch)
        elif ch in MU.UNRESERVED and (i % 3):
            out.append(ch)
        else:
            fmt = '%%%02x' if style == 3 else '%%%02X'
            out.extend(fmt % b for b in ch.encode('utf-8'))
    return ''.join(out)


def numeric_bounds(kind, text):
    """(min, max) pairs around the converted value: on, just inside, just outside."""
    try:
        x = int(text) if kind == 'int' else float(text)
    except ValueError:
        return [(None, None), (0, 10)]
    if kind == 'int':
        lo, hi = x - 1, x + 1
    elif x != x or x in (math.inf, -math.inf):
        return [(None, None), (0.0, None), (None, 0.0), (-math.inf, math.inf), (math.inf, None), (None, -math.inf)]
    else:
        lo, hi = math.nextafter(x, -math.inf), math.nextafter(x, math.inf)
    return [(None, None), (x, None), (hi, None), (lo, None), (None, x), (None, lo), (None, hi), (x, x), (lo, hi),
            (hi, hi), (lo, lo)]


def table_program(kind, text, k):
    """All option combinations for one (kind, value): required x default x store, kind-specific arguments."""
    prog = []
    base = []
    for required in (False, True):
        for dflt in (None, DEFAULTS, FALSY_DEFAULTS):
            for store in (False, True):
                op = {'g': kind, 'name': 'p', 'store': store}
                if required:
                    op['required'] = True
                if dflt is not None:
                    op['default'] = dflt[kind]
                base.append(op)
    if kind in ('int', 'float'):
        for j, (lo, hi) in enumerate(numeric_bounds(kind, text)):
            op = dict(base[(j + k) % len(base)], min=lo, max=hi)
            prog.append(op)
        prog.extend(base)
    elif kind == 'bool':
        for j, op in enumerate(base):
            prog.append(dict(op, blank_as_true=bool(j % 2)))
            prog.append(dict(op))
        prog.append({'g': 'bool', 'name': 'p', 'store': True, 'blank_as_true': False})
    elif kind in ('datetime', 'date'):
        for j, op in enumerate(base):
            prog.append(dict(op, fmt=FORMATS[kind][(j + k) % len(FORMATS[kind])]))
        prog.append({'g': kind, 'name': 'p', 'store': True})
    elif kind == 'list':
        trs = [None, 'int', 'float', 'uuid', 'upper', 'strict', 'first_match', 'lookup', 'type_error', 'generator_exit',
               'stop_async', 'runtime_error']
        for j, op in enumerate(base):
            prog.append(dict(op, transform=trs[(j + k) % len(trs)]))
        for t in trs:
            prog.append({'g': 'list', 'name': 'p', 'store': True, 'transform': t})
    else:
        prog.extend(base)
    # the other getters see the same name too (cheap cross-coverage), and an absent name
    for g in KINDS:
        if g != kind:
            prog.append({'g': g, 'name': 'p', 'store': True})
    prog.append({'g': kind, 'name': 'absent', 'store': True, 'default': DEFAULTS[kind]})
    prog.append({'g': kind, 'name': 'absent', 'store': True, 'default': FALSY_DEFAULTS[kind]})
    prog.append({'g': kind, 'name': 'absent', 'store': True, 'required': False})
    prog.append({'g': kind, 'name': 'P', 'store': True})
    last = dict(prog[k % len(prog)], propagate=True)
    if k % 3 == 0:
        last = {'g': kind, 'name': 'absent', 'required': True, 'store': True, 'propagate': True}
    prog.append(last)
    return prog


PRESENCE = ['single', 'last', 'first', 'csv_last', 'csv_first', 'absent', 'blank_then', 'thrice']


def table_cases():
    """The bounded decision table: kind x pool value x presence pattern (index-sharded by the caller)."""
    for kind in KINDS:
        for text in POOLS[kind]:
            for pres in PRESENCE:
                yield kind, text, pres


def table_query(kind, text, pres, k):
    style = k % 4
    v = qenc(text, style)
    o = qenc(OTHER[kind], (k + 1) % 4)
    name = ['p', '%70', 'p', 'p'][style]
    csv = False
    if pres == 'single':
        q = 'z=1&%s=%s' % (name, v)
    elif pres == 'last':
        q = 'p=%s&z=1&%s=%s' % (o, name, v)
    elif pres == 'first':
        q = '%s=%s&z=1&p=%s' % (name, v, o)
    elif pres == 'csv_last':
        q, csv = '%s=%s,%s' % (name, o, v), True
    elif pres == 'csv_first':
        q, csv = '%s=%s,%s&y=2' % (name, v, o), True
    elif pres == 'absent':
        q = 'z=%s&pp=%s&P=' % (v, v)
    elif pres == 'blank_then':
        q = '%s=&p&p=%s' % (name, v)
    else:
        q = 'p=%s&%s=%s&p=%s' % (o, name, o, v)
        csv = bool(k % 2)
    kb = bool((k // 2) % 2)
    return q, kb, csv


def run_table(rec):
    for k, (kind, text, pres) in enumerate(table_cases()):
        if k % rec.nshards != rec.shard:
            continue
        q, kb, csv = table_query(kind, text, pres, k)
        prog = table_program(kind, text, k)
        for flavor in FLAVORS:
            if flavor == 'wsgi' and any(ord(c) > 255 for c in q):
                continue
            # json rows: every handler configuration on one interface (rotating), the rotation on the others
            for jcfg in (JCFGS if (kind == 'json' and flavor == FLAVORS[k % len(FLAVORS)]) else (None,)):
                check_request(rec, flavor, q, kb, csv, prog, jcfg=jcfg)
            rec.case(('req', flavor, q, kb, csv))
            rec.count('table.' + kind)
        check_parse(rec, q, k)


# =============================================================== to_query_str monitor

RT_NAMES = ['a', 'a b', 'é', ',', '%2C', '&=', 'A', 'a+']
RT_VALUES = ['', 'x', ',', 'a,b', '%2C', '+', ' ', 'é', '\x00', '&', '=', True, False, 0, 1, 1.0, 0.0, 1.5, -3, [1, 0], [1.0, 0.0],
             [], [''], ['x'], ['', ''], ['a', 'b'], ['a,b', ''], ['', 'x', ''], [1, 2], ['%2C', ','], ['é', ' ', '+']]


class PlainMapping(collections.abc.Mapping):
    """A Mapping that is not a dict (to_query_str is documented for a Mapping[str, Any])."""

    def __init__(self, d):
        self._d = dict(d)

    def __getitem__(self, k):
        return self._d[k]

    def __iter__(self):
        return iter(self._d)

    def __len__(self):
        return len(self._d)


WRAPS = {'dict': dict, 'ordered': collections.OrderedDict, 'proxy': lambda d: types.MappingProxyType(dict(d)),
         'userdict': collections.UserDict, 'mapping': PlainMapping}
WRAP_NAMES = tuple(WRAPS)


def check_roundtrip(rec, d, cdl, prefix, wrap='dict'):
    wit = {'case': 'roundtrip', 'd': d, 'cdl': cdl, 'prefix': prefix, 'wrap': wrap}
    try:
        arg = d if d is None else WRAPS[wrap](d)
        rec.count('cls.rt_container_' + wrap)
        text = falcon.to_query_str(arg, comma_delimited_lists=cdl, prefix=prefix)
    except Exception as ex:  # noqa
        rec.violation('to_query_str-raised', dict(wit, exc=repr(ex)))
        return
    rec.count('mon.roundtrip.render')
    if type(text) is not str:
        rec.violation('to_query_str-type', dict(wit, got=repr(text)))
        return
    # the documented '?' prefix is not part of the query string proper
    body = text[1:] if (prefix and text.startswith('?')) else text
    if not M.rendering_alphabet_ok(body):
        rec.count('obs.rendering_outside_unreserved_pct')     # observation only: the statement asks for the round trip
    for kb in (True, False):
        for csv in ((True,) if cdl else (False, True)):
            want = M.rendered_canon(d, cdl, kb)
            try:
                got = M.canon(uri.parse_query_string(body, keep_blank=kb, csv=csv))
            except Exception as ex:  # noqa
                rec.violation('parse-raised', {'case': 'parse', 'qs': body, 'kb': kb, 'csv': csv, 'exc': repr(ex)})
                continue
            rec.count('mon.roundtrip.parse')
            if got != want:
                rec.violation('roundtrip-mismatch', dict(wit, text=text, kb=kb, csv=csv, got=got, want=want))
            elif M.canon(MU.ref_parse_qs(body, kb, csv)) != want:
                rec.mark_inconclusive('oracle inconsistent on roundtrip of %r' % (wit,))
            if kb and not cdl:
                # shape: a rendered multi-element list comes back as a list, a scalar as a scalar
                raw = uri.parse_query_string(body, keep_blank=True, csv=csv)
                for k2, v2 in (d or {}).items():
                    multi = isinstance(v2, list) and len(v2) > 1
                    if k2 in raw and isinstance(raw[k2], list) != multi:
                        rec.violation('roundtrip-shape', dict(wit, text=text, name=k2, got=raw[k2]))
    if not d:
        return
    if any(isinstance(v, list) for v in d.values()):
        rec.count('cls.rt_list_cdl' if cdl else 'cls.rt_list_repeat')
    if any(v is True or v is False for v in d.values()):
        rec.count('cls.rt_bool')
    if any(isinstance(v, list) and not v for v in d.values()):
        rec.count('cls.rt_empty_list')


def run_roundtrip_table(rec):
    idx = 0
    singles = [{n: v} for n in RT_NAMES for v in RT_VALUES]
    pairs = [{n1: v1, n2: v2} for n1, n2 in itertools.permutations(RT_NAMES[:4], 2)
             for v1 in RT_VALUES for v2 in RT_VALUES]
    for d in singles + pairs:
        idx += 1
        if idx % rec.nshards != rec.shard:
            continue
        for cdl in (True, False):
            check_roundtrip(rec, d, cdl, bool((idx + cdl) % 2), WRAP_NAMES[(idx // rec.nshards) % len(WRAP_NAMES)])
        rec.case(('rt', repr(d)))
    if rec.shard == 0:
        for empty in (None, {}):
            for prefix in (True, False):
                for wrap in WRAP_NAMES:
                    check_roundtrip(rec, empty, prefix, prefix, wrap)


def random_dict(rng):
    def text():
        r = rng.random()
        if r < 0.15:
            return ''
        n = rng.randint(1, 6) if r < 0.8 else rng.randint(6, 60)
        return ''.join(rng.choice('ab,&=+% %2C\x00é€😀~.-_/;1') for _ in range(n))

    d = {}
    for _ in range(rng.randint(1, 5)):
        name = text() or 'n'
        r = rng.random()
        if r < 0.45:
            d[name] = text()
        elif r < 0.55:
            d[name] = rng.choice([True, False, 0, 1, -1, 2.5, 10 ** 20, 1e-7])
        else:
            d[name] = [rng.choice([text(), text(), rng.randint(-5, 5)]) for _ in range(rng.randint(0, 4))]
    return d


# =============================================================== random workloads

TOKENS = ['&', '=', ',', '+', '%', '%2', '%2C', '%2c', '%26', '%3D', '%25', '%2B', '%00', '%C3%A9', '%C3', '%A9', '%E2%82%AC',
          '%F0%9F%98%80', '%FF', '%ed%a0%80', '%c0%af', 'a', 'b', 'g', 'G', 'é', '€', '😀', '\x00', ' ', '.', '1', ';',
          '#', '?', '/', '%u00e9', '%%', '%+', '+%', '=%', '%=', '&&', '==', ',,', '=,', ',=', 'a=', '&a=', 'a=1', '&a',
          '%41', '%61', '%4', '%g1', '%1g', '\xff', '\x80', '%7E', '%7e']
NAME_POOL = ['a', 'b', 'id', 'q', 'é', 'a b', 'a%', 'A', 'x.y', 'k[]', 'a,b', 'a=b', '€']


def random_hostile(rng):
    r = rng.random()
    if r < 0.5:
        n = rng.randint(1, 12)
    elif r < 0.9:
        n = rng.randint(12, 80)
    else:
        n = rng.randint(80, 600)
    if rng.random() < 0.25:
        # escape-dense single component (the many-escapes decoding path) with malformed ones mixed in
        comp = ''.join(rng.choice(['%41', '%C3%A9', '%2C', '%', '%4', '%zz', '+', 'x', '%e2%82%ac', '%00', '%FF', ','])
                       for _ in range(n + 8))
        return rng.choice(['a=' + comp, comp + '=v', comp, 'a=1&a=' + comp + '&b=' + comp])
    return ''.join(rng.choice(TOKENS) for _ in range(n))


def random_structured(rng):
    """Fields from name/value pools with random (legal) encodings, repeats and typed values."""
    focus = rng.choice(NAME_POOL)
    kind = rng.choice(KINDS)
    fields = []
    names = [focus]
    for _ in range(rng.randint(1, 5)):
        name = focus if rng.random() < 0.6 else rng.choice(NAME_POOL)
        names.append(name)
        k2 = kind if rng.random() < 0.8 else rng.choice(KINDS)
        val = rng.choice(POOLS[k2] + [OTHER[k2]])
        if len(val) > 200 and rng.random() < 0.8:
            val = OTHER[k2]
        style = rng.randrange(4)
        r = rng.random()
        if r < 0.08:
            fields.append(qenc(name, style))
        elif r < 0.2:
            fields.append(qenc(name, style) + '=' + qenc(val, style) + ',' + qenc(OTHER[k2], style))
        else:
            fields.append(qenc(name, style) + '=' + qenc(val, style))
        if rng.random() < 0.1:
            fields.append(rng.choice(['', '=', '&', 'novalue', '=' + qenc(val, style)]))
    return '&'.join(fields), kind, list(dict.fromkeys(names))


def random_op(rng, kind, name):
    op = {'g': kind, 'name': name, 'store': rng.random() < 0.6}
    if rng.random() < 0.35:
        op['required'] = True
    if rng.random() < 0.5:
        op['default'] = rng.choice([DEFAULTS, FALSY_DEFAULTS])[kind]
    if kind in ('int', 'float'):
        if rng.random() < 0.6:
            c = rng.choice([-5, -1, 0, 1, 5, 7, 41, 123, 1000])
            op['min'] = rng.choice([None, c, c - 1, c + 1]) if kind == 'int' else rng.choice([None, c, c - 0.5, c + 0.25])
            op['max'] = rng.choice([None, c, c - 1, c + 1]) if kind == 'int' else rng.choice([None, c, c - 0.25, c + 0.5])
    elif kind == 'bool':
        if rng.random() < 0.5:
            op['blank_as_true'] = rng.random() < 0.5
    elif kind in ('datetime', 'date'):
        op['fmt'] = rng.choice(FORMATS[kind])
    elif kind == 'list':
        op['transform'] = rng.choice([None, None, 'int', 'float', 'uuid', 'upper', 'strict', 'first_match', 'lookup',
                                      'type_error', 'generator_exit', 'stop_async', 'runtime_error'])
    return op


def random_program(rng, kind, names):
    prog = []
    for _ in range(rng.randint(2, 10)):
        name = rng.choice(names + ['absent']) if rng.random() < 0.9 else 'nope'
        g = kind if rng.random() < 0.6 else rng.choice(KINDS)
        prog.append(random_op(rng, g, name))
    if rng.random() < 0.4:
        prog[-1]['propagate'] = True
    return prog


def generic_program(ref, k):
    """For arbitrary strings: every getter on the first names of the reference mapping + one absent."""
    names = list(ref)[:2] + ['absent']
    prog = []
    for j, n in enumerate(names):
        for i, g in enumerate(KINDS):
            op = {'g': g, 'name': n, 'store': bool((i + j + k) % 2)}
            if (i + k) % 3 == 0:
                op['default'] = DEFAULTS[g]
            if (i + j + k) % 5 == 0:
                op['required'] = True
            prog.append(op)
    if k % 4 == 0:
        prog.append({'g': KINDS[k % len(KINDS)], 'name': names[0], 'required': True, 'store': True, 'propagate': True})
    return prog


def request_both(rec, qs, kb, csv, prog, extra_has=(), direct=False):
    """Every way a request object comes into being: WSGI, ASGI HTTP, ASGI WebSocket handshake
    (+ the public constructors when direct=True)."""
    for flavor in (FLAVORS + DIRECT + DEFAULTED if direct else FLAVORS):
        if flavor.endswith('wsgi') and any(ord(c) > 255 for c in qs):
            rec.count('skip.wsgi_non_latin1')
            continue
        check_request(rec, flavor, qs, kb, csv, prog, extra_has)
        rec.case(('req', flavor, qs, kb, csv))


# separator look-alikes and habits of other stacks: only '&' separates fields, only the first '=' splits
FIXED_STRINGS = ['a=1;b=2', 'a=1&amp;b=2', 'a=1\nb=2', 'a[]=1&a[]=2', 'a=1#b=2', '?a=1', 'a=1&&', '&&a=1', 'a==1', 'a=1=2&a==',
                 'a=1;a=2', 'a=b=c,d=e', 'a=%26b=2', 'a=1%26b%3D2&b=3', 'a=%3D', '%3D=%26', 'a=1&A=2&a=3', 'a =1& a=2', 'a+=1&a%20=2',
                 'a=1\r\n&b=2', 'a=\t', 'a=1&b', 'b&a=1', 'a&a&a', 'a=&a=&a=', 'a=,&a=1,', 'a=1,2&a=3', 'a=1&a=2,3', 'a=1,2&a=3,4&a=5',
                 'a=%2C,%2c', 'a=x%2Cy,z', 'a=,%2C,', 'a=%', 'a=%&b=%2', 'a=%2&b=%', '%=%', '%2=%2', 'a=%e9', 'a=%C3%A9%C3', 'a=%E2%82',
                 'a=%F0%9F%98%80', 'a=%ED%A0%80', 'a=%C0%AF', 'a=%00&%00=b', 'a=\x00', 'é=é', '%C3%A9=é', 'a=+&+=a', 'a=%2B+%20',
                 'a=1&a=2&a=3&a=4&a=5&a=6&a=7&a=8&a=9', 'a=' + '%41' * 7, 'a=' + '%41' * 8, 'a=' + '%4' * 9, 'a=' + '%' * 9,
                 '=' * 9, '&' * 9, ',' * 9, 'a=' + ',' * 9, 'a=' + ',x' * 9, 'a,b=1', 'a%2Cb=1', 'a,b=1,2']

def threaded_round(rec, queries, combos, iterations=30):
    """Request threads parse different query strings at the same time (tiny switch interval): every thread
    must get the reference reading of ITS query string.  Returns True when a violation was reported."""
    import sys
    import threading
    n = len(queries)
    wants = [MU.ref_parse_qs(q, kb, csv) for q, (kb, csv) in zip(queries, combos)]
    bad = []
    barrier = threading.Barrier(n)

    def work(i):
        kb, csv = combos[i]
        opts = falcon.RequestOptions()
        opts.keep_blank_qs_values, opts.auto_parse_qs_csv = kb, csv
        barrier.wait()
        for j in range(iterations):
            try:
                if j % 2:
                    got = falcon.Request(W.make_environ('GET', '/q', queries[i]), options=opts).params
                else:
                    got = uri.parse_query_string(queries[i], keep_blank=kb, csv=csv)
            except Exception as ex:  # noqa
                got = ('raised', repr(ex))
            if got != wants[i]:
                bad.append((i, j, got))
                return
    old = sys.getswitchinterval()
    sys.setswitchinterval(1e-6)
    try:
        ths = [threading.Thread(target=work, args=(i,), daemon=True) for i in range(n)]
        for t in ths:
            t.start()
        for t in ths:
            t.join(120)
    finally:
        sys.setswitchinterval(old)
    rec.count('mon.threaded_parse', n * iterations)
    if bad:
        i, j, got = bad[0]
        rec.violation('concurrent-parse-mismatch', {'case': 'threads', 'queries': queries, 'combos': [list(c) for c in combos],
                                                    'thread': i, 'iteration': j, 'got': got, 'want': wants[i]})
        return True
    return False


def threaded_phase(rec, rounds):
    rng = rec.rng
    for _ in range(rounds):
        queries, combos = [], []
        for i in range(6):
            fields = []
            for _f in range(rng.randint(1, 3)):
                raw = ''.join(rng.choice(['a', 'é', '€', ' ', '/', '+', '%', ',', '=', '&', chr(65 + i)])
                              for _ in range(rng.randint(40, 300)))
                val = MU.ref_encode(raw, True) + rng.choice(['', '%', '%zz', '%4', ',%2C'])
                name = rng.choice(['k%d' % i, MU.ref_encode('n é%d' % i, True) * 3])
                fields.append(name + '=' + val)
            queries.append('&'.join(fields))
            combos.append(rng.choice(COMBOS))
        rec.case(('threads', tuple(queries)))
        if threaded_round(rec, queries, combos):
            break


NON_UTF8 = [b'a=\xff', b'\xc3', b'a=%FF\xe9&b=1', b'\x80=1', b'a=1&b=\xed\xa0\x80', b'a=\xf8\x88\x80\x80\x80']


# =============================================================== run

def run(rec):
    rec.rule = ('(1) every string of length <= L over the 12 symbols & = , + %% 2 C c g a NUL e-acute, under all four '
                '(keep_blank, csv) settings, through falcon.uri.parse_query_string next to the reference reader; every N-th of '
                'them also through a real WSGI and a real ASGI request with a program of typed getter calls; (2) decision table '
                'getter kind x boundary value x presence pattern x (required, default, store, min/max, blank_as_true, format, '
                'transform); (3) to_query_str round trips over a table of dictionaries; (4) random hostile / structured strings '
                'to 2 KB, random dictionaries. non-trivial = contains one of & = , + %% or NUL or non-ASCII (strings), any '
                'request or dictionary case; distinct by input')
    rec.assumptions = ['reference reader vlib/models/uri.py ref_parse_qs and conversions vlib/models/c08_query.py are correct',
                       'a name whose only values are all-comma fields under csv without keep_blank may be absent or map to []',
                       'NaN with min/max set: both documented readings accepted',
                       'to_query_str: names non-empty; booleans inside lists not generated',
                       'WSGI QUERY_STRING limited to latin-1 code points (PEP 3333); ASGI query sent as UTF-8 bytes']
    if rec.mode != 'pure':
        rec.note('mode=%s parse_query_string is %r' % (rec.mode, uri.parse_query_string))
        if 'cyutil' not in (getattr(uri.parse_query_string, '__module__', '') or ''):
            rec.mark_inconclusive('twin mode requested but falcon.uri.parse_query_string is not the cyutil twin')
    rng = rec.rng
    maxlen = 5 if rec.tier == 'quick' else 6
    if rec.mode != 'pure':
        maxlen = 5          # the twins are fixed artifacts (not rebuilt from edited sources): the quick bound suffices
    every = 193 if rec.tier == 'quick' else 397

    # ---- (1) exhaustive strings
    idx = 0
    for L in range(0, maxlen + 1):
        for tup in itertools.product(SYMS, repeat=L):
            idx += 1
            if idx % rec.nshards != rec.shard:
                continue
            s = ''.join(tup)
            check_parse(rec, s, idx // rec.nshards)
            rec.case(s if nontrivial(s) else None)
            if idx % 23 == 0:
                check_parse_defaults(rec, s)
            if (idx // rec.nshards) % every == 0:
                kb, csv = COMBOS[(idx // rec.nshards // every) % 4]
                ref = MU.ref_parse_qs(s, kb, csv)
                request_both(rec, s, kb, csv, generic_program(ref, idx // rec.nshards // every))
                rec.count('exh.request_sample')
            if idx % 50021 == 0:
                rec.sample({'qs': s, 'keep_blank,csv=True,True': uri.parse_query_string(s, True, True)})
    rec.exhaustive = True
    t_exh = rec.elapsed()
    if rec.shard == 0:
        rec.note('exhaustive: all %d strings of length <= %d over %d symbols x 4 option settings' % (idx, maxlen, len(SYMS)))

    # ---- every two-character escape body, in name and value position
    hexish = sorted(set('0123456789abcdefABCDEF') | set('gG@`/:%+ xX'))
    for i, (c1, c2) in enumerate(itertools.product(hexish, repeat=2)):
        if i % rec.nshards != rec.shard:
            continue
        for s in ('k=%' + c1 + c2 + 'z', '%' + c1 + c2 + '=v&k=a,%' + c1 + c2, 'k=' + ('%' + c1 + c2) * 9):
            check_parse(rec, s, i)
            rec.case(s)
            rec.count('exh.escape_pairs')

    # ---- (2) getter decision table, (3) round-trip table
    t_esc = rec.elapsed()
    run_table(rec)
    t_tab = rec.elapsed()
    run_roundtrip_table(rec)
    t_rt = rec.elapsed()

    # ---- fixed hostile cases
    for j, q in enumerate(FIXED_STRINGS):
        if j % rec.nshards != rec.shard:
            continue
        check_parse(rec, q, j)
        check_parse_defaults(rec, q)
        rec.case(q)
        for kb, csv in COMBOS:
            request_both(rec, q, kb, csv, generic_program(MU.ref_parse_qs(q, kb, csv), j), direct=True)
        rec.count('cls.fixed_strings')
    if rec.shard == 0:
        for j, raw in enumerate(NON_UTF8):
            for flavor in ('asgi', 'ws'):
                check_request(rec, flavor, raw, bool(j % 2), bool(j % 3 == 0), generic_program({}, j))
                rec.case(('req', flavor + '-bytes', raw))
        for kb, csv in COMBOS:
            check_request(rec, 'wsgi', '', kb, csv, generic_program({}, 1), drop_key=True)
            rec.count('cls.wsgi_no_query_key')
            rec.case(('req', 'wsgi-nokey', kb, csv))
            for flavor in FLAVORS:
                check_request(rec, flavor, '', kb, csv, generic_program({}, 2))
                rec.count('cls.empty_query')
        for j, q in enumerate(['a=,', 'a=,,&b=1', 'b=1&a=,', '%61=,', 'a=,&a=,,', 'b=,1&a=,']):
            # every value of 'a' is blank and dropped: 'a' may be absent or empty, no getter may fail
            prog = [{'g': g, 'name': 'a', 'store': bool(i % 2)} for i, g in enumerate(KINDS + KINDS)]
            prog += [{'g': g, 'name': 'a', 'required': True, 'default': DEFAULTS[g]} for g in KINDS]
            request_both(rec, q, False, True, prog)
            rec.count('cls.csv_all_blank')
        for j, deep in enumerate(DEEP_JSON):
            q = 'j=' + qenc(deep, 0)
            prog = [{'g': 'json', 'name': 'j', 'store': True}, {'g': 'str', 'name': 'j', 'store': True}]
            request_both(rec, q, True, False, prog)
            rec.count('cls.deep_json')
    if rec.shard == 1 % rec.nshards:
        # options are read for each request: alternate settings on the same app objects
        for j in range(64):
            kb, csv = COMBOS[(j * 7 + j // 4) % 4]
            q = 'a=1,,2&b=&c&a=%2C&=x&b=,'
            request_both(rec, q, kb, csv, generic_program(MU.ref_parse_qs(q, kb, csv), j))
            rec.count('cls.options_toggled')

    # ---- (4) random phase
    if rec.shard in (0, 1):
        rec.note('shard %d phase ends (s): strings %.1f escapes %.1f getter-table %.1f roundtrip-table %.1f fixed %.1f' % (
            rec.shard, t_exh, t_esc, t_tab, t_rt, rec.elapsed()))
    threaded_phase(rec, 6 if rec.tier == 'quick' else 30)
    n = 0
    rounds = 0
    min_rounds = 5          # guaranteed part (count-sized); the budget only extends it
    frac = 0.85 if rec.mode == 'pure' else 0.3       # twin modes: parsing is the only code that differs
    while rounds < min_rounds or rec.budget_ok(frac):
        rounds += 1
        for _ in range(40):
            n += 1
            s = random_hostile(rng)
            check_parse(rec, s, n)
            rec.case(s if nontrivial(s) else None)
            rec.count('rand.hostile')
            if n % 4 == 0:
                kb, csv = rng.choice(COMBOS)
                ref = MU.ref_parse_qs(s, kb, csv)
                names = list(ref)[:3] or ['a']
                request_both(rec, s, kb, csv, random_program(rng, rng.choice(KINDS), names))
            if n <= 2:
                rec.sample({'random_qs': s[:120], 'len': len(s)})
        for _ in range(30):
            q, kind, names = random_structured(rng)
            kb, csv = rng.choice(COMBOS)
            check_parse(rec, q, COMBOS.index((kb, csv)))
            request_both(rec, q, kb, csv, random_program(rng, kind, names), extra_has=names, direct=True)
            rec.count('rand.structured')
        for _ in range(20):
            d = random_dict(rng)
            check_roundtrip(rec, d, rng.random() < 0.5, rng.random() < 0.5, rng.choice(WRAP_NAMES))
            rec.case(('rt', repr(d)))
            rec.count('rand.roundtrip')
        if rng.random() < 0.3:
            raw = bytes(rng.choice([0x61, 0x3d, 0x26, 0x25, 0x2c, 0xff, 0xc3, 0xa9, 0x80, 0xe2, 0x32]) for _ in range(rng.randint(1, 12)))
            check_request(rec, rng.choice(['asgi', 'ws']), raw, rng.random() < 0.5, rng.random() < 0.5, generic_program({}, n))
            rec.case(('req', 'asgi-bytes', raw))

    # ---- floors
    rec.floor('mon.parse', 50000)
    rec.floor('mon.parse_defaults', 1000)
    rec.floor('mon.request.wsgi', 1500)
    rec.floor('mon.request.asgi', 1500)
    rec.floor('mon.request.ws', 1500)
    rec.floor('mon.request.direct_wsgi', 300)
    rec.floor('mon.request.direct_asgi', 300)
    for f in DEFAULTED:
        rec.floor('mon.request.' + f, 300)
    rec.floor('cls.defaults_after_foreign_reconfiguration', 1000)
    rec.floor('mon.threaded_parse', 500)
    rec.floor('mon.has_param', 3000)
    rec.floor('mon.response', 3000)
    rec.floor('mon.roundtrip.render', 2000)
    rec.floor('mon.roundtrip.parse', 4000)
    rec.floor('exh.request_sample', 100)
    rec.floor('exh.escape_pairs', 1000)
    for g in KINDS:
        rec.floor('mon.getter.' + g, 1000)
        rec.floor('table.' + g, 50)
        rec.floor('out.%s.default' % g, 20)
        rec.floor('out.%s.missing' % g, 20)
    for g in KINDS:
        if g not in ('str',):
            rec.floor('out.%s.invalid' % g, 20)
    for t in ('int.on-bound', 'int.below-min', 'int.above-max', 'int.in-range', 'float.on-bound', 'float.below-min',
              'float.above-max', 'float.nan-bounds', 'bool.true', 'bool.false', 'bool.blank', 'list.list',
              'list.list-transformed', 'list.transform-raised', 'json.ok', 'uuid.ok', 'datetime.ok', 'date.ok', 'str.open-presence'):
        rec.floor('out.' + t, 10)
    for c in ('empty_field', 'lone_equals', 'empty_name', 'bare_name', 'equals_run', 'blank_kept', 'blank_dropped', 'plus',
              'escape_in_name', 'escape_in_value', 'encoded_comma_csv', 'encoded_comma', 'trailing_percent', 'percent_one_hex',
              'percent_nonhex', 'escape_dense', 'comma_csv', 'comma_literal', 'comma_next_to_escape', 'blank_element_kept',
              'blank_element_dropped', 'repeat_scalar_to_list', 'repeat_append', 'csv_repeat', 'repeat_via_decoded_name',
              'nul', 'non_ascii'):
        rec.floor('cls.' + c, 10)
    for c in ('error_propagated_wsgi', 'error_propagated_asgi', 'error_propagated_ws', 'rt_list_cdl', 'rt_list_repeat', 'rt_bool', 'rt_empty_list'):
        rec.floor('cls.' + c, 10)
    for c in WRAP_NAMES:
        rec.floor('cls.rt_container_' + c, 200)
    for c in JCFGS:
        rec.floor('cls.json_handler_' + c, 500)
    rec.floor('cls.json_handler_reconfigured', 1000)
    for c in [j + o for j in JCFGS[1:] for o in ('.ok', '.invalid')]:
        rec.floor('out.json_' + c, 50)
    for c in ('asgi_non_utf8', 'wsgi_no_query_key', 'empty_query', 'deep_json', 'options_toggled', 'csv_all_blank', 'fixed_strings'):
        rec.floor('cls.' + c, 2)
    rec.floor('rand.hostile', 200)
    rec.floor('rand.structured', 200)
    rec.floor('rand.roundtrip', 100)


# =============================================================== replay

def replay(rec, w):
    wit = w['witness']
    case = wit.get('case')
    if case == 'parse':
        check_parse(rec, wit['qs'])
        check_parse_defaults(rec, wit['qs'])
        rec.case(wit['qs'])
    elif case == 'request':
        query = bytes.fromhex(wit['query_hex']) if 'query_hex' in wit else wit['query']
        if wit.get('prev_jcfg'):
            # the same live Handlers object was configured differently for the previous request
            harness().run(wit['flavor'], '' if wit['flavor'] == 'wsgi' else b'', True, False, [], [], jcfg=wit['prev_jcfg'])
        kb, csv, jcfg = wit['kb'], wit['csv'], wit.get('jcfg', 'stock')
        if wit['flavor'] in DEFAULTED:
            kb, csv, jcfg = wit['leak']
            pl = wit.get('prev_leak')
            if pl:      # what had been configured on another object before this request
                if wit['flavor'].startswith('noopt_'):
                    harness().run(wit['flavor'], '' if wit['flavor'].endswith('wsgi') else b'', True, False, [], [], leak=pl)
                else:
                    harness().run('wsgi' if wit['flavor'] == 'app2_wsgi' else 'asgi',
                                  '' if wit['flavor'] == 'app2_wsgi' else b'', pl[0], pl[1], [], [], jcfg=pl[2])
        check_request(rec, wit['flavor'], query, kb, csv, wit['program'], drop_key=wit.get('drop_key', False), jcfg=jcfg)
        rec.case(('req', wit['flavor'], repr(query)))
    elif case == 'threads':
        rec.case(('threads', tuple(wit['queries'])))
        for _ in range(20):
            if threaded_round(rec, wit['queries'], [tuple(c) for c in wit['combos']]):
                break
    elif case == 'roundtrip':
        check_roundtrip(rec, wit['d'], wit['cdl'], wit['prefix'], wit.get('wrap', 'dict'))
        rec.case(('rt', repr(wit['d'])))
    else:
        print('unknown witness', wit)
        return
    rec.case('replay')
    print('replayed %s: %d violation(s), known=%s' % (case, rec.counters.get('violations', 0), dict(rec.known)))
