"""C16 - static routes never leave their directory and serve exactly the requested bytes.
DESIGN.md section 4, C16.

Monitors (all independent of falcon/routing/static.py):
  * file-open monitor: sys.addaudithook records every 'open' made while a request is being
    served; each must resolve inside the responsible route's directory (or be its fallback);
  * decision table (vlib/models/c16_static.py): responsible route (whole-segment prefix, LIFO),
    spelling class of the remainder (escaping / refused / root / plain / other), lexical target;
  * byte oracle: the harness wrote every file, so it knows the bytes; RFC 7233 range arithmetic
    and the If-Modified-Since rule are recomputed per request and compared with
    status / Content-Range / Content-Length / body.
Real falcon.App and falcon.asgi.App objects are driven through the PEP 3333 / ASGI drivers.
"""

import itertools
import json
import os
import random
import shutil
import sys
import tempfile
import time
import warnings
from pathlib import Path

import falcon
import falcon.asgi

from vlib.drivers import asgi as A
from vlib.drivers import wsgi as W
from vlib.models import c16_static as M

LEVEL = 'exploration'
SHARDS = {'quick': 4, 'thorough': 16}
BUDGET = {'quick': 15, 'thorough': 150}

ROOT_TOKEN = '@ROOT@'          # placeholder for the scratch root inside witnesses (replayable)


# ---------------------------------------------------------------------------- audit monitor

class Audit:
    """One process-wide audit hook; records 'open' events only while armed."""

    def __init__(self):
        self.armed = False
        self.events = []
        sys.addaudithook(self._hook)

    def _hook(self, event, args):
        if self.armed and event == 'open':
            try:
                self.events.append((args[0], args[1] if len(args) > 1 else None))
            except Exception:  # noqa
                self.events.append((repr(args), None))

    def arm(self):
        self.events = []
        self.armed = True

    def disarm(self):
        self.armed = False
        ev, self.events = self.events, []
        return ev


_AUDIT = None


def audit():
    global _AUDIT
    if _AUDIT is None:
        _AUDIT = Audit()
    return _AUDIT


_NOISE_ROOTS = None


def _is_import_noise(rp):
    """Lazy imports of library code (source / byte code / extension files of the interpreter,
    of falcon itself or of this framework) are not the static route opening files."""
    global _NOISE_ROOTS
    if _NOISE_ROOTS is None:
        from vlib import bootstrap
        roots = {sys.prefix, sys.base_prefix, sys.exec_prefix, bootstrap.REPO, bootstrap.VERIF,
                 os.path.dirname(os.__file__)}
        _NOISE_ROOTS = tuple(os.path.realpath(r) + os.sep for r in roots)
    return rp.startswith(_NOISE_ROOTS) and rp.endswith(('.py', '.pyc', '.so', '.pth', '.typed'))


# ---------------------------------------------------------------------------- server-side options

class FdFileWrapper:
    """PEP 3333 'optional platform-specific file handling' the way sendfile-style servers do it:
    when the object handed to wsgi.file_wrapper has a usable fileno(), the descriptor is
    transmitted from its current position until the end is reached, read() is never called;
    otherwise the wrapper falls back to iterating with read(blksize)."""

    def __init__(self, filelike, blksize=8192):
        self.filelike = filelike
        self.blksize = blksize
        self.fd = None
        try:
            fd = filelike.fileno()
            if isinstance(fd, int) and fd >= 0:
                self.fd = fd
        except Exception:  # noqa  (AttributeError, io.UnsupportedOperation, ValueError: not a real file)
            self.fd = None
        if hasattr(filelike, 'close'):
            self.close = filelike.close

    def __iter__(self):
        return self

    def __next__(self):
        data = os.read(self.fd, self.blksize) if self.fd is not None else self.filelike.read(self.blksize)
        if data:
            return data
        raise StopIteration


class OddFileWrapper:
    """read()-based wrapper that treats blksize as the mere suggestion PEP 3333 says it is."""
    SIZES = (1, 3, 5000, 2, 8192, 7)

    def __init__(self, filelike, blksize=8192):
        self.filelike = filelike
        self.i = 0
        if hasattr(filelike, 'close'):
            self.close = filelike.close

    def __iter__(self):
        return self

    def __next__(self):
        n = self.SIZES[self.i % len(self.SIZES)]
        self.i += 1
        data = self.filelike.read(n)
        if data:
            return data
        raise StopIteration


class OddStr(str):
    """A str subclass whose textual conversions differ from its value (a str argument may be one)."""

    def __str__(self):
        return 'ODD-STR'

    def __repr__(self):
        return 'ODD-REPR'

    def __format__(self, spec):
        return 'ODD-FORMAT'


# value of case['fwrap'] -> what the server puts into environ['wsgi.file_wrapper']
FWRAPS = {False: None, True: W.FileWrapper, 'fd': FdFileWrapper, 'odd': OddFileWrapper}
FWRAP_KEYS = [False, True, 'fd', 'odd']

# process time zones (POSIX TZ strings, no tz database needed): UTC, east, west, half-hour, DST rules, +14
TZS = ['UTC', 'JST-9', 'EST5', 'IST-5:30', 'NST3:30', 'CET-1CEST,M3.5.0,M10.5.0/3', 'LINT-14', 'PST8PDT,M3.2.0,M11.1.0']
_TZ = [None]


def posix_tz_abbrs(tz):
    """'CET-1CEST,M3.5.0,M10.5.0/3' -> {'CET': 3600, 'CEST': 7200} (seconds EAST of UTC; POSIX signs are west-positive)."""
    import re
    m = re.match(r'^([A-Za-z]{3,})([+-]?[0-9]{1,2}(?::[0-9]{2})?)?(?:([A-Za-z]{3,})([+-]?[0-9]{1,2}(?::[0-9]{2})?)?)?', tz.split(',')[0])

    def secs(txt):
        sign = -1 if txt.startswith('-') else 1
        hh, _, mm = txt.lstrip('+-').partition(':')
        return sign * (int(hh) * 3600 + int(mm or 0) * 60)
    std_west = secs(m.group(2)) if m.group(2) else 0
    out = {m.group(1).upper(): -std_west}
    if m.group(3):
        out[m.group(3).upper()] = -(secs(m.group(4)) if m.group(4) else std_west - 3600)
    return out


ZONE_OFFSETS = {}
for _z in TZS:
    ZONE_OFFSETS.update(posix_tz_abbrs(_z))
NOW_YEAR = time.gmtime().tm_year        # only for the 50-year rule of two-digit years (RFC 9110 5.6.7)


def set_tz(tz):
    if tz is not None and _TZ[0] != tz:
        os.environ['TZ'] = tz
        time.tzset()
        _TZ[0] = tz


# ---------------------------------------------------------------------------- the world

class World:
    """A scratch tree with known bytes + falcon apps (WSGI and ASGI) with the same static routes."""

    def __init__(self, tree_seed=0):
        self.root = os.path.realpath(tempfile.mkdtemp(prefix='c16-'))
        self.files = {}          # abs path -> [bytes, mtime]
        self._n = 0
        self._rng = random.Random(0xC16)      # fixed part of the tree is independent of VERIF_SEED
        self.tree_seed = tree_seed            # recorded in every witness so that replay rebuilds the same tree
        self.build_tree()
        self.random_files(random.Random(0xC16 ^ (tree_seed * 2654435761 & 0xFFFFFFFF)))
        self.build_apps()

    def close(self):
        shutil.rmtree(self.root, ignore_errors=True)

    # -- files
    def put(self, rel, size=None, data=None, mtime=None):
        path = os.path.join(self.root, rel)
        os.makedirs(os.path.dirname(path), exist_ok=True)
        if data is None:
            if size is None:
                size = self._rng.randint(24, 60)
            tag = (rel + '|').encode('utf-8')
            data = (tag + bytes(self._rng.randrange(256) for _ in range(max(size - len(tag), 0))))[:size] \
                if size >= len(tag) + 8 else bytes((0x41 + self._n * 11 + i * 7) % 256 for i in range(size))
        if mtime is None:
            mtime = 1_600_000_000 + self._n * 3600 + (0, 0.25, 0.5, 0.7)[self._n % 4]
        self._n += 1
        self.write(path, data, mtime)
        return path

    def write(self, path, data, mtime):
        with open(path, 'wb') as f:
            f.write(data)
        os.utime(path, (mtime, mtime))
        self.files[path] = [data, os.stat(path).st_mtime]

    def build_tree(self):
        p = self.put
        # the served directory
        for rel in ['index.html', 'a.txt', 'b.css', 'data.json', 'noext', 'UPPER.TXT', '.hidden',
                    '.ssh/authorized_keys', 'sp ace.txt', '\u00fcn\u00ef.txt', 'a..b', 'trail.', 'til~de',
                    'semi;colon', 'plus+sign', 'per%cent', 'back\\slash', '..hidden', '...', 'del\x7fete',
                    'sub/inner.txt', 'sub/deep/x.bin', 'sub/a.txt', 'nest/a.txt', 'nest/inner.txt',
                    'secret/s.txt', 'X/a.txt', 'L' * 200 + '.txt',
                    'd' * 250 + '/' + 'e' * 250 + '/' + 'x' * 10, 'd' * 250 + '/' + 'e' * 250 + '/' + 'y' * 11]:
            p('srv/' + rel)
        for s in range(0, 9):
            p('srv/f%d' % s, size=s)
        p('srv/big.bin', size=20000)
        for k in range(3):
            p('srv/mut/m%d.bin' % k, size=10 + k)
        # outside: sentinel, same names as inside, a sibling whose name extends the served one
        for rel in ['outside_secret.txt', 'a.txt', 'index.html', 'srv-secret/s.txt', 'srv-secret/a.txt',
                    'srvx/a.txt', 'srv2/a.txt', 'srv2/inner.txt', 'srv2/only2.txt', 'other/fb.html',
                    'sub/inner.txt', 'inner.txt', 'x.bin', 'f3']:
            p(rel)
        self.srv = os.path.join(self.root, 'srv')
        self.outside = [f for f in self.files if not f.startswith(self.srv + os.sep)]
        # one directory per registration of a history app: the same names everywhere, different bytes
        for k in range(LIFO_DIRS):
            for rel in ('x.txt', 'a/x.txt', 'a/b/x.txt', 'b/x.txt', 'a/b/c/x.txt'):
                p('lifo/d%d/%s' % (k, rel))

    NAME_CHARS = list('abcXYZ019-_') * 3 + list('. ~;+%&=,!@#$()[]{}^`\'"<>:*|?\\') + \
        ['\u00e9', '\u00fc', '\u20ac', '\U0001F600', '\x7f', '\x1f', '\t', '\uff0e', '\u00a0']

    def random_files(self, rng):
        """Legal-but-unusual POSIX names (anything except '/' and NUL), nested up to 3 deep."""
        made = 0
        while made < 40:
            parts = []
            for _ in range(rng.choice([1, 1, 2, 3])):
                if rng.random() < 0.4:
                    seg = ''.join(rng.choice('abcdXYZ0189_-') for _ in range(rng.randint(1, 9)))
                    if rng.random() < 0.6:
                        seg += '.' + rng.choice(['txt', 'css', 'js', 'PNG', 'x1'])
                else:
                    seg = ''.join(rng.choice(self.NAME_CHARS) for _ in range(rng.randint(1, 12)))
                parts.append(seg)
            if any(seg in ('.', '..') or len(seg.encode('utf-8')) > 200 for seg in parts):
                continue
            rel = 'srv/r/' + '/'.join(parts)
            path = os.path.join(self.root, rel)
            # a name may not be both a file and a directory
            if path in self.files or any(f.startswith(path + os.sep) for f in self.files) or \
                    any(os.path.join(self.root, 'srv/r', *parts[:i]) in self.files for i in range(1, len(parts))):
                continue
            self.put(rel, size=rng.choice([0, 1, 3, 30, 45, 70]))
            made += 1

    # -- apps
    def build_apps(self):
        srv, root = self.srv, self.root
        J = os.path.join
        # (name, prefix as given, directory as given, kwargs, model directory, model fallback)
        spec = [
            ('static', '/static', srv, {}, srv, None),
            ('dl', '/dl/', srv + '/', {'downloadable': True}, srv, None),
            ('fb', '/fb', srv, {'fallback_filename': 'index.html'}, srv, J(srv, 'index.html')),
            ('fbabs', '/fbabs/v1', Path(srv), {'fallback_filename': J(root, 'other', 'fb.html'),
                                               'downloadable': True}, srv, J(root, 'other', 'fb.html')),
            ('nest', '/static/nest', J(root, 'srv2'), {}, J(root, 'srv2'), None),           # LIFO over 'static'
            ('p', '/p/', J(srv, 'sub', '..'), {}, srv, None),                             # not normalised
            ('subonly', '/subonly', J(srv, 'sub'), {'fallback_filename': 'inner.txt'}, J(srv, 'sub'),
             J(srv, 'sub', 'inner.txt')),
        ]
        self.routes = {'main': [], 'root': [], 'strip': []}
        self.wsgi = {'main': falcon.App(), 'root': falcon.App(), 'strip': falcon.App()}
        self.asgi = {'main': falcon.asgi.App(), 'root': falcon.asgi.App(), 'strip': falcon.asgi.App()}
        for app in (self.wsgi['strip'], self.asgi['strip']):
            app.req_options.strip_url_path_trailing_slash = True
        for i, (name, prefix, directory, kw, mdir, mfb) in enumerate(spec):
            if i == 4:
                # the remaining routes are registered on apps that have already served requests
                for fw in ('wsgi', 'asgi'):
                    for tail in ('a.txt', 'nest/a.txt', 'nope'):
                        execute(self, {'fw': fw, 'app': 'main', 'method': 'GET', 'raw_path': '/static/' + tail,
                                       'headers': [], 'fwrap': False})
            self.wsgi['main'].add_static_route(prefix, directory, **kw)
            self.asgi['main'].add_static_route(prefix, directory, **kw)
            self.routes['main'].append(M.Route(name, prefix, mdir, mfb, kw.get('downloadable', False)))
        self.wsgi['root'].add_static_route('/', srv)
        self.asgi['root'].add_static_route('/', srv)
        self.routes['root'].append(M.Route('rootapp', '/', srv, None, False))
        # same directory behind an app that strips one trailing slash from the path (request option)
        for name, prefix, kw, mfb in (('sstatic', '/static', {}, None),
                                      ('sfb', '/fb/', {'fallback_filename': 'index.html'}, J(srv, 'index.html'))):
            self.wsgi['strip'].add_static_route(prefix, srv, **kw)
            self.asgi['strip'].add_static_route(prefix, srv, **kw)
            self.routes['strip'].append(M.Route(name, prefix, srv, mfb, False))
        # argument types: str subclasses, a truthy non-bool flag
        for app in (self.wsgi['strip'], self.asgi['strip']):
            app.add_static_route(OddStr('/typed'), OddStr(srv), downloadable=1, fallback_filename=OddStr('index.html'))
        self.routes['strip'].append(M.Route('typed', '/typed', srv, J(srv, 'index.html'), True))
        self.by_name = {r.name: (a, r) for a in self.routes for r in self.routes[a]}


# ---------------------------------------------------------------------------- registration histories

LIFO_DIRS = 6
LIFO_PREFIXES = ['/o', '/o/a', '/o/a/b']
LIFO_PROBES = ['/o/x.txt', '/o/a/x.txt', '/o/a/b/x.txt']


def hist_name(history):
    """history: list of [prefix as given, directory index, fallback flag], in registration order."""
    return 'H:' + json.dumps(history, separators=(',', ':'))


def ensure_hist(world, name):
    """Build (once) the WSGI and ASGI apps of a registration history: the k-th add_static_route() call serves
    directory lifo/d<k'>; between two registrations the app answers requests.  The same procedure runs in replay."""
    if name in world.routes:
        return
    history = json.loads(name[2:])
    w, a, routes = falcon.App(), falcon.asgi.App(), []
    world.wsgi[name], world.asgi[name], world.routes[name] = w, a, routes
    for k, (prefix, di, fb) in enumerate(history):
        d = os.path.join(world.root, 'lifo', 'd%d' % di)
        kw = {'fallback_filename': 'x.txt'} if fb else {}
        w.add_static_route(prefix, d, **kw)
        a.add_static_route(prefix, d, **kw)
        routes.append(M.Route('h%d' % k, prefix, d, os.path.join(d, 'x.txt') if fb else None, False))
        if k < len(history) - 1:
            for fw in ('wsgi', 'asgi'):
                for pth in LIFO_PROBES:
                    _execute(world, {'fw': fw, 'app': name, 'method': 'GET', 'raw_path': pth, 'headers': []},
                             pth.encode(), [])


def lifo_histories(rec):
    """Every sequence of 2..N registrations over three nested prefixes (so prefixes get re-registered, with and
    without the trailing slash, with other registrations in between); each registration has its own directory."""
    maxlen = 4 if rec.tier == 'quick' else 5
    idx = 0
    for n in range(2, maxlen + 1):
        for seq in itertools.product(range(len(LIFO_PREFIXES)), repeat=n):
            idx += 1
            yield idx, [[LIFO_PREFIXES[pi] + ('/' if (k + idx) % 2 else ''), k, bool(idx % 5 == 0 and k == n - 1)]
                        for k, pi in enumerate(seq)]


def lifo_cases(rec, world):
    for idx, history in lifo_histories(rec):
        if idx % rec.nshards != rec.shard:
            continue
        name = hist_name(history)
        for tail in ('/x.txt', '', '/zz.txt', '/../x.txt', '/b/x.txt'):
            for pre in LIFO_PREFIXES:
                for fw in ('wsgi', 'asgi'):
                    run_case(rec, world, {'fw': fw, 'app': name, 'method': 'GET', 'raw_path': pre + tail, 'headers': [],
                                          'fwrap': False, 'tz': _TZ[0]})
        rec.count('exh.lifo_histories')
        rec.seen('lifo_history', name)
        # the apps of a finished history are dropped (thousands of them in the thorough tier)
        for table in (world.wsgi, world.asgi, world.routes):
            table.pop(name, None)


# ---------------------------------------------------------------------------- one request

def hdr(res, name):
    v = res.header(name)
    if isinstance(v, bytes):
        v = v.decode('latin-1')
    return v


def execute(world, case):
    """Run one request against the real app with the open monitor armed."""
    raw = case['raw_path'].replace(ROOT_TOKEN, world.root).encode('utf-8')
    headers = [tuple(h) for h in case.get('headers', [])]
    if case['app'].startswith('H:'):
        ensure_hist(world, case['app'])
    if case.get('wfilter'):
        # the embedding process may run with warnings turned into errors (-W error / PYTHONWARNINGS)
        with warnings.catch_warnings():
            warnings.simplefilter(case['wfilter'])
            # handles left to the garbage collector are outside the statement (see fd_diagnostic); turned into
            # errors they would only be printed by the interpreter as unraisable exceptions
            warnings.simplefilter('ignore', ResourceWarning)
            return _execute(world, case, raw, headers)
    return _execute(world, case, raw, headers)


def _execute(world, case, raw, headers):
    au = audit()
    set_tz(case.get('tz'))
    if case['fw'] == 'wsgi':
        env = W.make_environ(case['method'], raw, '', headers=headers, file_wrapper=False)
        wrapper = FWRAPS[case.get('fwrap', False)]
        if wrapper is not None:
            env['wsgi.file_wrapper'] = wrapper
        au.arm()
        try:
            res = W.run_wsgi(world.wsgi[case['app']], env)
        finally:
            opens = au.disarm()
    else:
        scope = A.make_scope(case['method'], raw, '', headers=headers)
        au.arm()
        try:
            res = A.run_asgi_http(world.asgi[case['app']], scope)
        finally:
            opens = au.disarm()
    return raw, res, opens


def judge(rec, world, case, raw, res, opens):
    """Compare one observed response + open events with the decision table. Returns the number
    of violations reported."""
    out = []

    def bad(kind, **kw):
        w = dict(case)
        for k, v in kw.items():
            w[k] = v.replace(world.root, ROOT_TOKEN) if isinstance(v, str) else v
        w['tree_seed'] = world.tree_seed
        w['status'] = res.status
        w['body_head'] = res.body[:48]
        out.append(kind)
        rec.violation(kind, w, known_key=kw.get('known_key'))

    method = case['method']
    path = M.decoded_path(raw)
    if case['app'] == 'strip' and len(path) != 1 and path.endswith('/'):
        path = path[:-1]            # documented effect of req_options.strip_url_path_trailing_slash
    route = M.select(world.routes[case['app']], path)
    rec.count('fw.' + case['fw'])
    if case['fw'] == 'wsgi':
        rec.count('fwrap.%s' % case.get('fwrap', False))
    rec.count('tz.' + str(_TZ[0]))

    # ---- file-open monitor
    rec.count('mon.audit_requests')
    real_opens = []
    for p, mode in opens:
        if isinstance(p, int):
            continue
        try:
            rp = os.path.realpath(os.fsdecode(p))
        except Exception:  # noqa
            rp = None
        if rp is not None and _is_import_noise(rp):
            rec.count('audit.import_noise')
            continue
        real_opens.append((p, rp))
        rec.count('mon.open_events')
        if route is None:
            bad('open-without-route', opened=repr(p))
        elif rp is None or not (rp == route.directory or rp.startswith(route.directory + os.sep)
                                or rp == route.fallback):
            bad('open-outside-directory', opened=repr(p), resolved=rp, route=route.name)
        elif rp == route.fallback:
            rec.count('open.fallback')
        else:
            rec.count('open.inside')

    # ---- the response exists at all
    if getattr(res, 'exc', None) is not None or res.status is None or \
            (case['fw'] == 'asgi' and res.outcome != 'done'):
        bad('request-raised', exc=repr(getattr(res, 'exc', None)), outcome=getattr(res, 'outcome', None))
        return out
    status, body = res.status, res.body

    if route is None:
        rec.count('route.none')
        if status != 404:
            bad('served-without-route', path=path)
        else:
            rec.count('mon.404_noroute')
        return out
    rec.count('route.' + route.name)

    if method == 'OPTIONS':
        rec.count('mon.options')
        if status >= 500:
            bad('options-5xx')
        return out

    rest = route.rest(path)
    cls, segs = M.classify(rest)
    rec.count('cls.' + cls)
    target = os.path.join(route.directory, *segs) if segs else None
    tfile = world.files.get(target) if target else None

    rng_v = ims_v = None
    for k, v in case.get('headers', []):
        if k.lower() == 'range':
            rng_v = v
        elif k.lower() == 'if-modified-since':
            ims_v = v
    rng = M.parse_range(rng_v)
    ims_epoch = M.parse_imf_fixdate(ims_v)
    ims_lenient = ims_v is not None and ims_epoch is None
    safe_method = method in ('GET', 'HEAD')
    if not safe_method:
        ims_lenient = ims_lenient or ims_v is not None
    lenient = ims_lenient or rng[0] == 'lenient'

    # ---- spellings that must be refused
    if cls == 'escape' or cls.startswith('refused'):
        if status != 404:
            bad('hostile-spelling-not-404', cls=cls, route=route.name)
        else:
            rec.count('mon.404_strict')
        return out

    if status == 404:
        rec.count('mon.404')
        if cls == 'plain' and tfile is not None:
            bad('plain-file-not-served', route=route.name)
        elif (cls == 'plain' or rest == '') and tfile is None and route.fallback is not None:
            bad('fallback-not-served', route=route.name)
        return out

    if status == 405 and not safe_method:
        return out
    if status == 400:
        if lenient:
            rec.count('mon.400_lenient')
        else:
            bad('unexpected-400', route=route.name)
        return out
    if status not in (200, 206, 304, 416):
        bad('unexpected-status', route=route.name)
        return out

    # ---- which file is being served
    if tfile is not None:
        fpath, (content, mtime) = target, tfile
        rec.count('served.target')
    elif route.fallback is not None:
        fpath, (content, mtime) = route.fallback, world.files[route.fallback]
        rec.count('served.fallback')
    else:
        bad('served-but-no-such-file', route=route.name, cls=cls)
        return out
    size = len(content)
    cl = hdr(res, 'content-length')
    cr = M.parse_content_range(hdr(res, 'content-range'))
    want_body = (lambda b: b'') if method == 'HEAD' else (lambda b: b)

    # ---- conditional request
    nm = safe_method and ims_epoch is not None and M.not_modified(mtime, ims_epoch)
    if nm:
        rec.count('mon.ims_not_modified')
        if status != 304:
            bad('not-modified-but-not-304', file=_rel(world, fpath), mtime=mtime)
        elif body != b'':
            bad('304-with-body', file=_rel(world, fpath))
        else:
            rec.count('mon.304')
        return out
    if status == 304:
        # only values outside the fixed class get here with a 304; whatever tolerance the recipient shows,
        # the date it acts on must be an instant the value can be taken to state, and the file must not be newer
        readings = M.ims_readings(ims_v, ZONE_OFFSETS, NOW_YEAR)
        if body != b'':
            bad('304-with-body', file=_rel(world, fpath))
        elif not ims_lenient:
            bad('304-but-modified', file=_rel(world, fpath), mtime=mtime)
        elif not readings:
            bad('304-for-unreadable-date', file=_rel(world, fpath), mtime=mtime)
        elif not any(M.not_modified(mtime, r) for r in readings):
            bad('304-but-modified', file=_rel(world, fpath), mtime=mtime, readings=sorted(readings))
        else:
            rec.count('mon.304_lenient')
        return out
    if ims_lenient and M.ims_readings(ims_v, ZONE_OFFSETS, NOW_YEAR):
        rec.count('mon.ims_lenient_readable_not_304')
    if ims_epoch is not None:
        rec.count('mon.ims_modified')

    # ---- range arithmetic
    def full():
        if status != 200:
            bad('expected-200-full', file=_rel(world, fpath), size=size)
        elif body != want_body(content):
            bad('body-differs-from-file', file=_rel(world, fpath), size=size, body_len=len(body))
        elif cl is not None and cl != str(size):
            bad('content-length-mismatch', file=_rel(world, fpath), size=size, content_length=cl)
        else:
            rec.count('mon.body_full')
            if size > 8192:
                rec.count('mon.body_full_multiblock')

    def partial(a, b):
        if status != 206:
            bad('satisfiable-range-not-206', file=_rel(world, fpath), size=size, want=[a, b])
        elif cr != ('range', a, b, size):
            bad('content-range-mismatch', file=_rel(world, fpath), size=size, want=[a, b],
                content_range=hdr(res, 'content-range'))
        elif cl != str(b - a + 1):
            bad('content-length-mismatch', file=_rel(world, fpath), size=size, want=[a, b], content_length=cl)
        elif body != want_body(content[a:b + 1]):
            bad('range-body-differs-from-slice', file=_rel(world, fpath), size=size, want=[a, b],
                body_len=len(body))
        else:
            rec.count('mon.body_partial')

    def unsat():
        if status != 416:
            bad('unsatisfiable-range-not-416', file=_rel(world, fpath), size=size)
        elif cr != ('unsat', size):
            bad('416-without-file-size', file=_rel(world, fpath), size=size,
                content_range=hdr(res, 'content-range'))
        else:
            rec.count('mon.416')

    kind = rng[0]
    rec.count('range.' + kind)
    if kind in ('none', 'ignorable'):
        full()
    elif kind in ('first', 'suffix'):
        oc = M.range_outcome(rng, size)
        rec.count('range.outcome.' + oc[0])
        if oc[0] == 'partial':
            partial(oc[1], oc[2])
        elif oc[0] == 'unsat':
            unsat()
        else:                       # zero-length file: 200 (empty) or 416 are both RFC-conformant
            if status == 416:
                unsat()
            else:
                full()
    else:                           # outcome not fixed by the statement: demand self-consistency only
        if status == 200:
            full()
        elif status == 416:
            unsat()
        elif cr is not None and cr[0] == 'range' and cr[1] <= cr[2] < size and cr[3] == size:
            partial(cr[1], cr[2])
        else:
            bad('inconsistent-206', file=_rel(world, fpath), size=size, content_range=hdr(res, 'content-range'))
        rec.count('mon.range_lenient')
    return out


def _rel(world, p):
    return os.path.relpath(p, world.root)


def nontrivial_key(case):
    return (case['fw'], case['app'], case['method'], case['raw_path'], tuple(map(tuple, case.get('headers', []))),
            case.get('fwrap', False), case.get('tz'), case.get('wfilter'))


def run_case(rec, world, case):
    if case.get('wfilter'):
        rec.count('env.warnings_' + case['wfilter'])
    raw, res, opens = execute(world, case)
    out = judge(rec, world, case, raw, res, opens)
    rec.case(nontrivial_key(case))
    return out, res


def canary(rec, world):
    """Prove the open monitor is live: an open made by the harness itself must be recorded."""
    au = audit()
    au.arm()
    with open(world.outside[0], 'rb') as f:
        f.read(1)
    ev = au.disarm()
    if any(os.fsdecode(p) == world.outside[0] for p, _ in ev if not isinstance(p, int)):
        rec.count('audit.canary_ok')
    else:
        rec.mark_inconclusive('open monitor did not see the canary open')


# ---------------------------------------------------------------------------- generators

def seg_alphabet(world):
    r = world.root.lstrip('/')
    return ['..', '.', '', 'sub', 'a.txt', 'inner.txt', 'nest', 'deep', '%2e%2e', '.%2E', '%2f', '..%2f..',
            '%5c', '..%5c..', '...', '%00', '~', 'srv-secret', r + '/srv-secret/s.txt',
            'x.bin', 'X']


ROUTE_PAIRS = [('static', 'fb'), ('dl', 'fbabs'), ('p', 'subonly'), ('rootapp', 'nest'), ('sstatic', 'sfb'),
               ('typed', 'static')]
PREFIX = {'static': '/static/', 'dl': '/dl/', 'fb': '/fb/', 'fbabs': '/fbabs/v1/', 'nest': '/static/nest/',
          'p': '/p/', 'subonly': '/subonly/', 'rootapp': '/', 'sstatic': '/static/', 'sfb': '/fb/',
          'typed': '/typed/'}


_MK = [0]


def mk(world, route_name, tail, fw, method='GET', headers=(), fwrap=False):
    app, _ = world.by_name[route_name]
    raw = (PREFIX[route_name] + tail).replace(world.root, ROOT_TOKEN)
    _MK[0] += 1
    return {'fw': fw, 'app': app, 'method': method, 'raw_path': raw, 'headers': [list(h) for h in headers],
            'fwrap': fwrap, 'tz': _TZ[0], 'wfilter': 'error' if _MK[0] % 5 == 0 else None}


def exhaustive_paths(rec, world):
    alpha = seg_alphabet(world)
    maxlen = 3 if rec.tier == 'quick' else 4
    idx = 0
    for L in range(1, maxlen + 1):
        for tup in itertools.product(alpha, repeat=L):
            idx += 1
            if idx % rec.nshards != rec.shard:
                continue
            tail = '/'.join(tup)
            pair = ROUTE_PAIRS[(idx // rec.nshards) % len(ROUTE_PAIRS)]
            for j, rn in enumerate(pair):
                # both frameworks see every path, through one route of the pair each (alternating)
                run_case(rec, world, mk(world, rn, tail, ('wsgi', 'asgi')[(idx // rec.nshards + j) % 2]))
            rec.count('exh.paths')
            if idx % 4001 == 0:
                rec.sample({'path': PREFIX[pair[0]] + tail.replace(world.root, ROOT_TOKEN)})
    return idx


def targeted_paths(world):
    """Near-miss prefixes, absolute-path injection, traversal to every outside file, look-alikes."""
    root = world.root
    out = []
    # requests that are under no prefix at all
    for p in ['/static', '/stati', '/staticX', '/staticXa.txt', '/static-secret/s.txt', '/static.a.txt',
              '/statica.txt', '/staticsub/inner.txt', '/dl', '/dla.txt', '/fbx', '/fba.txt',
              '/fbabs/v1', '/fbabs/v10/a.txt', '/fbabs/v1a.txt', '/fbabs/a.txt', '/p', '/pa.txt', '/subonlyinner.txt',
              '/Static/a.txt', '/STATIC/a.txt', '/a.txt', '/', '/srv/a.txt', '/static\\a.txt', '/static%5Ca.txt',
              '/static%00/a.txt', '/static /a.txt', '//static/a.txt', '/./static/a.txt', '/x/../static/a.txt']:
        out.append(('main', p))
    # bare prefixes of fallback routes are answered by the fallback
    for p in ['/fb', '/fb/', '/subonly', '/subonly/', '/static/', '/dl/', '/static/nest', '/static/nest/']:
        out.append(('main', p))
    # long spellings made of segments that normalise away (lengths around 255 / 512 / 1024 / PATH_MAX and beyond)
    for rn in ('static', 'fb', 'rootapp', 'sstatic', 'subonly'):
        pre = PREFIX[rn]
        app = world.by_name[rn][0]
        for name in ('a.txt', 'sub/inner.txt', 'missing.txt', '../outside_secret.txt') + \
                (('d' * 250 + '/' + 'e' * 250 + '/' + 'x' * 10,) if rn == 'static' else ()):
            for n in (100, 253, 254, 255, 256, 300, 509, 510, 1024, 2040, 2046, 2047, 2048, 2049, 2100, 3000, 6000):
                out.append((app, pre + './' * n + name))
                out.append((app, pre + name + '/.' * n))
            for n in (50, 102, 103, 150, 600, 818, 819, 820, 900, 2000):
                out.append((app, pre + 'sub/../' * n + name))
                out.append((app, pre + 'X/../' * n + name))
                out.append((app, pre + 'nosuch/../' * (n // 2) + name))
            for n in (200, 511, 512, 513, 4095, 4096, 4097, 10000):
                out.append((app, pre + 'A' * n))
                out.append((app, pre + 'A' * n + '/../' + name))
                out.append((app, pre + ('B' * 100 + '/') * (n // 101) + '../' * (n // 101) + name))
    # an app that strips a trailing slash before routing
    for p in ['/static', '/static/', '/static//', '/fb', '/fb/', '/fb//', '/static/sub/', '/fb/sub/', '/static/a.txt/',
              '/fb/a.txt/', '/fb/missing/', '/static/../', '/fb/../', '/static/sub/../', '/fb/sub/..//', '/static/..%2f',
              '/fbx/', '/staticX/', '/static/a.txt//', '/static/f5/.', '/fb/.', '/static/\\/', '/', '/fb/%2f']:
        out.append(('strip', p))
    outside_rel = [os.path.relpath(f, world.srv) for f in world.outside]      # '../a.txt', '../srv-secret/s.txt', ...
    for rn, pre in PREFIX.items():
        app = world.by_name[rn][0]
        base_depth = 1 if rn == 'subonly' else 0
        for rel in outside_rel:
            rel2 = ('../' * base_depth) + rel
            for variant in (rel2, 'sub/../' + rel2, './' + rel2, rel2.replace('../', '..%2f'),
                            rel2.replace('..', '%2e%2e'), rel2.replace('..', '.%2e'), rel2.replace('/', '%2F'),
                            rel2.replace('/', '\\'), rel2.replace('/', '%5c'), rel2.replace('../', '....//'),
                            rel2.replace('../', '..././'), rel2.replace('../', '..;/'), rel2.replace('..', '%252e%252e'),
                            rel2.replace('../', '%c0%ae%c0%ae/'), rel2.replace('../', '\uff0e\uff0e/'),
                            rel2.replace('/', '\uff0f'), rel2.replace('/', '\u2215'), rel2.replace('../', '.. /'),
                            rel2.replace('../', '..%00/'), rel2.replace('../', '..%20/'), rel2 + '%00.txt',
                            'a.txt/../' + rel2, 'nonexistent/../' + rel2, rel2 + '/', rel2 + '/.', rel2 + '.',
                            rel2 + '%20'):
                out.append((app, pre + variant))
        # absolute paths behind the prefix
        for f in world.outside[:6] + [os.path.join(world.srv, 'a.txt'), '/etc/passwd', '/etc/hostname']:
            out.append((app, pre + f))                     # '/static//tmp/...'
            out.append((app, pre.rstrip('/') + f))         # '/static/tmp/...'  (relative, harmless)
            out.append((app, pre + f.replace('/', '%2f')))
            out.append((app, pre + '/' + f))
            out.append((app, pre + 'sub/..' + f))
            out.append((app, pre + 'file://' + f))
            out.append((app, pre + 'C:' + f.replace('/', '\\')))
        out.append((app, pre + '..'))
        out.append((app, pre + '../'))
        out.append((app, pre + '.'))
        out.append((app, pre + 'sub/..'))
        out.append((app, pre + 'sub/../..'))
        out.append((app, pre + '~root/.ssh/id_rsa'))
        out.append((app, pre + '~'))
        # every file inside, spelled plainly and percent-encoded
        for f in sorted(world.files):
            if f.startswith(world.srv + os.sep):
                rel = os.path.relpath(f, world.srv)
                enc = ''.join('%%%02X' % b for b in rel.encode('utf-8'))
                enc_keep_slash = '/'.join(''.join('%%%02x' % b for b in s.encode('utf-8')) for s in rel.split('/'))
                safe = ''.join(ch if (ch.isalnum() and ch.isascii()) or ch in '-._/' else
                               ''.join('%%%02X' % b for b in ch.encode('utf-8')) for ch in rel)
                out.extend([(app, pre + safe), (app, pre + enc), (app, pre + enc_keep_slash)])
    return [(a, p.replace(root, ROOT_TOKEN)) for a, p in out]


RANGE_MALFORMED = ['bytes', 'bytes=', 'bytes=-', 'bytes=--1', 'bytes=0--1', 'bytes=1-0', 'bytes=0-0,2-2', 'bytes=0-1,',
                   'bytes=a-b', 'bytes=0x1-2', 'bytes= 0-1', 'bytes=0 -1', 'bytes=0- 1', 'bytes=+0-1', 'bytes=0-+1',
                   'bytes=1_0-', 'bytes=-0', 'bytes=-00', 'bytes=0', 'bytes=0-1-2', 'bytes=-1-', 'bytes=\xb2-', 'bytes=0.0-1',
                   'bytes=1e0-', 'Bytes=0-1', 'BYTES=0-', 'bytes =0-1', ' bytes=0-1', 'bytes==0-1', 'bytes:0-1', '0-1', '=0-1',
                   'bytes=0-1;q=1', 'bytes=*-1', 'bytes=0-*', 'bytes=' + '9' * 30 + '-', 'bytes=0-' + '9' * 30,
                   'bytes=-' + '9' * 30, 'bytes=' + '0' * 25 + '1-' + '0' * 25 + '2', '', '-']
RANGE_OTHER_UNITS = ['items=0-1', 'seconds=1-2', 'none=0-0', 'x-y=1-', 'bytess=0-1', 'byte=0-1']


WSGI_ASGI_VARIANTS = [('wsgi', k) for k in FWRAP_KEYS] + [('asgi', False)]


# RFC 7233 3.1: a Range in a unit the server does not understand MUST be ignored, whatever its range-set looks like
FOREIGN_UNITS = ['items', 'seconds', 'pages', 'chapters', 'lines', 'none', 'x-y', 'bytess', 'byte', 'b', 'a.b', '!#$%']
FOREIGN_SETS = ['0-1', '1-', '-1', '0-0', '1-2,4-5', '0-0,-1', '1.5-3.25', 'iv-ix', '3', '10-5', 'a', '-', '--', '0-0,', '*',
                'x=y', '1-2-3', '0x10-0x20', '-0', '9' * 30, 'last', '1:2', '[1,2]', '%31-%32']
RANGE_FOREIGN = ['%s=%s' % (u, r) for u in FOREIGN_UNITS for r in FOREIGN_SETS]


def range_cases(rec, world):
    """Bounded-exhaustive range arithmetic: every (size, first, last) and suffix length."""
    smax = 6 if rec.tier == 'quick' else 8
    vals = []
    for a in range(0, 9):
        vals.append('bytes=%d-' % a)
        for b in range(0, 9):
            vals.append('bytes=%d-%d' % (a, b))
    for n in range(0, 9):
        vals.append('bytes=-%d' % n)
    idx = 0
    for s in range(0, smax + 1):
        for v in vals + RANGE_MALFORMED + RANGE_OTHER_UNITS:
            for fw, fwrap in WSGI_ASGI_VARIANTS:
                idx += 1
                if idx % rec.nshards != rec.shard:
                    continue
                method = 'HEAD' if idx % 7 == 0 else 'GET'
                rn = ('static', 'dl', 'fb', 'p')[idx % 4]
                run_case(rec, world, mk(world, rn, 'f%d' % s, fw, method, [('Range', v)], fwrap))
                rec.count('exh.range')
    # every foreign unit with every shape of range-set, on an empty, a one-byte and a longer file
    for s_ in (0, 1, 5):
        for v in RANGE_FOREIGN:
            for fw, fwrap in (('wsgi', False), ('asgi', False), ('wsgi', 'fd')):
                idx += 1
                if idx % rec.nshards != rec.shard:
                    continue
                rn = ('static', 'dl', 'fb', 'sstatic', 'missing')[idx % 5]
                name = 'f%d' % s_
                if rn == 'missing':
                    rn, name = 'fb', 'missing.txt'
                run_case(rec, world, mk(world, rn, name, fw, 'HEAD' if idx % 11 == 0 else 'GET', [('Range', v)], fwrap))
                rec.count('exh.range_foreign')
    # block boundaries of the streaming code on a multi-block file
    edges = [0, 1, 8191, 8192, 8193, 16383, 16384, 16385, 19998, 19999, 20000, 20001]
    for a in edges:
        for b in edges + [None]:
            for fw, fwrap in WSGI_ASGI_VARIANTS:
                idx += 1
                if idx % rec.nshards != rec.shard:
                    continue
                v = 'bytes=%d-%s' % (a, '' if b is None else b)
                run_case(rec, world, mk(world, 'static', 'big.bin', fw, 'GET', [('Range', v)], fwrap))
                rec.count('exh.range_big')
    for n in edges:
        for fw, fwrap in WSGI_ASGI_VARIANTS:
            idx += 1
            if idx % rec.nshards != rec.shard:
                continue
            run_case(rec, world, mk(world, 'static', 'big.bin', fw, 'GET', [('Range', 'bytes=-%d' % n)], fwrap))
    # whole files (no Range) through every server-side variant, every size
    for name in ['f%d' % k for k in range(9)] + ['big.bin', 'a.txt', 'missing.txt']:
        for rn in ('static', 'fb', 'dl', 'sfb'):
            for method in ('GET', 'HEAD'):
                for fw, fwrap in WSGI_ASGI_VARIANTS:
                    idx += 1
                    if idx % rec.nshards != rec.shard:
                        continue
                    run_case(rec, world, mk(world, rn, name, fw, method, [], fwrap))
    # fallback file served for a missing name, with ranges
    for v in ['bytes=0-0', 'bytes=-1', 'bytes=5-', 'bytes=999-', 'bytes=0-999']:
        for rn in ('fb', 'fbabs', 'subonly'):
            for fw, fwrap in WSGI_ASGI_VARIANTS:
                idx += 1
                if idx % rec.nshards != rec.shard:
                    continue
                run_case(rec, world, mk(world, rn, 'missing.txt', fw, 'GET', [('Range', v)], fwrap))


def ims_values(mtime):
    t = int(mtime // 1)
    vals = [M.imf_fixdate(t + d) for d in (-86400, -43200, -7200, -3600, -1800, -2, -1, 0, 1, 2, 1800, 3600, 7200, 43200,
                                           86400)]
    import time as _t
    g = _t.gmtime(t)
    vals += [
        _t.strftime('%A, %d-%b-%y %H:%M:%S GMT', g),          # RFC 850 (obsolete, lenient)
        _t.strftime('%a %b %d %H:%M:%S %Y', g),               # asctime (obsolete, lenient)
        M.imf_fixdate(t).replace('GMT', 'UTC'), M.imf_fixdate(t).lower(), 'yesterday', '', '0',
        M.imf_fixdate(t)[5:], M.imf_fixdate(t) + ' ', 'Xxx' + M.imf_fixdate(t)[3:],
    ]
    return vals


_MON = ['Jan', 'Feb', 'Mar', 'Apr', 'May', 'Jun', 'Jul', 'Aug', 'Sep', 'Oct', 'Nov', 'Dec']
_DAY = ['Monday', 'Tuesday', 'Wednesday', 'Thursday', 'Friday', 'Saturday', 'Sunday']


def _wall(epoch):
    return time.gmtime(epoch)


def fmt_imf(epoch, zone):
    g = _wall(epoch)
    return '%s, %02d %s %04d %02d:%02d:%02d%s' % (_DAY[g.tm_wday][:3], g.tm_mday, _MON[g.tm_mon - 1], g.tm_year, g.tm_hour,
                                                   g.tm_min, g.tm_sec, (' ' + zone) if zone else '')


def fmt_850(epoch, zone='GMT'):
    g = _wall(epoch)
    return '%s, %02d-%s-%02d %02d:%02d:%02d %s' % (_DAY[g.tm_wday], g.tm_mday, _MON[g.tm_mon - 1], g.tm_year % 100, g.tm_hour,
                                                   g.tm_min, g.tm_sec, zone)


def fmt_asctime(epoch):
    g = _wall(epoch)
    return '%s %s %2d %02d:%02d:%02d %04d' % (_DAY[g.tm_wday][:3], _MON[g.tm_mon - 1], g.tm_mday, g.tm_hour, g.tm_min, g.tm_sec,
                                              g.tm_year)


ZONE_TOKENS = sorted(ZONE_OFFSETS) + ['GMT', 'gmt', 'UT', 'Z', 'utc', '+0000', '+0100', '-0500', '+09:00', 'XYZ', 'MEZ', 'LOCAL', '']


def ims_odd_values(mtime, labels=None, deltas=(-86400, -3601, -1, 0, 1, 3601, 86400)):
    """Dates that are not IMF-fixdate: zone tokens other than GMT (the stated wall clock both as the zone's own
    and as UTC wall clock), the two obsolete layouts on both sides of every two-digit-year pivot."""
    t = int(mtime // 1)
    vals = []
    for d in deltas:
        for z in (labels if labels is not None else ZONE_TOKENS):
            off = ZONE_OFFSETS.get(z.upper(), 0)
            vals.append(fmt_imf(t + d + off, z))        # the instant t+d, stated in zone z
            if off:
                vals.append(fmt_imf(t + d, z))          # UTC wall clock carrying the label of zone z
        if labels is None:
            vals += [fmt_850(t + d), fmt_850(t + d).lower(), fmt_asctime(t + d), fmt_850(t + d, 'UTC')]
            vals += [fmt_850(t + d + ZONE_OFFSETS[z], z) for z in ('JST', 'EST', 'CET')]
    if labels is None:
        for y in (1900, 1949, 1950, 1968, 1969, 1970, 1975, 1976, 1977, 1999, 2000, 2020, 2026, 2049, 2050, 2068):
            e = __import__('calendar').timegm((y, 11, 6, 8, 49, 37))
            vals += [fmt_850(e), fmt_asctime(e)]
            # same two digits, week day of the other century
            vals.append(fmt_850(e).replace(_DAY[_wall(e).tm_wday], _DAY[(_wall(e).tm_wday + 3) % 7]))
    return vals


def ims_cases(rec, world):
    """The whole table in this shard's time zone, a reduced table in every other process time zone
    (the zone is switched between requests with time.tzset())."""
    home = _TZ[0]
    _ims_table(rec, world, ['a.txt', 'b.css', 'f0', 'f5', 'sub/inner.txt', 'big.bin', 'noext', 'missing.txt'],
               ('static', 'fb', 'dl'), 0)
    _ims_odd_table(rec, world, ['a.txt', 'missing.txt'], ('static', 'fb'), None, 0)
    for k, tz in enumerate(TZS):
        set_tz(tz)
        # the zone's own abbreviations while the process runs in that zone
        _ims_odd_table(rec, world, ['a.txt'], ('static', 'sfb'), sorted(posix_tz_abbrs(tz)) + ['GMT'], k + 1,
                       deltas=(-3601, -1, 1, 3601))
        if tz == home:
            continue
        _ims_table(rec, world, ['a.txt', 'missing.txt'], ('static', 'sfb'), k + 1, strict_only=True)
    set_tz(home)


def _ims_odd_table(rec, world, names, route_names, labels, salt, deltas=None):
    idx = salt
    for name in names:
        for rn in route_names:
            route = world.by_name[rn][1]
            ent = world.files.get(os.path.join(route.directory, name)) or \
                (world.files[route.fallback] if route.fallback else [b'', 1_600_000_000])
            values = ims_odd_values(ent[1], labels, *((deltas,) if deltas else ()))
            for v in values:
                for fw in ('wsgi', 'asgi'):
                    idx += 1
                    if idx % rec.nshards != rec.shard:
                        continue
                    run_case(rec, world, mk(world, rn, name, fw, 'HEAD' if idx % 9 == 0 else 'GET', [('If-Modified-Since', v)]))
                    rec.count('exh.ims_odd')


def _ims_table(rec, world, names, route_names, salt, strict_only=False):
    idx = salt
    for name in names:
        for rn in route_names:
            route = world.by_name[rn][1]
            f = os.path.join(route.directory, name)
            ent = world.files.get(f) or (world.files[route.fallback] if route.fallback else None)
            mt = ent[1] if ent else 1_600_000_000
            values = ims_values(mt)
            variants = (('GET', []), ('HEAD', []), ('GET', [('Range', 'bytes=1-2')]), ('GET', [('Range', 'bytes=99999-')]),
                        ('GET', [('Range', 'bytes=x')]), ('POST', []))
            if strict_only:
                values, variants = values[:15], variants[:3]
            for v in values:
                for fw in ('wsgi', 'asgi'):
                    for method, extra in variants:
                        idx += 1
                        if idx % rec.nshards != rec.shard:
                            continue
                        run_case(rec, world, mk(world, rn, name, fw, method, [('If-Modified-Since', v)] + extra))
                        rec.count('exh.ims')


# ---- random phase

HOSTILE_INSERT = ['%00', '%0a', '%0d', '%09', '%1f', '%7f', '%80', '%c2%80', '%c2%9f', '%ef%bf%bd', '~', '%3f', '<', '>',
                  ':', '*', '|', "'", '"', ';', '&', ' ', '%20', '+', '%25', '%', '%2', '%zz', '\\', '%5c', '/', '//',
                  '.', '..', '%2e', '\u00e9', '\u202e', '\u200b', '\uff0e', '=', ',', '!', '$', '(', ')', '@', '[', ']',
                  '{', '}', '^', '`', '%23', '%c0%af', '%e0%80%af', '\U0001F600']
SLASH_ALT = ['//', '\\', '%2f', '%2F', '%5c', '/./', '/../', '%252f', '\uff0f', '\u2215', '/%2e/', '/%2e%2e/', '/.//', '///']
DOT_ALT = ['%2e', '%2E', '\uff0e', '%c0%ae', '%e0%80%ae', '\u2024', '..', '']
APPEND = ['.', '..', ' ', '%20', '/', '/.', '/..', '%00.txt', '::$DATA', '.%20', '%09', '/../a.txt', '/../../a.txt', '%2f..']
PREPEND = ['./', '../', '/', ' ', '%20', 'C:', 'C:/', 'C:\\', '\\\\host\\share\\', './/', 'sub/../', 'sub/../../', '%2e/',
           'nest/../', 'X/../', './././']


def random_tail(rng, world, inside_rel, outside_rel):
    r = rng.random()
    if r < 0.6:
        t = rng.choice(inside_rel)
    elif r < 0.9:
        t = rng.choice(outside_rel)
        if rng.random() < 0.3:
            t = rng.choice(['sub/', 'sub/deep/', 'nest/', 'X/']).count('/') * '../' + t
            t = rng.choice(['sub/', 'sub/deep/', 'nest/', 'X/', '']) + t
    else:
        t = ''.join(rng.choice('abcXYZ019-._/') for _ in range(rng.randint(1, 12)))
    # quote what cannot travel raw
    t = ''.join(ch if ch not in '%?#' else '%%%02X' % ord(ch) for ch in t)
    for _ in range(rng.choice([0, 0, 1, 1, 1, 2, 3])):
        m = rng.random()
        if m < 0.2 and '/' in t:
            i = rng.choice([k for k, c in enumerate(t) if c == '/'])
            t = t[:i] + rng.choice(SLASH_ALT) + t[i + 1:]
        elif m < 0.35 and '.' in t:
            i = rng.choice([k for k, c in enumerate(t) if c == '.'])
            t = t[:i] + rng.choice(DOT_ALT) + t[i + 1:]
        elif m < 0.55:
            i = rng.randint(0, len(t))
            t = t[:i] + rng.choice(HOSTILE_INSERT) + t[i:]
        elif m < 0.65:
            t = t + rng.choice(APPEND)
        elif m < 0.75:
            t = rng.choice(PREPEND) + t
        elif m < 0.9:
            # percent-encode a random subset of characters (an equivalent spelling)
            fmt = rng.choice(['%%%02x', '%%%02X'])
            prob = rng.choice([0.1, 0.5, 1.0])
            t2, i = [], 0
            while i < len(t):
                if t[i] == '%' and i + 2 < len(t):
                    t2.append(t[i:i + 3])
                    i += 3
                    continue
                t2.append(''.join(fmt % b for b in t[i].encode('utf-8')) if rng.random() < prob else t[i])
                i += 1
            t = ''.join(t2)
        elif m < 0.95:
            i = rng.randint(0, len(t))
            t = t[:i] + rng.choice(['A' * rng.choice([250, 255, 256, 500, 512, 513, 600, 5000]), './' * 300,
                                    '../' * 200, 'a/' * 260]) + t[i:]
        else:
            t = t.swapcase()
    return t


def random_headers(rng, world, mtime_hint):
    hs = []
    r = rng.random()
    if r < 0.35:
        k = rng.random()
        if k < 0.5:
            a = rng.choice([0, 0, 1, 2, 5, 8, 9, 10, 23, 24, 59, 60, 61, 8192, 19999, 20000, 10 ** 12])
            b = rng.choice(['', '', a, a + 1, a + rng.randint(0, 70), 10 ** 12])
            hs.append(('Range', 'bytes=%s-%s' % (a, b)))
        elif k < 0.7:
            hs.append(('Range', 'bytes=-%d' % rng.choice([1, 2, 5, 8, 9, 24, 60, 61, 19999, 20000, 20001, 10 ** 9])))
        elif k < 0.9:
            hs.append(('Range', rng.choice(RANGE_MALFORMED)))
        else:
            hs.append(('Range', rng.choice(RANGE_OTHER_UNITS + RANGE_FOREIGN)))
    if rng.random() < 0.2:
        hs.append(('If-Modified-Since', rng.choice(ims_values(mtime_hint) if rng.random() < 0.6 else ims_odd_values(mtime_hint))))
    return hs


def random_phase(rec, world):
    rng = rec.rng
    inside_rel = [os.path.relpath(f, world.srv) for f in sorted(world.files) if f.startswith(world.srv + os.sep)]
    outside_rel = [os.path.relpath(f, world.srv) for f in world.outside]
    names = list(PREFIX)
    n = 0
    rounds = 0
    min_rounds = 3 if rec.tier == 'quick' else 12      # sized by count: the floors do not depend on machine load
    while rounds < min_rounds or rec.budget_ok(0.85):
        rounds += 1
        canary(rec, world)
        set_tz(rng.choice(TZS))          # the process is reconfigured between requests
        for _ in range(200):
            rn = rng.choice(names)
            tail = random_tail(rng, world, inside_rel, outside_rel)
            if rn == 'subonly' and rng.random() < 0.5 and tail.startswith('sub/'):
                tail = tail[4:]
            route = world.by_name[rn][1]
            guess = world.files.get(os.path.join(route.directory, tail))
            hs = random_headers(rng, world, guess[1] if guess else 1_600_003_600)
            method = rng.choice(['GET'] * 16 + ['HEAD', 'HEAD', 'OPTIONS', 'POST'])
            fw = rng.choice(['wsgi', 'asgi'])
            case = mk(world, rn, tail, fw, method, hs, fwrap=rng.choice(FWRAP_KEYS))
            if rng.random() < 0.03:          # spoil the prefix itself
                case['raw_path'] = case['raw_path'][:len(PREFIX[rn]) - 1] + rng.choice(['', 'x', '-secret/', '%2f', '\\', '//']) + \
                    case['raw_path'][len(PREFIX[rn]):]
            out, res = run_case(rec, world, case)
            rec.count('rand.requests')
            n += 1
            if n <= 3:
                rec.sample({'case': case, 'status': res.status})
        for _ in range(4):
            episode(rec, world, gen_episode(rng))


# ---- multi-step histories: the tree changes between requests

def gen_episode(rng):
    """write / request steps on the dedicated srv/mut files (no stale size, bytes or mtime)."""
    steps = []
    name = 'mut/m%d.bin' % rng.randrange(3)
    t = 1_650_000_000 + rng.randrange(10 ** 6)
    size = None
    for _ in range(rng.randint(2, 4)):
        size = rng.choice([x for x in [0, 1, 2, 5, 9, 17, 64, 8192, 8193, 9000] if x != size])
        t += rng.choice([-5000, -1, 1, 1, 2, 3600])
        steps.append(['write', name, size, rng.randrange(1 << 30), t + rng.choice([0, 0.5])])
        for _ in range(rng.randint(1, 3)):
            hs = []
            k = rng.random()
            if k < 0.4:
                hs.append(['Range', rng.choice(['bytes=0-', 'bytes=1-3', 'bytes=-4', 'bytes=4-', 'bytes=9-', 'bytes=0-0',
                                                 'bytes=8190-8200', 'bytes=-8193', 'bytes=0-3', 'bytes=2-5', 'bytes=1-1'])])
            elif k < 0.6:
                hs.append(['If-Modified-Since', M.imf_fixdate(t + rng.choice([-3600, -1, 0, 1, 3600]))])
            steps.append(['req', rng.choice(['static', 'dl', 'fb', 'p', 'rootapp', 'sstatic']), name, rng.choice(['wsgi', 'asgi']),
                          rng.choice(['GET', 'GET', 'GET', 'HEAD']), hs, rng.choice(FWRAP_KEYS)])
    return steps


def episode(rec, world, steps):
    for k, st in enumerate(steps):
        if st[0] == 'write':
            _, name, size, cseed, mtime = st
            r = random.Random(cseed)
            world.write(os.path.join(world.srv, name), bytes(r.randrange(256) for _ in range(size)), mtime)
            rec.count('episode.writes')
        else:
            _, rn, name, fw, method, hs, fwrap = st
            case = mk(world, rn, name, fw, method, hs, fwrap)
            case['wfilter'] = 'error' if k % 3 == 0 else None       # a function of the step, so replay is exact
            case['episode'] = [list(s) for s in steps]     # the whole episode: replay is self-contained
            case['episode_tz'] = _TZ[0]
            run_case(rec, world, case)
            rec.count('episode.requests')


# ---------------------------------------------------------------------------- entry points

def warmup(world):
    """Lazy imports / caches happen here, before any monitored request."""
    for fw in ('wsgi', 'asgi'):
        for tail, hs in (('a.txt', []), ('nope', []), ('f5', [('Range', 'bytes=1-2')]), ('f5', [('Range', 'bytes=9-')]),
                         ('f5', [('Range', 'x')]), ('a.txt', [('If-Modified-Since', M.imf_fixdate(2_000_000_000))]),
                         ('a.txt', [('If-Modified-Since', 'x')]), ('\u00fcn\u00ef.txt', [])):
            for rn in ('static', 'dl', 'fbabs', 'rootapp'):
                execute(world, mk(world, rn, tail, fw, 'GET', hs))


def fd_diagnostic(rec, world):
    """Outside the statement (DESIGN.md C16 'Noted'): file handles left for the garbage collector.
    Reported as a note, never as a verdict."""
    import gc
    import warnings
    probes = [('304', 'GET', [('If-Modified-Since', M.imf_fixdate(2_000_000_000))]), ('HEAD', 'HEAD', []),
              ('bad-range', 'GET', [('Range', 'bytes=x')]), ('plain-get', 'GET', []), ('416', 'GET', [('Range', 'bytes=999-')])]
    found = []
    for label, method, hs in probes:
        for fw in ('wsgi', 'asgi'):
            with warnings.catch_warnings(record=True) as ws:
                warnings.simplefilter('always', ResourceWarning)
                execute(world, dict(mk(world, 'static', 'a.txt', fw, method, hs), wfilter=None))
                gc.collect()
            n = sum(1 for x in ws if issubclass(x.category, ResourceWarning))
            if n:
                found.append('%s/%s' % (label, fw))
    rec.note('diagnostic (not a verdict): file handle left unclosed (ResourceWarning) on: %s' % (', '.join(found) or 'none'))


def run(rec):
    rec.rule = ('one case = one HTTP request (framework, method, raw request path, Range / If-Modified-Since, '
                'wsgi.file_wrapper absent / read()-based / descriptor-based (sendfile style) / odd block sizes, process '
                'time zone) against real falcon.App / falcon.asgi.App objects with 10 static routes (3 apps, one with '
                'strip_url_path_trailing_slash, some routes registered after the app served requests) over a '
                'scratch tree of known bytes; paths: all sequences of <= L segments over a 21-symbol traversal alphabet '
                '(sharded), a targeted list (near-miss prefixes, absolute-path injection, every outside file through '
                '27 traversal spellings, every inside file in 3 encodings), random mutations of file names; ranges: '
                'every (size, first, last) / suffix over small sizes plus block edges of a 20000-byte file; '
                'If-Modified-Since at mtime -1/0/+1 s; write/request histories. non-trivial = every executed request '
                '(distinct by framework, app, method, raw path, headers)')
    rec.assumptions = [
        'no symlinks in the tree, POSIX path semantics (the statement excludes symlinks)',
        'strictly refused spellings (must be 404): remainder that climbs above the directory or is absolute, '
        'doubled/leading separator, backslash, C0/C1 control character, one of ~?<>:*|\'" , remainder longer than '
        'PATH_MAX (4096) characters however it would normalise (the statement fixes no smaller limit, so falcon\'s own '
        '512 is not demanded); every other spelling may '
        'be answered 404 or with the file it lexically denotes inside the directory',
        'plain names ([A-Za-z0-9_-]+ with an optional extension, <= 100 chars) of existing files must be served; a '
        'missing plain name is answered by the fallback file when one is configured (documented behaviour)',
        'zero-length files: a Range header may be ignored (200, empty body) or answered 416 (RFC 7233 4.4)',
        'Range values that are not a single RFC-valid "bytes=" range (malformed, several ranges, last < first, '
        '"-0", other unit case) and If-Modified-Since values that are not a consistent IMF-fixdate only have to '
        'produce a self-consistent answer (400, whole file, or a 206/416 whose headers match the body)',
        'a wsgi.file_wrapper may transmit from the descriptor of an object that offers fileno(), from its current '
        'position to the end of the file (PEP 3333, optional platform-specific file handling)',
        'static routes registered on one app are matched in LIFO order of the add_static_route() calls, also when a '
        'prefix is registered again (documented: "static routes are matched in LIFO order")',
        'If-Modified-Since values outside IMF-fixdate may be rejected (400), ignored (200) or read tolerantly, but a 304 '
        'is only accepted when the value has a reading as a date (IMF / RFC 850 / asctime layout, zone GMT/UTC, numeric, '
        'or one of the workload zones\' abbreviations taken as that zone; two-digit years by the 50-year rule of RFC 9110 '
        '5.6.7 or by the stated week day) under which the file is not newer',
        'the embedding process may turn warnings into errors (every fifth request runs under simplefilter("error"))',
        'the process time zone is a configuration of the server (POSIX TZ, changed with time.tzset())',
        'library imports (.py/.pyc/.so under the interpreter, falcon or framework directories) are not counted as '
        'opens made by the route',
    ]
    set_tz(TZS[(rec.shard + rec.seed) % len(TZS)])
    world = World(tree_seed=(rec.seed * 1009 + rec.shard + 1) if rec.tier != 'quick' or rec.shard % 2 else 0)
    try:
        warmup(world)
        canary(rec, world)
        if rec.shard == 0:
            fd_diagnostic(rec, world)
        total = exhaustive_paths(rec, world)
        if rec.shard == 0:
            rec.note('exhaustive over %d segment sequences (alphabet %d, length <= %d); each against 2 routes, one per framework'
                     % (total, len(seg_alphabet(world)), 3 if rec.tier == 'quick' else 4))
        canary(rec, world)
        for i, (app, p) in enumerate(targeted_paths(world)):
            if i % rec.nshards != rec.shard:
                continue
            for fw in ('wsgi', 'asgi'):
                run_case(rec, world, {'fw': fw, 'app': app, 'method': 'GET', 'raw_path': p, 'headers': [], 'fwrap': False,
                                      'tz': _TZ[0]})
            rec.count('exh.targeted')
        range_cases(rec, world)
        ims_cases(rec, world)
        lifo_cases(rec, world)
        rec.exhaustive = True
        random_phase(rec, world)
        canary(rec, world)
    finally:
        world.close()

    q = rec.tier == 'quick'
    for name, n in [('mon.audit_requests', 20000), ('mon.open_events', 3000), ('open.inside', 2000), ('open.fallback', 200),
                    ('audit.canary_ok', 8), ('mon.404_strict', 5000), ('cls.escape', 3000),
                    ('cls.refused:doubled-separator', 500), ('cls.refused:backslash', 200), ('cls.refused:control-char', 200),
                    ('cls.refused:reserved-char', 100), ('cls.refused:over-long', 100), ('range.ignorable', 500),
                    ('exh.range_foreign', 500), ('cls.plain', 500), ('cls.other', 500), ('cls.root', 100),
                    ('route.none', 50), ('mon.404_noroute', 50), ('served.target', 2000), ('served.fallback', 200),
                    ('mon.body_full', 1000), ('mon.body_full_multiblock', 4), ('mon.body_partial', 800), ('mon.416', 200),
                    ('mon.304', 100), ('mon.ims_modified', 50), ('mon.range_lenient', 150), ('range.outcome.empty', 50),
                    ('fw.wsgi', 8000), ('fw.asgi', 8000), ('exh.range', 1500), ('exh.range_big', 100), ('exh.ims', 500), ('exh.ims_odd', 1000), ('exh.lifo_histories', 100), ('route.h0', 80),
                    ('route.h1', 200), ('route.h2', 300), ('route.h3', 300),
                    ('exh.targeted', 500), ('rand.requests', 400 if q else 2000), ('episode.requests', 16),
                    ('route.static', 500), ('route.dl', 500), ('route.fb', 500), ('route.fbabs', 500), ('route.nest', 200),
                    ('route.p', 500), ('route.subonly', 500), ('route.rootapp', 500), ('route.sstatic', 500),
                    ('route.sfb', 500), ('route.typed', 500), ('env.warnings_error', 3000), ('fwrap.False', 2000), ('fwrap.True', 500), ('fwrap.fd', 500), ('fwrap.odd', 500)] + \
            [('tz.' + z, 300) for z in TZS]:
        rec.floor(name, n)


def replay(rec, w):
    wit = w['witness']
    world = World(tree_seed=wit.get('tree_seed', 0))
    try:
        warmup(world)
        canary(rec, world)
        case = {k: wit[k] for k in ('fw', 'app', 'method', 'raw_path', 'headers', 'fwrap', 'tz', 'wfilter') if k in wit}
        case.setdefault('headers', [])
        if wit.get('episode'):
            set_tz(wit.get('episode_tz'))
            episode(rec, world, wit['episode'])
        else:
            out, res = run_case(rec, world, case)
            print('replayed: status=%r content-range=%r content-length=%r body[:60]=%r -> %s' % (
                res.status, hdr(res, 'content-range'), hdr(res, 'content-length'), res.body[:60], out or 'no violation'))
        rec.case('replay-marker')
    finally:
        world.close()
