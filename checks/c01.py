"""C01 - compiled router == plain depth-first walk of the template tree.  DESIGN.md section 4, C01.

Monitor: the reference router vlib/models/c01_router.py is told which templates the REAL
falcon.routing.CompiledRouter accepted (it never predicts acceptance) and is compared with
``router.find`` on every generated path: resource identity, uri_template, exact params (type and
value), method map.  Additional monitors: ``find`` never raises; lookups after a rejected add are
compared like any other; a template rejected only because of an EARLIER REJECTED add
(counterfactual fresh router built from the accepted adds alone accepts it) is reported.

Workload: (1) bounded-exhaustive: every ordered pair / triple of templates over a vocabulary of
segment shapes (depth <= 2) plus depth-3 specials, every route set followed by EVERY path over the
per-level representative set of that route set (depth max+1), sharded by route-set index;
(2) seeded random histories: up to 14 adds (accepted, intended-to-be-rejected, overrides,
compile=True/False, lookups interleaved or not) with depth <= 5 and hostile literals.
"""

import itertools

import re
import threading

import falcon.routing.compiled as _compiled_module
from falcon.routing import CompiledRouter
from falcon.routing.compiled import UnacceptableRouteError
from falcon.routing.converters import BaseConverter

from vlib.models import c01_router as M
from vlib.verdict import h64

LEVEL = 'exploration'
SHARDS = {'quick': 4, 'thorough': 16}
BUDGET = {'quick': 15, 'thorough': 200}

K_ORPHAN = 'rejected-add-leaves-orphan-nodes'
K_LITSRC = 'literal-segment-unescaped-in-finder-source'
K_CXBACKSLASH = 'complex-segment-backslash-unescaped-in-regex'
K_NEWLINE = 'complex-segment-matches-before-trailing-newline'
K_IDENT_NL = 'field-name-with-trailing-newline-accepted'
K_CXCOMMENT = 'multi-field-segment-text-verbatim-in-finder-comment'

MAX_KEYED = 150_000          # per shard: non-trivial lookups remembered individually


# ---------------------------------------------------------------- objects given to the real router

class VetoConv(BaseConverter):
    def convert(self, value):
        return None if value.startswith('n') else 'V:' + value


class RestConv(BaseConverter):
    CONSUME_MULTIPLE_SEGMENTS = True

    def convert(self, value):
        return None if 'no' in value else tuple(value)


class HexIntConv(BaseConverter):
    """Registered on 'alt' routers only, under the names 'int' (replacing the built-in) and 'hex'."""

    def __init__(self, num_digits=None, min=None, max=None):
        self._num_digits, self._min, self._max = num_digits, min, max

    def convert(self, value):
        if self._num_digits is not None and len(value) != self._num_digits:
            return None
        if value.strip() != value:
            return None
        try:
            v = int(value, 16)
        except ValueError:
            return None
        if self._min is not None and v < self._min:
            return None
        if self._max is not None and v > self._max:
            return None
        return v


class AltVetoConv(BaseConverter):
    def convert(self, value):
        return None if value.startswith('o') else 'W:' + value


class Res:
    def __init__(self, tag):
        self.tag = tag

    def on_get(self, req, resp, **kw):
        pass

    def __repr__(self):
        return '%s(%r)' % (type(self).__name__, self.tag)


# resources that are legal (they have responders) but falsy
class DictRes(Res, dict):
    def __init__(self, tag):
        dict.__init__(self)
        self.tag = tag


class BoolRes(Res):
    def __bool__(self):
        return False


class LenRes(Res):
    def __len__(self):
        return 0


# the same four kinds with coroutine responders (what falcon.asgi.App registers, add_route(..., _asgi=True))
class ARes(Res):
    async def on_get(self, req, resp, **kw):
        pass


class ADictRes(DictRes):
    async def on_get(self, req, resp, **kw):
        pass


class ABoolRes(BoolRes):
    async def on_get(self, req, resp, **kw):
        pass


class ALenRes(LenRes):
    async def on_get(self, req, resp, **kw):
        pass


ASYNC_TWIN = {Res: ARes, DictRes: ADictRes, BoolRes: ABoolRes, LenRes: ALenRes}
# ways an add_route CALL is refused for its resource/kwargs rather than for its template
FAULTS = ('responder-kind', 'suffix')


def make_tagger(prefix, veto_first):
    """Converter classes from one factory: distinct classes, distinct behaviour, the same __name__."""
    class Tagger(BaseConverter):
        def __init__(self, upper=False):
            self._upper = upper

        def convert(self, value):
            if value.startswith(veto_first):
                return None
            return prefix + (value.upper() if self._upper else value)
    return Tagger


TaggerA, TaggerB = make_tagger('A:', 'a'), make_tagger('B:', 'b')


class LeakedLock(Exception):
    """A lock of the router is still held although no call is in progress (single-threaded check)."""


class GuardLock:
    """Stands in for threading.Lock inside falcon.routing.compiled: this check is single-threaded, so a
    lock that cannot be taken at once will never be released; report it instead of blocking forever."""

    def __init__(self):
        self._real = threading.Lock()

    def acquire(self, blocking=True, timeout=-1):
        if self._real.acquire(False):
            return True
        if not blocking:
            return False
        raise LeakedLock('the compile lock is still held from an earlier call')

    def release(self):
        self._real.release()

    def locked(self):
        return self._real.locked()

    def __enter__(self):
        return self.acquire()

    def __exit__(self, *exc):
        self.release()


_compiled_module.Lock = GuardLock       # CompiledRouter.__init__ looks the name up at call time


class BackendNotReady(Exception):
    pass


class FlakyConv(BaseConverter):
    """A converter whose constructor fails on the k-th instantiation from now on (armed by the check):
    add_route validates with one instance, every (re)compilation creates new ones."""
    countdown = None

    def __init__(self, tag='F'):
        if FlakyConv.countdown is not None:
            FlakyConv.countdown -= 1
            if FlakyConv.countdown <= 0:
                FlakyConv.countdown = None
                raise BackendNotReady('injected: converter backend not ready')
        self._tag = tag

    def convert(self, value):
        return None if value.startswith('n') else self._tag + ':' + value


_MULT_OK = re.compile(r'-?[0-9]{1,17}')


class MultConv(BaseConverter):
    """A converter that cannot be built without its argument."""

    def __init__(self, factor):
        self._factor = factor

    def convert(self, value):
        if _MULT_OK.fullmatch(value) and int(value) % self._factor == 0:
            return int(value)
        return None


class HookRes(Res):
    """A resource whose responder is resolved lazily: reading `on_get` (add_route does, to map the
    methods) runs user code once when armed."""
    hook = None

    @property
    def on_get(self):
        h = HookRes.hook
        if h is not None:
            HookRes.hook = None
            h()
        return self._on_get

    def _on_get(self, req, resp, **kw):
        pass


class PluginConv(BaseConverter):
    """A converter that runs user code once while the lookup that called it is still in flight
    (lazy route registration, a nested lookup).  `hook` is armed by the check for one lookup;
    `ctor_hook` runs once inside the constructor (template validation, compilation)."""
    hook = None
    ctor_hook = None

    def __init__(self):
        h = PluginConv.ctor_hook
        if h is not None:
            PluginConv.ctor_hook = None
            h()

    def convert(self, value):
        h = PluginConv.hook
        if h is not None:
            PluginConv.hook = None
            h(value)
        return None if value.startswith('n') else 'P:' + value


RES_MODES = {       # which kind of resource object the n-th add of a world registers
    0: [Res], 1: [DictRes], 2: [Res, DictRes], 3: [BoolRes, Res], 4: [Res, LenRes, DictRes], 5: [LenRes, BoolRes],
}


class Raised:
    def __init__(self, ex):
        self.ex = ex


def multi_misuse_index(template):
    """Index of the first segment that misuses a multi-segment converter (not last / inside a
    multi-field segment) or is a multi-field segment containing a backslash; None if there is none."""
    segs = M.split_template(template)
    for k, raw in enumerate(segs):
        fields = list(M.FIELD.finditer(raw))
        if not fields:
            continue
        whole = len(fields) == 1 and fields[0].span() == (0, len(raw))
        if any((f.group(2) or '') in ('path', 'rest') for f in fields):
            if k < len(segs) - 1 or not whole:
                return k
        if not whole and '\\' in raw and _segment_refused_alone(raw):
            return k
    return None


_alone_cache = {}


def _segment_refused_alone(raw):
    """Does the real router refuse the one-segment template '/<raw>' with an internal error type?
    (a multi-field segment whose backslash makes the router's own pattern invalid)"""
    r = _alone_cache.get(raw)
    if r is None:
        probe = CompiledRouter()
        try:
            probe.add_route('/' + raw, Res('probe'))
            r = False
        except UnacceptableRouteError:
            r = False
        except Exception:  # noqa
            r = True
        _alone_cache[raw] = r
    return r


def has_hostile_literal(template):
    return any(("'" in s or '\\' in s) and not M.FIELD.search(s) for s in M.split_template(template))


def has_newline_simple_field(template):
    """A whole-segment field expression whose field name ends in a newline."""
    for s in M.split_template(template):
        m = M.FIELD.fullmatch(s)
        if m and m.group(1).endswith('\n'):
            return True
    return False


def has_unprintable_complex(template):
    """A multi-field segment with a character that cannot appear in Python source text (NUL, lone surrogate)."""
    for s in M.split_template(template):
        if M.FIELD.search(s) and not M.FIELD.fullmatch(s):
            if any(c == '\x00' or '\ud800' <= c <= '\udfff' for c in s):
                return True
    return False


def has_backslash_complex(template):
    for s in M.split_template(template):
        fields = list(M.FIELD.finditer(s))
        if fields and '\\' in s and not (len(fields) == 1 and fields[0].span() == (0, len(s))):
            return True
    return False


_PROFILES_SEEN = []          # converter profiles of the routers configured so far in this process


def make_router(profile, late=False):
    """A CompiledRouter whose OWN options.converters are updated in place (the documented way)."""
    router = CompiledRouter()
    conv = router.options.converters
    conv['veto'] = VetoConv
    conv['rest'] = RestConv
    conv['tagA'] = TaggerA
    conv['tagB'] = TaggerB
    conv['plug'] = PluginConv
    conv['flaky'] = FlakyConv
    conv['mult'] = MultConv
    if profile == 'alt':
        conv['int'] = HexIntConv
        conv['veto'] = AltVetoConv
        conv['hex'] = HexIntConv
    if late:
        conv['late'] = AltVetoConv
        conv['float'] = HexIntConv
    if profile not in _PROFILES_SEEN:
        _PROFILES_SEEN.append(profile)
    return router


class World:
    """The real router, the reference model and the history (ops) that produced them."""

    def __init__(self, profile='std', res_mode=0, before=None, asgi=False):
        self.profile, self.res_mode, self.asgi = profile, res_mode, bool(asgi)
        # other routers configured earlier in this process (recorded so that a replay in a fresh process
        # has the same neighbours); they must not matter
        self.before = list(_PROFILES_SEEN) if before is None else list(before)
        self.neighbours = [make_router(p) for p in self.before if p not in _PROFILES_SEEN]
        self.router = make_router(profile)
        self.model = M.Model(M.CONVERTERS_ALT if profile == 'alt' else M.CONVERTERS)
        self.n_adds = 0
        # ['world', profile, res_mode, before, asgi] | ['add', template, compile, outcome, orphan_candidate, fault]
        # | ['find', path] | ['neighbour', profile, late]
        self.ops = [['world', profile, res_mode, self.before, self.asgi]]
        self.n_rejected = 0
        self.dead = None              # reason why this world cannot be judged further
        self.crashed = None           # add_route(compile=True) raised something that is not a refusal: the
        #                               tree may have been changed; one more lookup batch, then stop
        self.sig = None

    def neighbour(self, profile, late=False):
        """Another router is created (and its own converters customised) while this one is alive."""
        self.neighbours.append(make_router(profile, late))
        self.ops.append(['neighbour', profile, bool(late)])
        self.sig = None

    def add(self, rec, template, compile=False, intent=None, fault=None, nested=None):
        """nested = [where, path]: user code that add_route itself calls ('resource': reading the
        resource's responder attribute; 'converter': the constructor of a 'plug' converter named in the
        template) performs find(path) on this router while the call is in progress."""
        kinds = RES_MODES[self.res_mode]
        klass = kinds[self.n_adds % len(kinds)]
        if nested is not None and nested[0] == 'resource':
            klass = HookRes
        # responders of the kind this router's App would require, unless that is the fault to inject
        if self.asgi != (fault == 'responder-kind'):
            klass = ASYNC_TWIN[klass]
        res = klass(len(self.ops))
        kwargs = {}
        if self.asgi:
            kwargs['_asgi'] = True
        if fault == 'suffix':
            kwargs['suffix'] = 'nosuchsuffix'
        if compile:
            kwargs['compile'] = True
        self.n_adds += 1
        if rec is not None and not res:
            rec.count('add.falsy-resource')
        k = multi_misuse_index(template)
        orphan_cand = bool(k) and not self.model.has_prefix(M.split_template(template)[:k])
        op = ['add', template, bool(compile), None, False, fault, nested]
        self.ops.append(op)
        self.sig = None
        seen = []
        if nested is not None:
            def hook():
                want_before = self.model.find(nested[1])
                try:
                    got = self.router.find(nested[1])
                except Exception as ex:  # noqa
                    got = Raised(ex)
                seen.append((got, want_before))
            if nested[0] == 'resource':
                HookRes.hook = hook
            else:
                PluginConv.ctor_hook = hook
        try:
            self.router.add_route(template, res, **kwargs)
        except UnacceptableRouteError:
            op[3] = 'rej'
        except Exception as ex:  # noqa  (any refusal is a refusal; the statement does not fix the type)
            op[3] = 'rej:' + type(ex).__name__
        else:
            op[3] = 'ok'
        finally:
            HookRes.hook = PluginConv.ctor_hook = None
        self.nested_seen = seen
        if op[3] == 'ok':
            try:
                overridden = self.model.add(template, res)
            except M.Unparseable as ex:
                self.dead = 'model cannot interpret accepted template %r: %s' % (template, ex)
                if rec is not None:
                    # no oracle for the result, but an accepted template must not make lookups fail
                    try:
                        self.router.find('/')
                        rec.count('mon.find-must-not-raise')
                    except Exception as ex2:  # noqa
                        rec.count('report.unattributed.find-raised')
                        rec.violation('find-raised', {'ops': [list(o) for o in self.ops], 'path': '/',
                                                      'got': 'raised ' + repr(ex2), 'want': 'any result: ' + self.dead,
                                                      'attributed_to': None})
                        return op[3]
                    rec.count('model.unparseable')
                    if rec.counters['model.unparseable'] == 1:
                        rec.mark_inconclusive('the real router accepted a template the reference cannot interpret '
                                              '(%s); lookups on that router were not judged' % self.dead)
                return op[3]
            if rec is not None:
                rec.count('add.accepted')
                if overridden:
                    rec.count('class.override')
                if compile:
                    rec.count('add.compile_flag')
            return 'ok'
        op[4] = orphan_cand
        if rec is not None:
            rec.count('add.rejected')
            rec.count('reject.' + (intent or 'unplanned'))
            if op[3] != 'rej':
                rec.count('reject.type.' + op[3][4:])
        if op[3] != 'rej' and compile and fault is None:
            self.crashed = op[3]
        if rec is not None and self.n_rejected and self.crashed is None and fault is None:
            monitor_rejection_independent(rec, self, template, compile)
        self.n_rejected += 1
        return op[3]

    def nested_lookup(self, rec, path, action, arg, compile=False):
        """find(path) during which the first 'plug' conversion runs user code: action 'add' calls
        add_route(arg, ..., compile=compile), action 'find' looks up the path `arg`.
        -> (fired, problems).  The in-flight lookup has to answer like the reference walk on the tree as
        it was before the nested call or as it is after it (the statement does not say which; anything
        else is a result no tree dictates); the nested lookup and every later lookup are judged as usual."""
        want_old = self.model.find(path)
        fired = []

        def hook(value):
            fired.append(value)
            if action == 'add':
                fired.append(self.add(rec, arg, compile=compile))
                fired.append(self.ops.pop())          # folded into the 'nested' op below
            else:
                fired.append(judge(self, arg))

        PluginConv.hook = hook
        try:
            try:
                got = self.router.find(path)
            except Exception as ex:  # noqa
                got = Raised(ex)
        finally:
            PluginConv.hook = None
        self.ops.append(['nested', path, action, arg, bool(compile), fired[1] if fired and action == 'add' else None])
        self.sig = None
        problems = []
        if not fired:
            d = diff(got, want_old)
            if d is not None:
                problems.append(d)
            return False, problems
        if action == 'find' and fired[1] is not None:
            problems.append(('nested-' + fired[1][0],) + tuple(fired[1][1:]))
        want_new = self.model.find(path)
        d_old, d_new = diff(got, want_old), diff(got, want_new)
        if d_old is not None and d_new is not None:
            kind = 'find-raised' if isinstance(got, Raised) else 'in-flight-lookup-follows-neither-tree'
            problems.append((kind, d_old[1], {'tree-before-nested-call': summary(want_old),
                                              'tree-after-nested-call': summary(want_new)}))
        return True, problems

    def faulty_find(self, path, fault):
        """A lookup during which the (re)compilation fails: fault = k (the k-th converter instantiation
        raises) or 'unregister' (the converter is missing from this router's options during the call).
        The outcome of this lookup itself is user-fault territory and is not judged, except that it
        must come back; the lookups that follow are judged as usual.  -> what happened."""
        conv = self.router.options.converters
        saved = None
        if fault == 'unregister':
            saved = conv.data.pop('flaky', None)
        else:
            FlakyConv.countdown = int(fault)
        try:
            try:
                self.router.find(path)
                out = 'returned'
            except LeakedLock:
                out = 'leaked-lock'
            except Exception as ex:  # noqa
                out = 'raised:' + type(ex).__name__
        finally:
            FlakyConv.countdown = None
            if saved is not None:
                conv['flaky'] = saved
        self.ops.append(['faulty-find', path, fault, out])
        self.sig = None
        return out

    def signature(self):
        if self.sig is None:
            self.sig = h64([o[:3] + o[5:7] for o in self.ops])
        return self.sig


def rebuild(ops, skip=()):
    """ops[0] is the ['world', profile, res_mode] header.  Skipped adds still consume their resource
    slot so that every remaining add registers the same kind of resource object as in the original."""
    head = ops[0] if ops and ops[0][0] == 'world' else ['world', 'std', 0, []]
    w = World(head[1], head[2], head[3] if len(head) > 3 else None, head[4] if len(head) > 4 else False)
    for i, op in enumerate(ops):
        if op[0] == 'world':
            continue
        if op[0] == 'neighbour':
            if i not in skip:
                w.neighbour(op[1], op[2])
            continue
        if i in skip:
            if op[0] == 'add':
                w.n_adds += 1
            continue
        if op[0] == 'add':
            w.add(None, op[1], op[2], fault=op[5] if len(op) > 5 else None, nested=op[6] if len(op) > 6 else None)
        elif op[0] == 'nested':
            w.nested_lookup(None, op[1], op[2], op[3], op[4])
        elif op[0] == 'faulty-find':
            w.faulty_find(op[1], op[2])
        else:
            w.ops.append(list(op))
            try:
                w.router.find(op[1])
            except Exception:  # noqa
                pass
    return w


# ---------------------------------------------------------------- the oracle comparison

def _show(v):
    if type(v) is int and not -10**18 < v < 10**18:
        return hex(v)               # repr() of a huge int runs into the int->str digit limit
    return repr(v)


def norm_params(p):
    return sorted((k, type(v).__name__, _show(v)) for k, v in p.items())


def summary(x):
    if x is None:
        return None
    if isinstance(x, Raised):
        return 'raised ' + repr(x.ex)
    return {'resource': repr(x[0]), 'template': x[1], 'params': norm_params(x[2])}


def judge(w, path):
    """-> None when the real router agrees with the model, else (kind, got_summary, want_summary)."""
    try:
        got = w.router.find(path)
    except Exception as ex:  # noqa
        got = Raised(ex)
    want = w.model.find(path)
    return diff(got, want)


def diff(got, want):
    """got: what router.find returned (or Raised); want: what the reference walk returned."""
    if isinstance(got, Raised):
        return 'find-raised', summary(got), summary(want)
    if want is None:
        if got is None:
            return None
        return 'matched-where-walk-finds-nothing', summary((got[0], got[3], got[2])), None
    g = None if got is None else (got[0], got[3], got[2])
    if got is None:
        return 'missed-route', None, summary(want)
    if got[0] is not want[0] or got[3] != want[1]:
        return 'wrong-route', summary(g), summary(want)
    if norm_params(got[2]) != norm_params(want[2]):
        return 'wrong-params', summary(g), summary(want)
    mm = got[1]
    if not isinstance(mm, dict) or mm.get('GET') != want[0].on_get:
        return 'wrong-method-map', repr(mm)[:200], summary(want)
    return None


def newline_variants(path):
    """The path with the trailing newline removed from every non-empty subset of the segments ending in one."""
    segs = path.split('/')
    idx = [i for i, s in enumerate(segs) if s.endswith('\n')][:4]
    for mask in range(1, 1 << len(idx)):
        out = list(segs)
        for b, i in enumerate(idx):
            if mask >> b & 1:
                out[i] = out[i][:-1]
        yield '/'.join(out)


def classify(w, path, kind):
    """Narrow attribution of a disagreement to a recorded finding (or None)."""
    ops = w.ops
    # trailing newline: the real router answers as if the newline was not there
    if kind != 'find-raised' and any(s.endswith('\n') for s in path.split('/')):
        try:
            got = w.router.find(path)
        except Exception:  # noqa
            got = None
        for variant in newline_variants(path):
            alt = w.model.find(variant)
            if got is not None and alt is not None and got[0] is alt[0] and norm_params(got[2]) == norm_params(alt[2]):
                return K_NEWLINE
    for key, idxs in candidates(ops):
        w2 = ablate(ops, idxs)
        if w2.dead is None and judge(w2, path) is None:
            return key
    return None


def ablate(ops, idxs):
    """The world without the adds `idxs`; a refused add that only in that smaller world would leave
    orphan nodes behind (its prefix was created by a removed add) is removed too."""
    w2 = rebuild(ops, skip=idxs)
    kept = [i for i in range(len(ops)) if i not in idxs]
    more = {kept[j] for j, o in enumerate(w2.ops) if o[0] == 'add' and o[3] != 'ok' and o[4]}
    if more:
        w2 = rebuild(ops, skip=set(idxs) | more)
    return w2


def candidates(ops):
    """(key, indices of the adds that could trigger that recorded finding) - non-empty sets only."""
    cands = [
        (K_LITSRC, {i for i, o in enumerate(ops) if o[0] == 'add' and has_hostile_literal(o[1])}),
        (K_CXBACKSLASH, {i for i, o in enumerate(ops) if o[0] == 'add' and has_backslash_complex(o[1])}),
        (K_ORPHAN, {i for i, o in enumerate(ops) if o[0] == 'add' and o[3] != 'ok' and o[4]}),
        (K_IDENT_NL, {i for i, o in enumerate(ops) if o[0] == 'add' and has_newline_simple_field(o[1])}),
        (K_CXCOMMENT, {i for i, o in enumerate(ops) if o[0] == 'add' and has_unprintable_complex(o[1])}),
    ]
    return [(k, s) for k, s in cands if s]


def shrink(ops, path, kind, budget=80):
    ops = [list(o) for o in ops]
    i = len(ops) - 1
    while i >= 1 and budget > 0:          # ops[0] is the world header
        if ops[i][0] == 'neighbour':      # kept: whether it matters cannot be decided inside this process,
            i -= 1                        # where the other router has been configured already
            continue
        trial = ops[:i] + ops[i + 1:]
        budget -= 1
        w2 = rebuild(trial)
        j = judge(w2, path) if w2.dead is None else None
        if j is not None and j[0] == kind:
            ops = trial
        i -= 1
    return ops


def report(rec, w, path, verdict):
    kind, got, want = verdict
    key = classify(w, path, kind)
    # the witness is the history exactly as generated (it is what was classified and what --replay
    # re-executes); a greedily shrunk history is attached for reading only
    wit = {'path': path, 'got': got, 'want': want, 'ops': [list(o) for o in w.ops], 'attributed_to': key}
    if key is None or key not in rec.known_keys:
        if rec.counters.get('violations', 0) < 5:
            small = shrink(w.ops, path, kind)
            if len(small) != len(w.ops):
                wit['ops_shrunk_for_reading'] = small
    rec.count('report.%s.%s' % (key or 'unattributed', kind))
    rec.violation(kind, wit, known_key=key)
    return key


def check_path(rec, w, path):
    v = judge(w, path)
    tr = w.model.trace
    cnt = rec.count
    cnt('mon.find')
    nontrivial = False
    if tr.abandoned:
        nontrivial = True
        cnt('class.backtrack')
        for a, b in tr.via:
            cnt('bt.%s>%s' % (a, b))
        if not tr.via:
            cnt('bt.then-none')
    elif tr.via:
        for a, b in tr.via:
            cnt('bt.%s>%s' % (a, b))
    if tr.vetoes:
        nontrivial = True
        for c in tr.vetoes:
            cnt('veto.' + c)
    if tr.swallow:
        cnt('class.swallow.%d' % min(tr.swallow, 3))
        if tr.swallow > 1:
            nontrivial = True
    if tr.leak:
        cnt('class.abandoned-branch-had-bound-values')
    if w.n_rejected:
        nontrivial = True
        cnt('mon.find.after-rejected-add')
    if w.model.last_resource is not None and not w.model.last_resource:
        cnt('mon.find.matched-falsy-resource')
    if v is None:
        if nontrivial and rec.counters['keyed'] < MAX_KEYED:
            cnt('keyed')
            rec.case((w.signature(), path))
        else:
            rec.case(None)
        return None
    rec.case((w.signature(), path))
    key = report(rec, w, path, v)
    if v[0] == 'find-raised':
        w.dead = 'find raises (%s)' % key
    return key


def monitor_rejection_independent(rec, w, template, compile):
    """`template` was just rejected by w.router and an earlier add had been rejected too.
    A fresh router that only ever saw the accepted adds must reject it as well."""
    ops = w.ops[:-1]
    fresh = rebuild(ops, skip={i for i, o in enumerate(ops) if o[0] == 'add' and o[3] != 'ok'})
    rec.count('mon.rejection-independent')
    try:
        fresh.router.add_route(template, Res('probe'), compile=compile)
    except Exception:  # noqa
        return
    key = None
    for k, idxs in candidates(ops):
        w2 = ablate(ops, idxs)
        try:
            w2.router.add_route(template, Res('probe'), compile=compile)
        except Exception:  # noqa
            continue
        key = k
        break
    rec.violation('rejected-only-because-of-an-earlier-rejected-add',
                  {'ops': [list(o) for o in ops], 'template': template}, known_key=key)


# ---------------------------------------------------------------- representatives

U1 = '12345678-1234-5678-1234-567812345678'
CONV_REPS = {
    ('int', None): ['12', 'ff', '7', 'x', '-3', ' 1', '007'],      # 'ff'/'12': decimal and hex readings differ
    ('hex', None): ['ff', 'x', '12', '-1'],
    ('int', '2'): ['12', '1', '123', 'ab'],
    ('int', 'num_digits=2'): ['12', '1', '123', 'ab'],
    ('int', 'min=5, max=10'): ['5', '4', '10', '11'],
    ('int', '2, min=10, max=50'): ['10', '09', '50', '51'],
    # bounds of zero (documented: reject below min / above max; the bounds themselves are allowed)
    ('int', 'min=0'): ['0', '-1', '1', '-0', '+0'],
    ('int', 'max=0'): ['0', '1', '-1', '-0', '+0'],
    ('int', 'min=0, max=0'): ['0', '-1', '1', '+0', '-0'],
    ('int', '2, min=0'): ['10', '-1', '00', '-0', '+5', '5'],
    ('int', '2, min=0, max=0'): ['00', '-1', '+0', '-0', '01', '0'],
    ('int', 'num_digits=2, max=0'): ['-1', '01', '00', '-0', '10', '1'],
    ('float', 'min=0'): ['0', '-0.5', '-1', '1', '0.0', '-0', '+0'],
    ('float', 'max=0.0'): ['0.0', '0.5', '1', '-0.5', '-0', '-1'],
    ('float', 'min=-0.0'): ['0', '-0.5', '-0.0', '1', '-1'],
    ('float', 'min=0, max=0'): ['0.0', '-0.5', '0.5', '-0', '1', '-1'],
    ('float', None): ['1.5', 'x', 'nan', '1e3', 'inf', '1e999'],
    # every combination of the float options, with finite, infinite, overflowing and nan values
    ('float', 'min=0, max=100, finite=False'): ['50', 'inf', '-inf', 'nan', '1e999', 'Infinity', '101', '-1', '-1e999'],
    ('float', 'max=0.0, finite=False'): ['-inf', 'inf', '0.0', '1', 'nan', '1e999', '-Infinity'],
    ('float', 'min=1.5, finite=False'): ['inf', '-inf', '1.5', '1.4', 'nan', '-1e999'],
    ('float', 'min=0, max=100, finite=True'): ['50', 'inf', '-inf', 'nan', '101', '1e999'],
    ('float', 'finite=True'): ['1.5', 'inf', 'nan', '-inf'],
    ('mult', '3'): ['9', '10', 'x', '-3', '0'],
    ('tagA', 'True'): ['v', 'ax', 'bx'],
    ('tagB', 'True'): ['v', 'bx', 'ax'],
    ('tagA', 'upper=True'): ['v', 'ax', 'bx'],
    ('tagB', 'upper=True'): ['v', 'bx', 'ax'],
    ('tagA', None): ['v', 'ax', 'bx'],
    ('tagB', None): ['v', 'bx', 'ax'],
    ('tagB', 'False'): ['v', 'bx', 'ax'],
    ('float', 'min=1.5, max=2.5'): ['1.5', '1.4', '2.5', '2.6'],
    ('float', 'finite=False'): ['nan', 'x', '-inf', '1.0'],
    ('uuid', None): [U1, U1[:-1], U1.replace('-', ''), 'x'],
    ('dt', None): ['2024-02-29T12:00:00Z', '2023-02-29T12:00:00Z', '2024-02-29T12:00:00+0100', 'x'],
    ('dt', '"%Y-%m-%d"'): ['2024-02-29', '2023-02-30', 'x'],
    ('veto', None): ['ok', 'no'],
    ('path', None): ['p'],
    ('rest', None): ['p', 'no'],
}
_reps_cache = {}
_CONV_REPS_NORM = {}


def conv_reps(cname, argstr):
    """Representative values for a converter; whitespace inside the argument list does not matter."""
    if not _CONV_REPS_NORM:
        for (c, a), v in CONV_REPS.items():
            _CONV_REPS_NORM[(c, None if a is None else ''.join(a.split()))] = v
    return _CONV_REPS_NORM.get((cname, None if argstr is None else ''.join(argstr.split())), ['7', 'x', '12', '1.5'])


def seg_reps(raw, newline=False, lean=False):
    """Representative request segments for one template segment: values that take every outcome of
    the test(s) this segment compiles to (equal / not equal, pattern matches / does not, converter
    accepts / vetoes)."""
    ck = (raw, newline, lean)
    r = _reps_cache.get(ck)
    if r is not None:
        return r
    try:
        s = M.Seg(raw, M.CONVERTERS_ALT)       # superset of names; only the structure is used here
    except M.Unparseable:
        r = [raw, 'v']
        _reps_cache[ck] = r
        return r
    if s.kind == M.LIT:
        r = [raw]
        if not lean:
            r.append(raw + 'x')
            if len(raw) > 1:
                r.append(raw[:-1])
    else:
        fieldreps = []
        for p in s.parts:
            if p[0] == 'field':
                fr = conv_reps(p[2], p[3]) if p[2] else ['v']
                fieldreps.append(fr[:2] if lean else fr)
        if s.kind == M.SIMPLE:
            r = list(fieldreps[0])
        else:
            def inst(choice):
                out, j = [], 0
                for p in s.parts:
                    if p[0] == 'lit':
                        out.append(p[1])
                    else:
                        out.append(choice[j])
                        j += 1
                return ''.join(out)
            base = [fr[0] for fr in fieldreps]
            r = [inst(base)]
            for j, fr in enumerate(fieldreps):          # every other representative of one field at a time
                for alt in fr[1:]:
                    r.append(inst(base[:j] + [alt] + base[j + 1:]))
            r.append(inst([''] * len(base)))            # literal spans only: a field must take >= 1 char
            lits = [p[1] for p in s.parts if p[0] == 'lit' and p[1]]
            if lits:                                    # a field value that itself contains a literal span
                r.append(inst(['q' + lits[0] + 'r'] + base[1:]))
                r.append(inst(base[:-1] + ['q' + lits[-1] + 'r']))
            if newline:
                r.append(inst(base) + '\n')
    r = list(dict.fromkeys(r))
    _reps_cache[ck] = r
    return r


def _is_complex(raw):
    try:
        return M.Seg(raw, M.CONVERTERS_ALT).kind == M.CX
    except M.Unparseable:
        return False


_joint_cache = {}


def joint_reps(a, b):
    r = _joint_cache.get((a, b))
    if r is None:
        sa, sb = M.Seg(a, M.CONVERTERS_ALT), M.Seg(b, M.CONVERTERS_ALT)
        inner = seg_reps(b, False, True)[0]
        nf = len(sa.fields)
        r = []
        for pos in (0, nf - 1):
            vals = ['v'] * nf
            vals[pos] = inner
            out, j = [], 0
            for p in sa.parts:
                if p[0] == 'lit':
                    out.append(p[1])
                else:
                    out.append(vals[j])
                    j += 1
            cand = ''.join(out)
            if sb.regex.fullmatch(cand):
                r.append(cand)
        _joint_cache[(a, b)] = r
    return r


def level_reps(templates, newline=False, lean=False):
    split = [M.split_template(t) for t in templates]
    depth = max(len(s) for s in split)
    levels = []
    for lv in range(depth):
        reps = []
        for s in split:
            if lv < len(s):
                reps.extend(seg_reps(s[lv], newline, lean))
        cxs = list(dict.fromkeys(s[lv] for s in split if lv < len(s) and _is_complex(s[lv])))
        for a in cxs:                      # strings that satisfy two multi-field siblings at once
            for b in cxs:
                if a != b:
                    reps.extend(joint_reps(a, b))
        reps.extend(['', 'zz'])
        levels.append(list(dict.fromkeys(reps)))
    levels.append(['', 'zz'] if lean else ['', 'zz', 'a'])
    return levels


def all_paths(levels):
    for d in range(1, len(levels) + 1):
        for combo in itertools.product(*levels[:d]):
            if combo[0] == '' and d > 1:
                continue            # '//x': leading-slash normalisation is outside the statement
            yield '/' + '/'.join(combo)


def count_paths(levels):
    n, p = 0, 1
    for lv in levels:
        p *= len(lv)
        n += p
    return n


# ---------------------------------------------------------------- running one route set

def run_batch(rec, w, paths):
    for p in paths:
        if w.dead is not None:
            rec.count('world.abandoned')
            return
        check_path(rec, w, p)
    if w.crashed is not None:
        w.dead = 'add_route(compile=True) raised ' + w.crashed


def run_routeset(rec, templates, flags, every_step, cap, rng, intents=None, newline=False, lean=False,
                 profile='std', res_mode=0):
    """-> True when every path of the representative product was executed."""
    levels = level_reps(templates, newline, lean)
    total = count_paths(levels)
    complete = total <= cap
    if complete:
        paths = list(all_paths(levels))
    else:
        paths = list(dict.fromkeys(random_path(rng, levels) for _ in range(cap)))
        rec.count('routeset.sampled')
    w = World(profile, res_mode)
    rec.count('world.profile.' + profile)
    for j, t in enumerate(templates):
        w.add(rec, t, compile=flags[j], intent=intents[j] if intents else None)
        if w.dead is not None:
            break
        if every_step or j == len(templates) - 1 or w.crashed is not None:
            run_batch(rec, w, paths)
            w.ops.append(['find', '/'])
            if w.dead is not None:
                break
    rec.count('routesets')
    if w.dead is None:
        try:
            rec.seen('finder-programs', w.router.finder_src)
        except Exception:  # noqa
            pass
    rec.seen('routesets', w.signature())
    return complete and w.dead is None


def random_path(rng, levels):
    d = rng.randint(1, len(levels))
    segs = [rng.choice(levels[i]) for i in range(d)]
    if segs[0] == '' and d > 1:
        segs[0] = 'zz'
    return '/' + '/'.join(segs)


# ---------------------------------------------------------------- exhaustive vocabulary

def vocab(level, shapes):
    n = str(level)
    table = {
        'a': 'a', 'ab': 'ab', 'empty': '',
        'x': '{x%s}' % n, 'xint': '{x%s:int}' % n, 'zint2': '{z%s:int(2)}' % n,
        'ay': 'a{y%s}' % n, 'y-w': '{y%s}-{w%s}' % (n, n), 'yint.w': '{y%s:int}.{w%s}' % (n, n),
        'path': '{p%s:path}' % n, 'pathx': '{p%s:path}x' % n, 'veto': '{v%s:veto}' % n,
        'rest': '{r%s:rest}' % n,
    }
    return [table[s] for s in shapes]


def templates_over(shapes):
    out = []
    for a in vocab(0, shapes):
        out.append('/' + a)
    for a in vocab(0, shapes):
        for b in vocab(1, shapes):
            t = '/' + a + '/' + b
            if not t.startswith('//'):
                out.append(t)
    return list(dict.fromkeys(out))


SPECIALS = ['/a/{p:path}/b', '/a/b/{p:path}x', '/a/{x1}/b', '/a/b/c', '/{x0}/{x1}/{p:path}',
            '/{y0}-{w0}/{p:path}/c', '/a/{x1}/{r:rest}', '/ab/{z1:int(2)}/',
            '/{x0:int(min=5, max=10)}', '/{y0:int}.{w0}/{x1:float(min=1.5, max=2.5)}',
            '/{y0:dt("%Y-%m-%d")}_{w0:uuid}_{u0}/{v1:veto}',
            # zero bounds, alone and inside multi-field segments (a simple sibling from the pair vocabulary
            # or '/r/{x1}' is the fall-through)
            '/{x0:int(min=0)}', '/{x0:int(max=0)}', '/{x0:float(min=0, max=0)}', '/r/{x1}',
            '/r/{y1:int(min=0)}to{w1:int(min=0)}', '/{y0:int(min=0, max=0)}to{w0:int(max=0)}',
            '/{y0:float(min=0)}_{w0:float(max=0.0)}', '/r/{y1:float(min=-0.0)}to{w1:int(2, min=0, max=0)}',
            # float: the options combined (bounds with finite=False), alone and in a multi-field segment
            '/{x0:float(min=0, max=100, finite=False)}', '/r/{y1:float(max=0.0, finite=False)}_{w1:float(min=1.5, finite=False)}',
            # two converter classes that share a __name__, used with textually identical arguments
            '/t/{x1:tagA(True)}', '/u/{x1:tagB(True)}', '/u/{y1:tagB(upper=True)}_{w1:tagA(upper=True)}',
            '/t/{x1:tagA(True)}/{x2:tagB(True)}',
            # white space, including line breaks, inside the argument list of a converter (legal inside a field)
            '/i/{y1:int(min=5,\n max=10)}-{w1}', '/i/{y1:int(min=5,\r max=10)}_{w1}', '/{x0:int(min=5,\r\n max=10)}',
            '/i/{y1:float(min=0,\t max=100,\n\n finite=False)}.{w1:int( 2 )}', '/{y0:int(\n2\n)}.{w0}',
            '/i/{y1}-{w1:dt(\n"%Y-%m-%d"\x0c)}',
            # a converter with a required constructor argument
            '/odd/{x1:mult(3)}', '/odd/{y1:mult(3)}.{w1}']
REFUSED_SPECIALS = [
            # multi-field segments with 2-3 converter fields and a multi-segment converter at every position
            # (expected to be refused; if one is accepted, the lookups that follow must still not fail)
            '/{p0:path}.{y0:int}', '/{y0:int}.{p0:path}', '/f/{y1:int}.{w1:int}.{p1:path}',
            '/f/{y1:int}.{p1:path}.{w1:int}', '/{p0:path}.{y0:int}.{w0:float}', '/{y0:uuid}_{p0:rest}',
            '/{y0:float}_{w0:int}_{p0:rest}', '/f/{y1:int}-{p1:rest}-{w1:float}', '/{y0}.{w0:int}.{p0:path}',
            '/f/{y1:int(min=0)}.{w1:uuid}.{p1:path}/g']
# a field name with a trailing newline (passes an identifier test that uses '$'); inside a multi-field
# segment such a template is refused with an error that is not UnacceptableRouteError, below new segments
# a bare reference to a converter that cannot be built without arguments
REFUSED_SPECIALS += ['/odd/{x1:mult}', '/odd/{y1:mult}-{w1}', '/{x0:mult}', '/odd/{y1}_{w1:mult()}']
REFUSED_SPECIALS += ['/f/{y1\n}.json', '/f/g/{y2\n}-{w2}', '/f/x{y1\n:int}', '/{y0\n}.{w0}/g']
# ... and as a whole-segment field (recorded finding K_IDENT_NL while the real router accepts it)
NEWLINE_NAME_SPECIALS = ['/{x0\n}', '/f/{x1\n:int}',
                         # characters that cannot be written into Python source text, in every segment kind
                         '/{y0}\x00{w0}', '/f/x\x00{y1}', '/{y0}\ud800{w0}', '/f/a\x00b', '/f/a\udfffb/{x2}']
REFUSED_PARTNERS = ['/f/{x1}', '/f/g', '/{x0}/g', '/f/{y1:int}.{w1}']

PAIR_SHAPES = {
    'quick': ['a', 'ab', 'x', 'xint', 'ay', 'y-w', 'path', 'pathx'],
    'thorough': ['a', 'ab', 'empty', 'x', 'xint', 'zint2', 'ay', 'y-w', 'yint.w', 'path', 'pathx', 'veto', 'rest'],
}
TRIPLE_SHAPES = {
    'quick': ['a', 'x', 'ay'],
    'thorough': ['a', 'ab', 'x', 'xint', 'ay', 'y-w'],
}


def exhaustive(rec):
    tier = rec.tier
    cap = 5000
    all_complete = True
    idx = 0
    rng = rec.rng

    def one(templates, lean):
        nonlocal idx, all_complete
        idx += 1
        if idx % rec.nshards != rec.shard:
            return
        r = idx // rec.nshards
        flags = [bool((r >> j) & 1) for j in range(len(templates))]
        every = bool((r >> len(templates)) & 1) or len(templates) == 1
        # resource kinds and the converter profile of the router vary with the index too; routers with
        # different profiles therefore live in the same process one after the other
        res_mode = (r >> 4) % len(RES_MODES)
        profile = 'alt' if (r // 7) % 3 == 1 else 'std'
        ok = run_routeset(rec, templates, flags, every, cap, rng, lean=lean, profile=profile, res_mode=res_mode)
        if not ok:
            rec.count('exhaustive.routesets-cut-short')     # sampled, or stopped by a recorded finding
        all_complete = all_complete and ok

    T2 = templates_over(PAIR_SHAPES[tier])
    lean2 = tier == 'quick'
    for t in T2:
        one([t], False)
    for pair in itertools.product(T2, repeat=2):
        one(list(pair), lean2)
    rec.count('exhaustive.pairs-done')
    rec.count('size.after-pairs', rec.counters['mon.find'])
    # partners of the specials: the whole pair vocabulary (thorough) / its depth-1 templates plus the
    # depth-2 templates over a 4-shape core (quick)
    core = set(templates_over(['a', 'x', 'ay', 'path']))
    partners = T2 if tier == 'thorough' else [t for t in T2 if t.count('/') == 1 or t in core]
    for s in SPECIALS:
        for t in partners:
            one([s, t], True)
            one([t, s], True)
    rec.count('size.after-special-partners', rec.counters['mon.find'])
    for i1, s1 in enumerate(SPECIALS):
        for i2, s2 in enumerate(SPECIALS):
            if tier == 'thorough' or (i1 + i2) % 2 == 0:      # quick: every other ordered pair of specials
                one([s1, s2], True)
    shallow = [t for t in T2 if t.count('/') == 1] + REFUSED_PARTNERS
    for s in REFUSED_SPECIALS:
        one([s], False)
        for t in shallow:
            one([s, t], True)
            one([t, s], True)
            one([t, s, t.rstrip('/') + '/h'], True)       # a further add forces a recompile
    for s in NEWLINE_NAME_SPECIALS:
        one([s], True)
        for t in REFUSED_PARTNERS:
            one([t, s], True)
    rec.count('exhaustive.refused-specials-done')
    rec.count('size.after-refused', rec.counters['mon.find'])
    T3 = templates_over(TRIPLE_SHAPES[tier])
    for triple in itertools.product(T3, repeat=3):
        one(list(triple), True)
    rec.count('exhaustive.triples-done')
    rec.count('size.after-triples', rec.counters['mon.find'])
    if rec.shard == 0:
        rec.note('exhaustive: %d pair-vocabulary templates (all ordered pairs, and pairs with %d depth-3 specials), '
                 '%d triple-vocabulary templates (all ordered triples); every route set x every path over its '
                 'per-level representative product to depth max+1' % (len(T2), len(SPECIALS), len(T3)))
    return all_complete


# ---------------------------------------------------------------- add_route calls refused for the resource

def refused_calls(rec):
    """For every template of the pair vocabulary (and the accepted specials), on a WSGI-style and on an
    ASGI-style router: an add_route call that is refused because of its resource (responders of the
    wrong kind) or its kwargs (suffix without responders) - once for the template that is already
    routed (would replace the route) and once for a new template - then lookups, then an accepted add
    (forces a recompile), then lookups.  Enumerated completely, sharded by index."""
    T = templates_over(PAIR_SHAPES[rec.tier]) + SPECIALS
    idx = 0
    for t in T:
        for asgi in (False, True):
            for fault in FAULTS:
                for cflag in (False, True):
                    idx += 1
                    if idx % rec.nshards != rec.shard:
                        continue
                    new = '/zz9/{fq}' if not t.startswith('/zz9') else '/zz7/{fq}'
                    paths = list(all_paths(level_reps([t], lean=True))) + ['/zz9/v', '/zz9', '/zz8', '/zz9/v/']
                    w = World('alt' if idx % 5 == 0 else 'std', idx % len(RES_MODES), asgi=asgi)
                    rec.count('world.profile.' + w.profile)
                    if w.add(rec, t, compile=cflag) != 'ok':
                        continue
                    rec.count('world.asgi' if asgi else 'world.wsgi')
                    run_batch(rec, w, paths)
                    w.ops.append(['find', '/'])
                    for target in (t, new):
                        w.add(rec, target, compile=cflag, intent=fault, fault=fault)
                        run_batch(rec, w, paths)
                        w.ops.append(['find', '/'])
                        rec.count('reject-then-lookups.' + fault)
                    if w.dead is None:
                        w.add(rec, '/zz8', compile=not cflag)
                        run_batch(rec, w, paths)
                    rec.count('refused-calls.scenarios')
    rec.count('refused-calls.done')


# ---------------------------------------------------------------- user code running inside a lookup

RE_BASES = [
    ['/plugins/{name:plug}/status'],
    ['/plugins/{name:plug}'],
    ['/p/{a1:plug}-{b1}/x', '/p/{c1}'],
    ['/q/{name:plug}/status', '/q/zz/other', '/{top}/x'],
]
RE_NEW = ['/plugins/all', '/plugins/{name:plug}/status/more', '/a0', '/zzz', '/plugins/{name:plug}/aaa', '/{top}',
          '/p/all', '/p/{a1:plug}-{b1}/x', '/q/aa/status', '/plugins/{name:plug}/status', '/q/{name:plug}/a',
          '/plugins/{other}', '/plugins/{name:plug}/{p:path}/x']       # the last two are refused


def run_nested(rec, w, path, action, arg, compile):
    fired, problems = w.nested_lookup(rec, path, action, arg, compile)
    rec.count('mon.nested.%s%s' % (action, '' if fired else '.converter-not-reached'))
    if fired:
        rec.case((w.signature(), 'nested', path))
    else:
        rec.case(None)
    for kind, got, want in problems:
        rec.count('report.unattributed.' + kind)
        rec.violation(kind, {'ops': [list(o) for o in w.ops], 'got': got, 'want': want, 'attributed_to': None})
        if kind == 'find-raised':
            w.dead = 'find raises'
    return fired


def reentrant(rec):
    """Single-threaded re-entrancy: a converter that registers a route (accepted or refused, with and
    without compile=True) or performs another lookup while the lookup that called it is in flight.
    Every base route set x every new template x compile flag x every representative path (a fresh router
    each), then the whole batch on the resulting tree.  Enumerated completely, sharded by index."""
    idx = 0
    for base in RE_BASES:
        for new in RE_NEW:
            paths = list(all_paths(level_reps(base + [new], lean=True)))
            if len(paths) > 120:
                paths = paths[::len(paths) // 120 + 1]
            # in-flight lookups: every instantiation of a template that carries the converter (+ one level)
            inflight = []
            for t in base + [new]:
                if ':plug' in t:
                    for combo in itertools.product(*[seg_reps(x, False, True) for x in M.split_template(t)]):
                        inflight.append('/' + '/'.join(combo))
                        inflight.append('/' + '/'.join(combo) + '/zz')
            inflight = list(dict.fromkeys(inflight))
            for cflag in (True, False):
                for path in inflight:
                    idx += 1
                    if idx % rec.nshards != rec.shard:
                        continue
                    w = World('std', idx % len(RES_MODES))
                    for t in base:
                        w.add(rec, t)
                    if idx % 3:                       # compiled before / compiled by the in-flight lookup itself
                        w.router.find('/')
                        w.ops.append(['find', '/'])
                    if run_nested(rec, w, path, 'add', new, cflag) and w.dead is None:
                        rec.count('reentrant.in-flight-adds')
                    if w.dead is None:
                        run_batch(rec, w, paths)
                    if w.dead is None and idx % 4 == 0:
                        run_nested(rec, w, path, 'find', paths[idx % len(paths)], False)
    rec.count('reentrant.done')


# ---------------------------------------------------------------- a lookup from user code inside add_route

def judge_nested_in_add(rec, w):
    """The lookups that user code performed while the last add_route call was in progress: each has to
    answer like the reference walk on the tree before that call or on the tree after it."""
    op = w.ops[-1]
    for got, want_before in w.nested_seen:
        rec.count('mon.nested-in-add')
        want_after = w.model.find(op[6][1])
        d1, d2 = diff(got, want_before), diff(got, want_after)
        if d1 is not None and d2 is not None:
            kind = 'find-raised' if isinstance(got, Raised) else 'lookup-inside-add_route-follows-neither-tree'
            rec.count('report.unattributed.' + kind)
            rec.violation(kind, {'ops': [list(o) for o in w.ops], 'got': d1[1], 'attributed_to': None,
                                 'want': {'before': summary(want_before), 'after': summary(want_after)}})
    if not w.nested_seen:
        rec.count('mon.nested-in-add.user-code-not-reached')


RA_BASES = [['/ping'], ['/late/{name}/x', '/ping'], ['/{top}', '/late/zz']]
RA_NEW = [('/late/{name}', 'resource'), ('/late/{name:plug}', 'converter'), ('/late/{name:plug}', 'resource'),
          ('/a0/{p:path}', 'resource'), ('/late/{name:plug}-{ext}/y', 'converter'), ('/ping', 'resource'),
          ('/late/{other:plug}/x', 'converter')]         # the last one is refused where '/late/{name}/x' exists


def reentrant_add(rec):
    """add_route on a router that was compiled / not yet compiled, with and without compile=True, during
    which user code called by add_route looks up a path; afterwards every lookup follows the new tree."""
    idx = 0
    for base in RA_BASES:
        for new, where in RA_NEW:
            paths = list(all_paths(level_reps(base + [new], lean=True)))
            if len(paths) > 120:
                paths = paths[::len(paths) // 120 + 1]
            probes = [paths[i % len(paths)] for i in (1, 5, 11)] + ['/ping']
            for cflag in (False, True):
                for precompiled in (True, False):
                    for probe in probes:
                        idx += 1
                        if idx % rec.nshards != rec.shard:
                            continue
                        w = World('std', 0)
                        for t in base:
                            w.add(rec, t)
                        if precompiled:
                            run_batch(rec, w, paths[:20])
                            w.ops.append(['find', '/'])
                        w.add(rec, new, compile=cflag, nested=[where, probe])
                        judge_nested_in_add(rec, w)
                        run_batch(rec, w, paths)
                        rec.count('reentrant-add.scenarios')
    rec.count('reentrant-add.done')


# ---------------------------------------------------------------- faults while the finder is (re)generated

FAULT_SETS = [
    ['/s/{a1:flaky}'],
    ['/s/{a1:flaky}/x', '/t/{b1:flaky("Y")}-{c1:flaky}'],
    ['/{a0:int}/s', '/s/{b1:flaky}', '/s/lit'],
]


def compile_faults(rec):
    """A lookup whose delayed (re)compilation fails because of user code - the k-th converter
    instantiation raises, or the converter is missing from the router's options for that one call -
    once or twice in a row, on the first compilation or on a recompilation after a further add.  That
    lookup is not judged (it must only come back); every later lookup must follow the template tree."""
    idx = 0
    for templates in FAULT_SETS:
        n_inst = sum(t.count(':flaky') for t in templates)
        paths = list(all_paths(level_reps(templates + ['/zz8'], lean=True)))
        for fault in list(range(1, n_inst + 2)) + ['unregister']:
            for when in ('first-compile', 'recompile'):
                for repeat in (1, 2):
                    idx += 1
                    if idx % rec.nshards != rec.shard:
                        continue
                    w = World('std', idx % len(RES_MODES))
                    for t in templates:
                        w.add(rec, t)
                    if when == 'recompile':
                        run_batch(rec, w, paths)
                        w.ops.append(['find', '/'])
                        w.add(rec, '/zz8')
                    for _ in range(repeat):
                        out = w.faulty_find(paths[idx % len(paths)], fault)
                        rec.count('fault.lookup-' + out.split(':')[0])
                        if out == 'leaked-lock':
                            rec.count('report.unattributed.lookup-blocks-on-leaked-compile-lock')
                            rec.violation('lookup-blocks-on-leaked-compile-lock',
                                          {'ops': [list(o) for o in w.ops], 'attributed_to': None})
                    run_batch(rec, w, paths)
                    rec.count('fault.scenarios')
    rec.count('fault.done')


# ---------------------------------------------------------------- a template matches its own text

SELF_BODIES = ['status', 'a/b', 'a//b', 'a/', '', '{x}', '{x}/s', 's/{x:int}', 'v{y}-{w}/t', '{p:path}', 's/{p:rest}',
               '{x}/{y:float(min=0)}/', 'ab/{z:int(2)}']


def check_self_match(rec, lead, body, res_mode):
    """Whatever the router takes the segments of a text to be, it has to take them the same way for a
    template and for a request path: an accepted template, alone on a router, matches the path obtained
    by writing a matching value in place of every field expression (leading slashes copied verbatim),
    with exactly those values.  Judged without choosing a normalisation of leading slashes."""
    template = lead + body
    segs = body.split('/')
    inst = '/'.join(seg_reps(x, False, True)[0] for x in segs)
    path = lead + inst
    w = World('std', res_mode)
    out = w.add(rec, template)
    rec.count('mon.self-match' if out == 'ok' else 'mon.self-match.template-refused')
    if out != 'ok' or w.dead is not None:
        return
    ref = M.Model(M.CONVERTERS)                 # values per field: the single-slash reading of the same body
    ref.add('/' + body, None)
    want = ref.find('/' + inst)
    try:
        got = w.router.find(path)
    except Exception as ex:  # noqa
        got = Raised(ex)
    rec.case(('self-match', template))
    problem = None
    if isinstance(got, Raised):
        problem = 'find-raised'
    elif got is None:
        problem = 'accepted-template-does-not-match-its-own-text'
    elif got[3] != template or want is None or norm_params(got[2]) != norm_params(want[2]):
        problem = 'own-text-matched-with-other-values'
    if problem:
        rec.count('report.unattributed.' + problem)
        rec.violation(problem, {'ops': [list(o) for o in w.ops], 'self_match': [lead, body, res_mode], 'path': path,
                                'got': summary(got if got is None or isinstance(got, Raised) else (got[0], got[3], got[2])),
                                'want': None if want is None else norm_params(want[2]), 'attributed_to': None})


def self_match(rec):
    idx = 0
    for lead in ('/', '//', '///'):
        for body in SELF_BODIES:
            idx += 1
            if idx % rec.nshards == rec.shard:
                check_self_match(rec, lead, body, idx % len(RES_MODES))
    rec.count('self-match.done')


# ---------------------------------------------------------------- several routers in one process

COHAB_T = ['/n/{v1:int}', '/m/{a1:int(2)}-{b1:veto}', '/h/{x1}', '/f/{g1:float}']


def cohabitation(rec):
    """A router's lookups depend on its own template tree and its own converters only: another router
    that is created and customised before it, between its adds and its first compile, or after it was
    compiled (followed by a recompile) must not matter.  Enumerated completely, sharded by index."""
    extra = ['/h/{x1}/z', '/k/{q1:hex}', '/k/{q1:late}']
    paths = list(all_paths(level_reps(COHAB_T + extra, lean=True)))
    if len(paths) > 250:
        paths = paths[::len(paths) // 250 + 1]
    idx = 0
    for prof_b in ('std', 'alt'):
        for prof_a in ('alt', 'std'):
            for when in ('before-adds', 'before-first-compile', 'after-compile'):
                for late in (False, True):
                    for cflag in (False, True):
                        idx += 1
                        if idx % rec.nshards != rec.shard:
                            continue
                        w = World(prof_b, idx % len(RES_MODES))
                        rec.count('world.profile.' + prof_b)
                        if when == 'before-adds':
                            w.neighbour(prof_a, late)
                        for j, t in enumerate(COHAB_T):
                            w.add(rec, t, compile=cflag and j == len(COHAB_T) - 1)
                        if when == 'before-first-compile':
                            w.neighbour(prof_a, late)
                        run_batch(rec, w, paths)
                        w.ops.append(['find', '/'])
                        if when == 'after-compile':
                            w.neighbour(prof_a, late)
                            run_batch(rec, w, paths)                 # same compiled program
                        if w.dead is None:
                            w.add(rec, extra[0], compile=cflag)      # forces a recompile
                            run_batch(rec, w, paths)
                            w.ops.append(['find', '/'])
                        for t in extra[1:]:
                            if w.dead is None:
                                w.add(rec, t, intent='unknown-conv' if (prof_b, t) != ('alt', extra[1]) else None)
                        if w.dead is None:
                            run_batch(rec, w, paths)
                        rec.count('cohabitation.scenarios')
    rec.count('cohabitation.done')


# ---------------------------------------------------------------- random histories

LIT_TOKENS = ['a', 'b', 'ab', 'abc', 'A', 'x', '1', '12', '.', '+', '(', ')', '[', ']', '?', '$', '*', '^', '|',
              '-', '_', '~', '%41', 'é', ',', ';', '=', '@', '!', '&', '#', '"']
HOSTILE_TOKENS = ["'", '\\', '\\d', '\\b', "a'b", '\\n']
UNPRINTABLE_TOKENS = ['\x00', 'a\x00', '\ud83d', '\udc00z']     # cannot be written into Python source text as they are
CONV_CHOICES = [None, None, None, ('int', None), ('int', '2'), ('int', 'min=5, max=10'), ('int', '2, min=10, max=50'),
                ('float', 'min=0, max=100, finite=False'), ('float', 'max=0.0, finite=False'),
                ('float', 'min=1.5, finite=False'), ('float', 'min=0, max=100, finite=True'), ('float', 'finite=True'),
                ('mult', '3'), ('tagA', 'True'), ('tagB', 'True'), ('tagA', 'upper=True'), ('tagB', 'upper=True'), ('tagA', None),
                ('tagB', 'False'),
                ('int', 'min=0'), ('int', 'max=0'), ('int', 'min=0, max=0'), ('int', '2, min=0'),
                ('int', '2, min=0, max=0'), ('int', 'num_digits=2, max=0'), ('float', 'min=0'), ('float', 'max=0.0'),
                ('float', 'min=-0.0'), ('float', 'min=0, max=0'),
                ('float', None), ('float', 'min=1.5, max=2.5'), ('float', 'finite=False'), ('uuid', None),
                ('dt', None), ('dt', '"%Y-%m-%d"'), ('veto', None)]


class Gen:
    def __init__(self, rng, hostile, orphaning):
        self.rng = rng
        self.hostile = hostile
        self.orphaning = orphaning

    def literal(self, where='lit'):
        rng = self.rng
        toks = [rng.choice(LIT_TOKENS) for _ in range(rng.choice([1, 1, 1, 2, 3]))]
        if self.hostile == where and rng.random() < 0.35:
            toks.insert(rng.randint(0, len(toks)), rng.choice(HOSTILE_TOKENS))
        if self.hostile == 'nul' and rng.random() < 0.3:
            toks.insert(rng.randint(0, len(toks)), rng.choice(UNPRINTABLE_TOKENS))
        return ''.join(toks)

    def field(self, name, allow_conv=True):
        c = self.rng.choice(CONV_CHOICES) if allow_conv else None
        if c is None:
            return '{%s}' % name
        if c[1] is None:
            return '{%s:%s}' % (name, c[0])
        args = c[1]
        if self.rng.random() < 0.2:         # white space is legal inside a field expression
            ws = self.rng.choice(['\n', '\r', '\r\n', '\t', ' \n ', '\x0c', '  '])
            args = self.rng.choice([args.replace(', ', ',' + ws), ws + args, args + ws, ws + args.replace(', ', ws + ',') + ws])
        return '{%s:%s(%s)}' % (name, c[0], args)

    def simple(self, level):
        return self.field('n%d' % level)

    def complex(self, level):
        rng = self.rng
        shape = rng.choice(['lf', 'fl', 'flf', 'lflf', 'ff', 'lfl', 'flfl'])
        out, j = [], 0
        for ch in shape:
            if ch == 'l':
                out.append(self.literal('cx'))
            else:
                out.append(self.field('c%d%d' % (level, j), allow_conv=rng.random() < 0.4))
                j += 1
        return ''.join(out)

    def segment(self, level, last):
        r = self.rng.random()
        if r < 0.45:
            return self.literal()
        if r < 0.68:
            return self.simple(level)
        if r < 0.9:
            return self.complex(level)
        if last:
            return self.rng.choice(['{p%d:path}', '{p%d:rest}', '{p%d:path}']) % level
        if r < 0.95:
            return ''
        return self.literal()

    def template(self, accepted):
        rng = self.rng
        segs = []
        if accepted and rng.random() < 0.65:
            base = M.split_template(rng.choice(accepted))
            if base and (':path' in base[-1] or ':rest' in base[-1]):
                base = base[:-1]
            segs = base[:rng.randint(0, min(len(base), 4))]
        depth = rng.randint(max(1, len(segs)), 5) if rng.random() < 0.8 else len(segs) + 1
        depth = max(depth, len(segs) + (0 if segs and rng.random() < 0.15 else 1))
        depth = min(depth, 5)
        while len(segs) < depth:
            segs.append(self.segment(len(segs), len(segs) == depth - 1))
        if segs[0] == '' and len(segs) > 1:
            segs[0] = 'r'
        return '/' + '/'.join(segs)

    def rejectable(self, accepted):
        """A template intended to be refused, with the reason it was built for."""
        rng = self.rng
        kinds = ['dup-field', 'unknown-conv', 'missing-conv', 'bad-ident', 'whitespace', 'bad-conv-args',
                 'path-not-last', 'path-in-complex', 'path-among-converters', 'ident-newline-in-complex']
        ctx = {}
        for t in accepted:
            segs = M.split_template(t)
            for lv, s in enumerate(segs):
                fs = list(M.FIELD.finditer(s))
                if not fs:
                    continue
                whole = len(fs) == 1 and fs[0].span() == (0, len(s))
                if whole and (fs[0].group(2) or '') in ('path', 'rest'):
                    ctx.setdefault('child-of-path', []).append((segs, lv))
                elif whole:
                    ctx.setdefault('conflict-simple', []).append((segs, lv))
                else:
                    ctx.setdefault('conflict-complex', []).append((segs, lv))
        kinds += list(ctx) * 2
        kind = rng.choice(kinds)
        if accepted and rng.random() < 0.7:
            base = M.split_template(rng.choice(accepted))
            if ':path' in base[-1] or ':rest' in base[-1]:
                base = base[:-1]
            prefix = base[:rng.randint(0, len(base))]
        else:
            prefix = []
        lv = len(prefix)
        fresh_prefix = ['f%d' % rng.randint(0, 3) for _ in range(rng.randint(1, 2))]
        if kind == 'dup-field':
            tail = rng.choice([['{d}', 'k', '{d}'], ['{d}-{d}'], ['{d:int}', '{d}'], ['x{d}', '{d}']])
        elif kind == 'unknown-conv':
            tail = ['{u%d:nope}' % lv]
        elif kind == 'missing-conv':
            tail = ['{u%d:}' % lv]
        elif kind == 'bad-ident':
            tail = [rng.choice(['{1x}', '{class}', '{}', '{x y}', '{é}', '{a-b}', '{ x}', '{x\t}'])]
        elif kind == 'ident-newline-in-complex':
            # refused, but not with UnacceptableRouteError, possibly below freshly created segments
            if rng.random() < 0.6:
                prefix = prefix + fresh_prefix
            tail = [rng.choice(['{nl%d\n}.json', 'x{nl%d\n}', '{nl%d\n:int}-{o}', '{o}_{nl%d\n}']) % lv]
        elif kind == 'whitespace':
            tail = [rng.choice(['a b', 'a\tb', '{w%d} ' % lv, ' ', 'a b', 'a\nb'])]
        elif kind == 'bad-conv-args':
            tail = [rng.choice(['{u%d:mult}', 'x{u%d:mult}', '{u%d:mult()}', '{u%d:int(0)}', '{u%d:int(foo=1)}', '{u%d:float(1,2,3,4)}', '{u%d:dt(1,2)}',
                                '{u%d:int(1/0)}', '{u%d:uuid(3)}']) % lv]
        elif kind == 'path-not-last':
            if self.orphaning and rng.random() < 0.6:
                prefix = prefix + fresh_prefix
            tail = [rng.choice(['{pp:path}', '{pp:rest}']), rng.choice(['b', '{q}', ''])]
        elif kind == 'path-in-complex':
            if self.orphaning and rng.random() < 0.6:
                prefix = prefix + fresh_prefix
            tail = [rng.choice(['{pp:path}x', 'x{pp:rest}', '{pp:path}{qq}', '{qq}.{pp:path}'])]
        elif kind == 'path-among-converters':
            # 2-3 converter-carrying fields in one segment, the multi-segment one at a random position
            others = ['{e%d:int}', '{g%d:float}', '{h%d:uuid}', '{i%d:int(min=0)}', '{j%d}', '{k%d:veto}']
            rng.shuffle(others)
            fields = [o % lv for o in others[:rng.randint(1, 2)]]
            fields.insert(rng.randint(0, len(fields)), rng.choice(['{pp:path}', '{pp:rest}']))
            sep = rng.choice(['.', '-', '_', 'to'])
            tail = [rng.choice(['', 'v']) + sep.join(fields)]
            if rng.random() < 0.3:
                tail.append(rng.choice(['g', '{q}']))
        elif kind == 'child-of-path':
            segs, lv = rng.choice(ctx[kind])
            prefix, tail = segs[:lv + 1], [rng.choice(['c', '{cc}', ''])]
        elif kind == 'conflict-simple':
            segs, lv = rng.choice(ctx[kind])
            prefix = segs[:lv]
            tail = [rng.choice(['{m%d}' % lv, '{m%d:int}' % lv, '{n%d:int(3)}' % lv, '{m%d:path}' % lv])]
            if rng.random() < 0.5:
                tail.append('t')
        else:   # conflict-complex: same literal spans, other field names
            segs, lv = rng.choice(ctx[kind])
            prefix = segs[:lv]
            cnt = itertools.count()
            tail = [M.FIELD.sub(lambda m: '{k%d%d}' % (lv, next(cnt)), segs[lv])]
            if rng.random() < 0.5:
                tail.append('t')
        segs = prefix + tail
        if segs[0] == '' and len(segs) > 1:
            segs[0] = 'r'
        return '/' + '/'.join(segs), kind


NOISE_SEGS = ['é', '%2F', 'a' * 300, '\x00', ' ', '.', '..', '-', 'q-r-s', '1.5.x', '{x}', "'", '\\', '7' * 5000, '٣',
              'q\rx', '\u2028']


def history_paths(rng, attempted, n, newline):
    levels = level_reps(attempted, newline)
    out = []
    split = [M.split_template(t) for t in attempted]
    for _ in range(n):
        if rng.random() < 0.6:
            segs = [rng.choice(seg_reps(s, newline)) for s in rng.choice(split)]
            r = rng.random()
            if r < 0.25 and segs:
                i = rng.randrange(len(segs))
                segs[i] = rng.choice(levels[min(i, len(levels) - 1)])
            elif r < 0.35:
                segs.append(rng.choice(['', 'zz', 'a', 'no', 'p/q']))
            elif r < 0.42:
                segs[rng.randrange(len(segs))] = rng.choice(NOISE_SEGS)
            elif r < 0.5 and len(segs) > 1:
                segs.pop()
            if segs[0] == '' and len(segs) > 1:
                segs[0] = 'zz'
            out.append('/' + '/'.join(segs))
        else:
            out.append(random_path(rng, levels))
    return list(dict.fromkeys(out))


def random_history(rec, rng):
    # one family of recorded-finding triggers per history at most, so that attribution stays narrow
    fam = rng.random()
    hostile = 'lit' if fam < 0.05 else 'cx' if fam < 0.09 else 'nul' if fam < 0.12 else None
    orphaning = 0.12 <= fam < 0.27
    newline = 0.27 <= fam < 0.5
    g = Gen(rng, hostile, orphaning)
    w = World('alt' if rng.random() < 0.3 else 'std', rng.randrange(len(RES_MODES)), asgi=rng.random() < 0.25)
    rec.count('world.profile.' + w.profile)
    accepted, attempted = [], []
    n_adds = rng.randint(3, 14)
    lookups_every = rng.random() < 0.7
    rec.count('history')
    if hostile:
        rec.count('history.hostile-literals')
    for step in range(n_adds):
        r = rng.random()
        intent = fault = None
        if accepted and r < 0.1:
            t = rng.choice(accepted)                     # same template again: the route is replaced
        elif r < 0.35:
            t, intent = g.rejectable(accepted)
        elif r < 0.42:
            # the call is refused for its resource / kwargs: on a template already routed, or on a new one
            fault = intent = rng.choice(FAULTS)
            t = rng.choice(accepted) if accepted and rng.random() < 0.5 else g.template(accepted)
        else:
            t = g.template(accepted)
        attempted.append(t)
        out = w.add(rec, t, compile=rng.random() < 0.3, intent=intent, fault=fault)
        if w.dead is not None:
            break
        if out == 'ok':
            accepted.append(t)
        if lookups_every or rng.random() < 0.3 or step == n_adds - 1 or w.crashed is not None:
            run_batch(rec, w, history_paths(rng, attempted, 60 if step < n_adds - 1 else 160, newline))
            w.ops.append(['find', '/'])
            if out != 'ok':
                rec.count('reject-then-lookups.' + (intent or 'unplanned'))
        if w.dead is not None:
            break
    if w.dead is None:
        try:
            rec.seen('finder-programs', w.router.finder_src)
        except Exception:  # noqa
            pass
        rec.count('history.depth.%d' % max(len(M.split_template(t)) for t in attempted))
    return w


# ---------------------------------------------------------------- entry points

REJECT_FLOORS = ['dup-field', 'unknown-conv', 'missing-conv', 'bad-ident', 'whitespace', 'bad-conv-args',
                 'path-not-last', 'path-in-complex', 'path-among-converters', 'ident-newline-in-complex',
                 'child-of-path', 'conflict-simple', 'conflict-complex']


def run(rec):
    rec.rule = ('one evaluation = one find(path) compared with the reference walk (resource identity, template, '
                'exact params incl. types, method map). non-trivial = the reference walk abandoned a child it had '
                'entered (backtracking), a converter vetoed, a multi-segment converter took > 1 segment, or the '
                'lookup follows a rejected add; distinct by (history, path); at most %d remembered per shard' % MAX_KEYED)
    rec.assumptions = ['reference walk vlib/models/c01_router.py is the intended reading of the statement',
                       'request paths and templates start with exactly one "/" (leading-slash normalisation not judged)',
                       'field values inside a multi-field segment are matched greedy/leftmost, one or more chars, '
                       'no newline inside a value; int/float/uuid/dt accept what the Python builtins accept',
                       'acceptance of a template is observed from the real router, never predicted']
    rec.counters['keyed'] = 0
    cohabitation(rec)
    refused_calls(rec)
    reentrant(rec)
    reentrant_add(rec)
    compile_faults(rec)
    self_match(rec)
    rec.count('size.before-exhaustive', rec.counters['mon.find'])
    complete = exhaustive(rec)
    rec.exhaustive = bool(complete)
    if rec.shard == 0:
        rec.note('exhaustive phase of shard 0 took %.1f s' % rec.elapsed())
    rng = rec.rng
    n = 0
    n_min = 60 if rec.tier == 'quick' else 100      # by count, so a loaded machine cannot starve the random phase
    while n < n_min or rec.budget_ok(0.9):
        w = random_history(rec, rng)
        n += 1
        if n <= 2:
            rec.sample({'accepted': w.model.templates[:8], 'ops': len(w.ops)})
    # floors: the deciding monitor and every important branch class were reached
    rec.floor('mon.find', 50_000)
    rec.floor('mon.find.after-rejected-add', 1000)
    rec.floor('exhaustive.pairs-done', rec.nshards)
    rec.floor('exhaustive.triples-done', rec.nshards)
    rec.floor('cohabitation.done', rec.nshards)
    rec.floor('refused-calls.done', rec.nshards)
    rec.floor('reentrant.done', rec.nshards)
    rec.floor('reentrant-add.done', rec.nshards)
    rec.floor('mon.nested-in-add', 200)
    rec.floor('veto.mult', 5)
    rec.floor('fault.done', rec.nshards)
    rec.floor('fault.scenarios', 40)
    rec.floor('fault.lookup-raised', 40)
    rec.floor('self-match.done', rec.nshards)
    rec.floor('mon.self-match', 30)
    rec.floor('reentrant.in-flight-adds', 300)
    rec.floor('mon.nested.find', 50)
    rec.floor('refused-calls.scenarios', 200)
    rec.floor('world.asgi', 50)
    for f in FAULTS:
        rec.floor('reject.' + f, 50)
        rec.floor('reject-then-lookups.' + f, 50)
    for c in ('tagA', 'tagB'):
        rec.floor('veto.' + c, 5)
    rec.floor('cohabitation.scenarios', 48)
    rec.floor('world.profile.alt', 100)
    rec.floor('world.profile.std', 100)
    rec.floor('add.falsy-resource', 1000)
    rec.floor('mon.find.matched-falsy-resource', 1000)
    rec.floor('exhaustive.refused-specials-done', rec.nshards)
    for k in ('bt.lit>cx', 'bt.lit>simple', 'bt.cx>simple', 'bt.cx>cx', 'bt.veto>simple', 'bt.lit>multi',
              'bt.cx>multi', 'bt.then-none'):
        rec.floor(k, 20)
    rec.floor('class.abandoned-branch-had-bound-values', 100)
    rec.floor('class.swallow.1', 20)
    rec.floor('class.swallow.3', 20)
    rec.floor('class.override', 10)
    rec.floor('add.compile_flag', 50)
    for c in ('int', 'float', 'uuid', 'dt', 'veto', 'rest', 'int@0', 'float@0'):      # @0: a min/max bound of zero
        rec.floor('veto.' + c, 5)
    for k in REJECT_FLOORS:
        rec.floor('reject.' + k, 1)
        rec.floor('reject-then-lookups.' + k, 1)
    rec.floor('history', 20)
    rec.floor('mon.rejection-independent', 20)


def replay(rec, w):
    wit = w['witness']
    rec.counters['keyed'] = 0
    if 'self_match' in wit:
        check_self_match(rec, *wit['self_match'])
        rec.case(('replay', 'x'))
        return
    ops = wit['ops']
    head = ops[0] if ops and ops[0][0] == 'world' else ['world', 'std', 0, []]
    world = World(head[1], head[2], head[3] if len(head) > 3 else None, head[4] if len(head) > 4 else False)
    print('router profile %s, resource mode %s, asgi %s, routers configured earlier in the process: %s' % (
        head[1], head[2], world.asgi, world.before))
    for op in ops:
        if op[0] == 'world':
            continue
        if op[0] == 'neighbour':
            world.neighbour(op[1], op[2])
            print('another router created: profile %s%s' % (op[1], ' + late registrations' if op[2] else ''))
        elif op[0] == 'add':
            fault = op[5] if len(op) > 5 else None
            nested = op[6] if len(op) > 6 else None
            out = world.add(rec, op[1], op[2], fault=fault, nested=nested)
            print('add_route(%r, compile=%r%s%s) -> %s' % (op[1], op[2], ', fault=%s' % fault if fault else '',
                                                          ', user code inside it (%s) calls find(%r)' % tuple(nested)
                                                          if nested else '', out))
            if nested:
                judge_nested_in_add(rec, world)
        elif op[0] == 'faulty-find':
            out = world.faulty_find(op[1], op[2])
            print('find(%r) with a compile-time fault (%r) -> %s' % (op[1], op[2], out))
            if out == 'leaked-lock':
                rec.violation('lookup-blocks-on-leaked-compile-lock', {'ops': [list(o) for o in world.ops]})
        elif op[0] == 'nested':
            n0 = rec.counters.get('violations', 0)
            fired = run_nested(rec, world, op[1], op[2], op[3], op[4])
            print('find(%r) with a converter that calls %s(%r%s): converter %s, %d problem(s)' % (
                op[1], 'add_route' if op[2] == 'add' else 'find', op[3], ', compile=True' if op[4] else '',
                'reached' if fired else 'not reached', rec.counters.get('violations', 0) - n0))
        else:
            try:
                world.router.find(op[1])
            except Exception as ex:  # noqa
                print('find(%r) raised %r' % (op[1], ex))
    if 'template' in wit:
        out = world.add(rec, wit['template'], False)
        print('add_route(%r) -> %s' % (wit['template'], out))
        rec.case(('replay', wit['template']))
        rec.case(('replay', 'x'))
        return
    if 'path' not in wit:            # the deciding operation was the last op (a nested lookup)
        rec.case(('replay', 'nested'))
        rec.case(('replay', 'x'))
        return
    v = judge(world, wit['path'])
    print('find(%r): %s' % (wit['path'], 'agrees with the reference walk' if v is None else v))
    check_path(rec, world, wit['path'])
    rec.case(('replay', wit['path']))
    rec.case(('replay', 'x'))
