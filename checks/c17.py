"""C17 - WebSocket sessions follow the ASGI state machine and report misuse and errors.

DESIGN.md section 4, C17.  Real falcon.asgi.App instances are driven by an independent fake
ASGI WebSocket server (vlib/drivers/ws.py: session automaton, exact "disconnect was handed
over" bookkeeping, send-failure injection) on the stepped event loop.  Generated
middleware / responder / error-handler scripts perform WebSocket operations one at a time;
after every operation an online reference model (vlib/models/c17_ws.py, written from the
statement and the public docs) judges the result and the events the operation caused.
At the end the close the framework owes the client (1000, 3000+status, 3404, 3405, the
configured error code, 3011 fallback) is judged the same way.

Not covered here (C18): receive-buffer schedules.  Every server-side event is available
as soon as it is asked for, except at scripted client pauses (which end when the application
can only wait); the other schedule variation is whether receive() yields once.  Receives
with a deadline (asyncio.wait_for on the virtual clock) are cancelled while parked whenever the
client is silent: the interrupted operation must leave no trace.
"""

import asyncio
import collections.abc
import datetime
import email.message
import enum
import functools
import io
import re
import types
import wsgiref.headers
import itertools
import json
import logging

import falcon
import falcon.asgi
import falcon.media
from falcon import errors as ferrors

from vlib.drivers import ws as D
from vlib.models import c17_ws as M

LEVEL = 'fault_enumeration'
SHARDS = {'quick': 4, 'thorough': 16}
BUDGET = {'quick': 15, 'thorough': 150}

falcon._logger.disabled = True          # error handlers log tracebacks: slow and noisy; enabled per case (below)
logging.raiseExceptions = False         # a log record that cannot be rendered is dropped silently (production setting)
_LOG_SINK = io.StringIO()
_LOG_HANDLER = logging.StreamHandler(_LOG_SINK)     # a real formatting handler: records are rendered in emit()
falcon._logger.addHandler(_LOG_HANDLER)
falcon._logger.setLevel(logging.DEBUG)
falcon._logger.propagate = False
logging.getLogger('asyncio').disabled = True

ERR = {
    'OperationNotAllowed': ferrors.OperationNotAllowed,
    'WebSocketDisconnected': ferrors.WebSocketDisconnected,
    'PayloadTypeError': ferrors.PayloadTypeError,
}

KNOWN_CLOSE_NOT_RECORDED = 'ws-close-send-failure-not-recorded'
KNOWN_HANDLER_NO_CLOSE = 'ws-custom-error-handler-leaves-socket-unclosed'
KNOWN_PUMP_STOPPED = 'ws-receive-after-incomplete-close-assertion'
KNOWN_ERROR_CLOSE_NOT_RETRIED = 'ws-error-path-close-failure-not-retried'
KNOWN_MEDIA_BEFORE_DISCONNECT = 'ws-send-media-serializes-before-disconnect-check'


class CustomErr(Exception):
    pass


# --------------------------------------------------------------------------- generated application

class Ctx:
    case = None
    drv = None
    model = None

    def reset(self, case, drv, model):
        self.case, self.drv, self.model = case, drv, model
        self.sites = []             # sites entered, in order
        self.ended = {}             # site -> ('return',) | ('raise', ex)
        self.judged = 0             # operations judged by the model
        self.attributed = set()     # indices of send attempts caused by user-code operations
        self.inflight = None        # (site, index, op) of the operation being awaited
        self.user_end_facts = None  # driver snapshot when the last user-code site ended
        self.ws = None
        self.ws_objs = []
        self.handler_args = None
        self.params = None
        self.res_mw_args = None
        self.ops = {}
        self.route = case['route']  # effective route: process_request_ws may re-route by assigning req.path
        self.rewrites = 0
        self.unser = 0
        self.header_objects = 0
        self.unusual = 0            # exceptions with raising __str__/__repr__/__format__ raised by user code
        self.typed = 0              # typed arguments (str subclasses, IntEnum members) handed to the real code
        self.oplog = []             # (site, op name, result, [attempt outcomes], facts before the operation)
        self.diverged_at = None


CTX = Ctx()


class Masked(str):
    """A str whose display forms differ from its text (display-masking types, e.g. secrets)."""

    def __str__(self):
        return '<redacted>'

    __repr__ = __str__

    def __format__(self, spec):
        return '<redacted>'


def mat(x):
    """JSON form of a typed argument -> the object.

    {'strsub': 'enum'|'masked', 'value': s}: a str subclass instance whose text is s but whose str()/repr()/
    format() differ (member of a (str, Enum) class / masking type); {'intenum': n}: an IntEnum member equal to n."""
    if isinstance(x, dict):
        if 'strsub' in x:
            if x['strsub'] == 'enum':
                return enum.Enum('Keyword', {'MEMBER': x['value']}, type=str).MEMBER
            return Masked(x['value'])
        if 'intenum' in x:
            return enum.IntEnum('AppCode', {'MEMBER': x['intenum']}).MEMBER
    return x


def is_typed(x):
    return isinstance(x, dict) and ('strsub' in x or 'intenum' in x)


class ItemsOnly:
    """Offers items() and nothing else: not a Mapping, not iterable, no len()."""

    def __init__(self, pairs, one_shot=False):
        self._pairs, self._one_shot = pairs, one_shot

    def items(self):
        return iter(self._pairs) if self._one_shot else list(self._pairs)


def header_object(kind, pairs):
    """accept(headers=...): 'an iterable of (name, value) two-item iterables' or 'a dict-like object ... that
    implements an items() method' - every documented shape, incl. one-shot ones."""
    if kind == 'wsgiref':
        return wsgiref.headers.Headers(list(pairs))
    if kind == 'message':
        m = email.message.Message()
        for k, v in pairs:
            m[k] = v
        return m
    if kind == 'items_only':
        return ItemsOnly(pairs)
    if kind == 'items_iter':
        return ItemsOnly(pairs, one_shot=True)
    if kind == 'generator':
        return (p for p in pairs)
    if kind == 'list_of_lists':
        return [list(p) for p in pairs]
    if kind == 'pair_iterators':
        return [iter(p) for p in pairs]
    if kind == 'mapping_proxy':
        return types.MappingProxyType(dict(pairs))
    if kind == 'tuple':
        return tuple(pairs)
    raise AssertionError(kind)


HEADER_OBJECTS = ('wsgiref', 'message', 'items_only', 'items_iter', 'generator', 'list_of_lists', 'pair_iterators',
                  'mapping_proxy', 'tuple')


def prep(step):
    """JSON step -> executable step (adds '_v', '_hdrs'; typed arguments are materialised in the copy)."""
    s = dict(step)
    for k in ('sub', 'code', 'reason'):
        if is_typed(s.get(k)):
            s[k] = mat(s[k])
            CTX.typed += 1
    if s.get('unser'):
        # a media object the configured handlers cannot serialize
        kind = s['unser']
        if kind == 'set':
            s['_v'] = {1, 2}
        elif kind == 'datetime':
            s['_v'] = {'when': datetime.datetime(2020, 1, 1)}
        elif kind == 'object':
            s['_v'] = [object()]
        else:
            loop = []
            loop.append(loop)
            s['_v'] = loop
        CTX.unser += 1
        return s
    v = s.get('v')
    if is_typed(v):
        s['_v'] = mat(v)
        CTX.typed += 1
    elif isinstance(v, dict) and 'hex' in v:
        raw = bytes.fromhex(v['hex'])
        kind = v.get('as', 'bytes')
        s['_v'] = bytearray(raw) if kind == 'bytearray' else memoryview(raw) if kind == 'memoryview' else raw
    else:
        s['_v'] = v
    h = s.get('hdrs')
    if isinstance(h, dict) and 'obj' in h:
        pairs = [tuple(mat(e) for e in p) for p in h['pairs']]
        if h['obj'] == 'mapping_proxy':
            pairs = list(dict(pairs).items())
        s['hdrs'] = pairs                       # what the model reads
        s['_hdrs'] = header_object(h['obj'], pairs)
        CTX.header_objects += 1
    elif isinstance(h, list):
        s['_hdrs'] = [tuple(mat(e) for e in p) for p in h]
        s['hdrs'] = s['_hdrs']
    else:
        s['_hdrs'] = h
    return s


def safe_repr(x):
    try:
        return repr(x)
    except Exception:  # noqa
        return '<unrenderable %s>' % type(x).__name__


def _boom(self, *a):
    raise AttributeError('this exception cannot be rendered')


def badstr(cls):
    """Subclass whose str()/repr()/format() raise (e.g. a __str__ formatting an attribute that is not always set)."""
    return type('Unrenderable' + cls.__name__, (cls,), {'__str__': _boom, '__repr__': _boom, '__format__': _boom})


BAD = {}


def make_exc(step):
    cls, arg = _exc_spec(step)
    if step.get('badstr'):
        if cls not in BAD:
            BAD[cls] = badstr(cls)
        cls = BAD[cls]
        CTX.unusual += 1
    return cls(arg)


def _exc_spec(step):
    k = step['exc']
    if k == 'http_error':
        return falcon.HTTPError, step.get('status', 404)
    if k == 'http_status':
        return falcon.HTTPStatus, step.get('status', 204)
    if k == 'value':
        return ValueError, 'scripted'
    if k == 'type':
        return TypeError, 'scripted'
    if k == 'custom':
        return CustomErr, 'scripted'
    if k == 'wsd':
        return ferrors.WebSocketDisconnected, step.get('code')
    if k == 'ona':
        return ferrors.OperationNotAllowed, 'scripted'
    raise AssertionError(k)


async def do_op(ws, s):
    n = s['op']
    if n == 'accept':
        kw = {}
        if 'sub' in s:
            kw['subprotocol'] = s['sub']
        if s.get('_hdrs') is not None:
            kw['headers'] = s['_hdrs']
        return await ws.accept(**kw)
    if n == 'close':
        kw = {}
        if 'code' in s:
            kw['code'] = s['code']
        if 'reason' in s:
            kw['reason'] = s['reason']
        return await ws.close(**kw)
    if n == 'send_text':
        return await ws.send_text(s['_v'])
    if n == 'send_data':
        return await ws.send_data(s['_v'])
    if n == 'send_media':
        if s.get('pt') == 'binary':
            return await ws.send_media(s['_v'], falcon.WebSocketPayloadType.BINARY)
        if s.get('pt') == 'text':
            return await ws.send_media(s['_v'], falcon.WebSocketPayloadType.TEXT)
        return await ws.send_media(s['_v'])
    if n in ('receive_text', 'receive_data', 'receive_media'):
        coro = getattr(ws, n)()
        if s.get('timeout') is not None:
            # the keep-alive / polling idiom: on the stepped loop the deadline is virtual time and
            # expires only when nothing else can run, i.e. the receive is cancelled while parked
            return await asyncio.wait_for(coro, s['timeout'])
        return await coro
    raise AssertionError(n)


async def run_site(site, ws, steps, req=None):
    c = CTX
    c.sites.append(site)
    drv, model = c.drv, c.model
    try:
        for i, step in enumerate(steps):
            n = step['op']
            if n == 'raise':
                raise make_exc(step)
            if n == 'return':
                break
            if n == 'yield':
                await asyncio.sleep(0)
                continue
            if n == 'set_path':
                # documented re-routing: "a request can be effectively re-routed by setting that attribute
                # to a new value from within process_request_ws()"
                req.path = PATHS[step['to']]
                if site == 'mw_req':
                    c.route = step['to']
                    c.rewrites += 1
                continue
            s = prep(step)
            facts = drv.snapshot()
            n0 = len(drv.attempts)
            c.inflight = (site, i, s)
            try:
                res = ('ok', await do_op(ws, s))
            except Exception as ex:  # noqa
                res = ('exc', ex)
            c.inflight = None
            att = drv.attempts[n0:]
            c.attributed.update(a[0] for a in att)
            phase_before = model.phase
            model.judge(s, facts, att, res)
            c.oplog.append((site, n, res, [a[2] for a in att],
                            {'handed': bool(facts['handed']), 'unser': bool(s.get('unser')), 'phase': phase_before,
                             'wire': facts['state']}))
            if model.diverged and c.diverged_at is None:
                c.diverged_at = len(c.oplog) - 1
            c.judged += 1
            c.ops[n] = c.ops.get(n, 0) + 1
            if res[0] == 'exc' and step.get('prop'):
                raise res[1]
    except Exception as ex:  # noqa
        c.ended[site] = ('raise', ex)
        c.user_end_facts = drv.snapshot()
        raise
    c.ended[site] = ('return',)
    c.user_end_facts = drv.snapshot()


class Middleware:
    async def process_request_ws(self, req, ws):
        CTX.ws_objs.append(ws)
        await run_site('mw_req', ws, CTX.case['mw']['req'], req)

    async def process_resource_ws(self, req, ws, resource, params):
        CTX.ws_objs.append(ws)
        CTX.res_mw_args = (resource, dict(params))
        await run_site('mw_res', ws, CTX.case['mw']['res'], req)


class WsResource:
    async def on_get(self, req, resp):
        resp.media = {'ok': True}

    async def on_websocket(self, req, ws, **params):
        CTX.ws_objs.append(ws)
        CTX.params = params
        CTX.responder_of = self
        await run_site('responder', ws, CTX.case['steps'], req)


class HttpOnlyResource:
    async def on_get(self, req, resp):
        resp.media = {'ok': True}


async def handler_with_ws(req, resp, ex, params, ws=None):
    CTX.handler_args = (resp, ws, ex)
    await run_site('handler', ws, CTX.case['handler']['steps'])


async def handler_without_ws(req, resp, ex, params):
    CTX.handler_args = (resp, 'not-passed', ex)
    await run_site('handler', None, CTX.case['handler']['steps'])


# every way of spelling "this handler declares a parameter named ws" (docs: the WebSocket "will be passed as a
# keyword argument named ws")
async def handler_ws_kwonly(req, resp, ex, params, *, ws=None):
    await handler_with_ws(req, resp, ex, params, ws=ws)


async def handler_ws_kwonly_required(req, resp, ex, params, *, ws):
    await handler_with_ws(req, resp, ex, params, ws=ws)


async def handler_ws_required(req, resp, ex, params, ws):
    await handler_with_ws(req, resp, ex, params, ws=ws)


async def handler_ws_and_kwargs(req, resp, ex, params, ws=None, **kwargs):
    await handler_with_ws(req, resp, ex, params, ws=ws)


class HandlerMethods:
    async def on_error(self, req, resp, ex, params, ws=None):
        await handler_with_ws(req, resp, ex, params, ws=ws)

    async def __call__(self, req, resp, ex, params, *, ws=None):
        await handler_with_ws(req, resp, ex, params, ws=ws)


async def _handler_extra(tag, req, resp, ex, params, ws=None):
    await handler_with_ws(req, resp, ex, params, ws=ws)


HANDLER_FUNCS = {
    'ws': handler_with_ws,
    'nows': handler_without_ws,
    'ws_kwonly': handler_ws_kwonly,
    'ws_kwonly_required': handler_ws_kwonly_required,
    'ws_required': handler_ws_required,
    'ws_and_kwargs': handler_ws_and_kwargs,
    'ws_method': HandlerMethods().on_error,
    'ws_callable': HandlerMethods(),
    'ws_partial': functools.partial(_handler_extra, 'tag'),
}
WS_SIGS = tuple(k for k in HANDLER_FUNCS if k != 'nows')


class BinHandler(falcon.media.BinaryBaseHandlerWS):
    def serialize(self, media):
        return M.Binary.enc(media)

    def deserialize(self, payload):
        return M.Binary.dec(payload)


WS_RES = WsResource()
NOWS_RES = HttpOnlyResource()
_apps = {}
_own_table = {}              # the default_close_reasons object each app was born with
APP_PROBLEMS = []            # configuration findings made when an app is created


def reference_reasons():
    """docs (WebSocketOptions.default_close_reasons): a mapping between the close code and the reason; "close
    codes corresponding to HTTP errors are also included" - 1000, 1011/3011 and 3000+status with the reason
    phrase of the public falcon.HTTP_1xx..5xx constants.  Built here, never read from an app."""
    ref = {1000: 'Normal Closure', 1011: 'Internal Server Error', 3011: 'Internal Server Error'}
    for name in dir(falcon.status_codes):
        if re.fullmatch(r'HTTP_[1-5]\d\d', name):
            code, _, phrase = getattr(falcon.status_codes, name).partition(' ')
            ref[3000 + int(code)] = phrase
    return ref


REFERENCE_REASONS = reference_reasons()


def edit_in_place(table):
    """The documented way to customise one app: add / replace / delete entries of its own table."""
    table[4001] = 'four thousand one'
    table[3404] = 'No such channel'
    table[1000] = 'Bye'
    table.pop(1011, None)
    table[3403] = 'Nope'
    return table


def get_app(mw, handler_sig, inplace=False):
    """Returns (app, the reasons this app must use when left as it is)."""
    key = (bool(mw), handler_sig, bool(inplace))
    app = _apps.get(key)
    if app is None:
        app = falcon.asgi.App(middleware=[Middleware()] if mw else None)
        app.add_route('/ws', WS_RES)
        app.add_route('/room/{name}', WS_RES)
        app.add_route('/nows', NOWS_RES)
        if handler_sig is not None:
            app.add_error_handler(CustomErr, HANDLER_FUNCS[handler_sig])
        app.ws_options.media_handlers[falcon.WebSocketPayloadType.BINARY] = BinHandler()
        table = app.ws_options.default_close_reasons
        # every app starts from the documented defaults, and owns its table
        if dict(table) != REFERENCE_REASONS:
            diff = {k: (REFERENCE_REASONS.get(k), table.get(k)) for k in set(REFERENCE_REASONS) | set(table)
                    if REFERENCE_REASONS.get(k) != table.get(k)}
            APP_PROBLEMS.append(('new-app-close-reasons-not-default', {'app': list(key), 'diff(want,got)': diff,
                                                                       'apps_before': [list(k) for k in _apps]}))
        for k2, t2 in _own_table.items():
            if t2 is table:
                APP_PROBLEMS.append(('close-reasons-table-shared-between-apps', {'app': list(key), 'other': list(k2)}))
        if inplace:
            edit_in_place(table)
        _own_table[key] = table
        _apps[key] = app
    app.ws_options.default_close_reasons = _own_table[key]        # undo a replacement made by an earlier case
    return app, (edit_in_place(dict(REFERENCE_REASONS)) if inplace else dict(REFERENCE_REASONS))


PATHS = {'ok': '/ws', 'param': '/room/lobby', 'unrouted': '/nope', 'nows': '/nows'}


def client_events(client):
    out = []
    for c in client:
        t = c['t']
        if t == 'text':
            ev = {'type': 'websocket.receive', 'text': c['v']}
            if c.get('both'):
                ev['bytes'] = None
        elif t == 'bytes':
            ev = {'type': 'websocket.receive', 'bytes': bytes.fromhex(c['hex'])}
            if c.get('both'):
                ev['text'] = None
        elif t == 'pause':
            ev = {'type': D.PAUSE}
        elif t == 'disc':
            ev = {'type': 'websocket.disconnect'}
            if c.get('code') is not None:
                ev['code'] = c['code']
        else:
            raise AssertionError(t)
        out.append(ev)
        if t == 'disc':
            break               # a server says nothing after the disconnect
    return out


def norm_case(case):
    c = {'spec': '2.4', 'queue': 4, 'route': 'ok', 'mw': None, 'handler': None, 'err_code': 1011,
         'reject': [], 'offered': [], 'strict': False, 'rx_yield': False, 'steps': [], 'client': [],
         'fail': None, 'first': None, 'reasons': 'default'}
    c.update(case)
    return c


# --------------------------------------------------------------------------- one case

class Outcome:
    pass


def execute(case):
    """Run one case against the real code; returns Outcome with driver, model, problems."""
    case = norm_case(case)
    handler = case['handler']
    app, reasons = get_app(case['mw'] is not None, handler['sig'] if handler else None,
                           inplace=case['reasons'] == 'inplace')
    opts = app.ws_options
    opts.max_receive_queue = case['queue']
    err_code = mat(case['err_code'])
    opts.error_close_code = err_code
    if case['reasons'] == 'custom':
        # replacing the attribute with a new mapping
        reasons = dict(reasons)
        reasons.pop(1000, None)
        reasons[4001] = 'four thousand one'
        reasons[3403] = 'Nope'
        opts.default_close_reasons = reasons
    falcon._logger.disabled = not uses_logging(case)
    spec = case['spec']
    evs = client_events(case['client'])
    fail = case['fail'] or {}
    first = None
    if case['first'] == 'disconnect':
        first = {'type': 'websocket.disconnect', 'code': 1001}
    elif case['first'] == 'receive':
        first = {'type': 'websocket.receive', 'text': 'early'}
    drv = D.WsSession(evs, spec_version=None if spec in (None, 'noasgi') else spec,
                      fail_at=fail.get('at'), fail_kind=fail.get('kind', 'oserror'),
                      reject_close_codes=case['reject'],
                      strict_subprotocols=case['offered'] if case['strict'] else None,
                      rx_yield=case['rx_yield'], first_event=first)
    model = M.SessionModel(None if spec in (None, 'noasgi') else spec, evs, reasons, ERR)
    CTX.reset(case, drv, model)
    scope = D.make_ws_scope(PATHS[case['route']], spec_version=None if spec in (None, 'noasgi') else spec,
                            subprotocols=case['offered'], asgi_key=spec != 'noasgi')
    drv.run(app, scope)
    o = Outcome()
    o.case, o.drv, o.model = case, drv, model
    o.err_code = err_code
    o.problems = []          # (kind, detail)
    o.diag = []
    o.terminal = None
    judge_end(o)
    return o


def uses_logging(case):
    """Cases raising exceptions with unusual dunders run with the real logging path switched on."""
    scripts = [case['steps']]
    if case['mw']:
        scripts += [case['mw']['req'], case['mw']['res']]
    if case['handler']:
        scripts.append(case['handler']['steps'])
    return any(s.get('badstr') for sc in scripts for s in sc)


def expected_sites(case, route):
    """Which user-code sites must run, in order, until one of them raises (docs: middleware order,
    process_resource_ws only for routed resources)."""
    sites = []
    if case['mw'] is not None:
        sites.append('mw_req')
    if route in ('ok', 'param', 'nows') and case['mw'] is not None:
        sites.append('mw_res')
    if route in ('ok', 'param'):
        sites.append('responder')
    return sites


def ends_by_script(steps):
    """Can be decided only at run time for 'prop' steps; used for the trace oracle."""
    for s in steps:
        if s['op'] == 'raise':
            return 'raise'
        if s['op'] == 'return':
            return 'return'
    return 'return'


def judge_end(o):
    P = []
    _judge_end(o, P)
    drv, model = o.drv, o.model
    allp = [('wire:' + tag, {'text': text}) for tag, text in drv.problems]
    allp += [('model:' + kind, detail) for kind, detail in model.problems]
    allp += P
    if o.case['first'] == 'disconnect':
        # a close in reply to a first-event disconnect: diagnostic only (no conforming server does that)
        if any(p[0] == 'wire:after-disconnect' for p in allp):
            o.diag.append('reply-to-first-event-disconnect')
        allp = [p for p in allp if p[0] != 'wire:after-disconnect']
    o.problems = allp


def _judge_end(o, P):
    case, drv, model = o.case, o.drv, o.model
    c = CTX

    if case['first'] is not None:
        # handshake-abandoned branch: only the wire automaton judges
        o.terminal = ('abandoned',)
        if c.sites:
            P.append(('user-code-ran-without-connect', {'sites': c.sites}))
        return

    # ---- a blocked operation
    if drv.outcome == 'blocked':
        if c.inflight is None:
            P.append(('blocked-outside-operation', {'sites': c.sites}))
        else:
            model.blocked(c.inflight[2])
        o.terminal = ('blocked',)
        return
    if drv.outcome == 'steps':
        P.append(('did-not-finish', {}))
        return

    # ---- which user code ran, and how it ended
    route = c.route               # the path as the request middleware left it decides the route
    want_sites = expected_sites(case, route)
    ran = [s for s in c.sites if s != 'handler']
    ended_ex = None
    seq = []
    for s in want_sites:
        seq.append(s)
        e = c.ended.get(s)
        if e is None or e[0] == 'raise':
            ended_ex = e[1] if e else None
            break
    if ran != seq:
        P.append(('trace-mismatch', {'want': seq, 'ran': c.sites}))
        return
    if ended_ex is None:
        if route == 'unrouted':
            terminal = ('http', 404)
        elif route == 'nows':
            terminal = ('http', 405)
        else:
            terminal = ('return',)
    else:
        terminal = classify_exc(ended_ex)

    # ---- routing / params / ws identity
    if 'responder' in ran and route == 'param' and c.params != {'name': 'lobby'}:
        P.append(('params-mismatch', {'got': c.params}))
    if 'responder' in ran and route == 'ok' and c.params != {}:
        P.append(('params-mismatch', {'got': c.params}))
    if 'mw_res' in ran:
        resource, params = c.res_mw_args
        want_res = NOWS_RES if route == 'nows' else WS_RES
        if resource is not want_res or params != ({'name': 'lobby'} if route == 'param' else {}):
            P.append(('resource-middleware-args', {'route': route, 'resource': repr(resource), 'params': params}))
    if len({id(w) for w in c.ws_objs}) > 1:
        P.append(('different-ws-objects', {}))

    # ---- custom error handler
    handler = case['handler']
    if ended_ex is not None and isinstance(ended_ex, CustomErr) and handler is not None:
        if 'handler' not in c.sites:
            P.append(('handler-not-called', {}))
            return
        resp, ws, ex = c.handler_args
        if resp is not None:
            P.append(('handler-resp-not-none', {'resp': repr(resp)}))
        if ex is not ended_ex:
            P.append(('handler-wrong-exception', {}))
        if handler['sig'] != 'nows':
            if ws is None or (c.ws_objs and ws is not c.ws_objs[0]):
                P.append(('handler-ws-not-passed', {'ws': repr(ws)}))
        e = c.ended.get('handler')
        if e is None:
            P.append(('handler-did-not-end', {}))
            return
        terminal = ('handled',) if e[0] == 'return' else classify_exc(e[1])
        if terminal[0] == 'unexpected':
            terminal = ('handler-failed',)
    elif 'handler' in c.sites:
        P.append(('handler-called-unexpectedly', {'ended': safe_repr(ended_ex)}))
    o.terminal = terminal

    # ---- the close the framework owes
    fw = [a for a in drv.attempts if a[0] not in c.attributed]
    facts = c.user_end_facts or {'handed': False}
    if model.phase == M.UNKNOWN or terminal[0] == 'handler-failed':
        pass
    elif model.phase in (M.HANDSHAKE, M.ACCEPTED) and not model.lost and not facts['handed']:
        if terminal[0] == 'handled':
            codes = []
        else:
            codes = M.expected_final_code(terminal, o.err_code, set(case['reject']))
        got_codes = [a[1].get('code', 1000) if isinstance(a[1], dict) else None for a in fw]
        injected = any(a[2] != 'sent' and a[2] != 'raised:invalid_close_code' for a in fw)
        if terminal[0] == 'handled':
            pass        # a custom handler took over: only "some close is sent" (below) is demanded
        elif not injected:
            if got_codes != codes:
                P.append(('final-close-code', {'terminal': list(terminal), 'want': codes, 'got': got_codes,
                                               'events': [a[1] for a in fw]}))
            else:
                for a, code in zip(fw, codes):
                    model.check_close_attempt(a[1], code, None, 'framework close')
        else:
            # the fault hit the framework's own close: the first attempt must still be the right one
            if codes and (not fw or got_codes[0] != codes[0]):
                P.append(('final-close-code', {'terminal': list(terminal), 'want': codes, 'got': got_codes,
                                               'events': [a[1] for a in fw], 'fault': True}))
    else:
        if fw:
            P.append(('framework-event-on-finished-connection', {'events': [a[1] for a in fw], 'phase': model.phase,
                                                                 'lost': model.lost, 'handed': facts['handed']}))

    # ---- statement level: a close (or denial) is always sent while the client is still connected
    if terminal[0] != 'handler-failed' and not model.handshake_rejected and drv.unclosed_at_end():
        P.append(('no-close-at-end', {'terminal': list(terminal), 'state': drv.state, 'app_outcome': drv.outcome,
                                      'exc': safe_repr(drv.exc)}))
    if drv.outcome == 'raised':
        o.diag.append('app-raised:' + type(drv.exc).__name__)
    if drv.pending_tasks:
        o.diag.append('task-left-running')
    if drv.loop_errors:
        o.diag.append('loop-error')


def classify_exc(ex):
    if isinstance(ex, falcon.HTTPError):
        return ('http', ex.status_code)
    if isinstance(ex, falcon.HTTPStatus):
        return ('http', ex.status_code)
    return ('unexpected',)


def explain(o):
    """Split the problems of one session by mechanism: [(known_key or None, [problems])].

    Narrow classifiers for defects of the unchanged tree (see known_findings.json); anything they do not
    cover stays an unclassified violation."""
    drv, case, c = o.drv, o.case, CTX
    rest = list(o.problems)
    out = []

    def take(key, pred):
        got = [p for p in rest if pred(p)]
        if got:
            out.append((key, got))
            for p in got:
                rest.remove(p)

    # (1) WebSocket.close() sends through the raw send callable: a connection-lost error raised by the
    #     server while sending websocket.close is neither translated nor recorded, so later operations
    #     and the framework's own close try to send again.
    if drv.lost and drv.lost_on == 'websocket.close' and case['fail']:
        later = [a for a in drv.attempts if a[2].startswith('raised:') and a[0] > case['fail']['at']]
        if later:
            take(KNOWN_CLOSE_NOT_RECORDED, lambda p: p[0] == 'wire:after-lost')
    # (3) close() stops the receive pump first; when it then does not complete (invalid code -> ValueError,
    #     client already gone -> silent no-op, server send raised) the socket stays "accepted" with no pump and
    #     the next receive_*() trips an internal assertion instead of working / raising WebSocketDisconnected
    if c.diverged_at is not None and case['queue'] > 0:
        site, opname, res, _, _ = c.oplog[c.diverged_at]
        if opname.startswith('receive_') and res[0] == 'exc' and type(res[1]) is AssertionError:
            if any(e[1] == 'close' and 'sent' not in e[3] for e in c.oplog[:c.diverged_at]):
                take(KNOWN_PUMP_STOPPED, lambda p: p[0].startswith('model:') and p[1].get('op') == opname)
    # (5) send_media() checks only its own state flag before running the media handler; that the receive pump
    #     has already been handed the client's disconnect is looked at later (in _send): with an object the
    #     handler cannot serialize the handler's error is raised instead of WebSocketDisconnected.  (Accepted
    #     socket on which the app sent no close event; a ws.close() after the disconnect is a silent no-op
    #     that leaves the flag untouched.)
    if c.diverged_at is not None:
        site, opname, res, outcomes, info = c.oplog[c.diverged_at]
        if opname == 'send_media' and info['unser'] and info['handed'] and info['wire'] == D.OPEN \
                and not outcomes and res[0] == 'exc' and case['queue'] > 0 \
                and not isinstance(res[1], (ferrors.WebSocketDisconnected, ferrors.OperationNotAllowed)):
            take(KNOWN_MEDIA_BEFORE_DISCONNECT, lambda p: p[0] == 'model:wrong-error' and p[1].get('op') == 'send_media')
    # (2) a custom error handler that returns without closing: nothing closes the socket afterwards
    if o.terminal == ('handled',) and drv.outcome == 'done':
        take(KNOWN_HANDLER_NO_CLOSE, lambda p: p[0] == 'no-close-at-end')
    # (4) the close issued on an error path (default HTTPError/HTTPStatus/Exception handlers, cleanup after a
    #     custom handler) is attempted once: when the server's send fails on it with an error that does not
    #     mean the client is gone, the error escapes the app and the still connected client gets no close.
    #     (After a normal return the same failure IS retried with error_close_code - not classified here.)
    fail = case['fail']
    if fail and fail.get('kind') == 'runtime' and drv.outcome == 'raised' and isinstance(drv.exc, RuntimeError) \
            and 'simulated transient' in str(drv.exc) and o.terminal and o.terminal[0] in ('http', 'unexpected', 'handled'):
        k = fail['at']
        if k < len(drv.attempts) and k not in c.attributed and drv.attempts[k][2] == 'raised:runtime' \
                and drv.attempts[k][1].get('type') == 'websocket.close' and k == len(drv.attempts) - 1:
            take(KNOWN_ERROR_CLOSE_NOT_RETRIED, lambda p: p[0] == 'no-close-at-end')
    if rest:
        out.append((None, rest))
    return out


def run_case(rec, case, tag):
    o = execute(case)
    drv, model = o.drv, o.model
    c = CTX
    # ---- evidence counters
    rec.count('mon.wire.attempts', len(drv.attempts))
    rec.count('mon.model.ops', c.judged)
    for n, k in c.ops.items():
        rec.count('op.' + n, k)
    for b in model.branches:
        rec.count('branch.' + b)
    if o.terminal:
        rec.count('terminal.' + o.terminal[0])
        if o.terminal[0] == 'http':
            rec.count('terminal.http.%d' % o.terminal[1])
    if drv.close_event is not None:
        code = drv.close_event.get('code', 1000)
        rec.count('close.sent')
        if code in (1000, 1011, 3011, 3404, 3405):
            rec.count('close.code.%d' % code)
        elif 3000 <= code < 4000:
            rec.count('close.code.3xxx')
        else:
            rec.count('close.code.other')
        rec.count('close.denial' if drv.state == D.DENIED else 'close.after-accept')
        if 'reason' in drv.close_event:
            rec.count('close.with-reason')
    for a in drv.attempts:
        if a[2] != 'sent':
            rec.count('fault.%s.%s' % (a[2].split(':')[1], (a[1].get('type') or '?').split('.')[-1]))
    if drv.disconnect_handed:
        rec.count('server.disconnect-handed')
    while APP_PROBLEMS:
        kind, detail = APP_PROBLEMS.pop(0)
        rec.violation('app-config:' + kind, {'case': case, 'problems': [[kind, detail]]})
    if c.unusual:
        rec.count('args.unrenderable-exception', c.unusual)
    if c.header_objects:
        rec.count('args.header-object', c.header_objects)
    if c.unser:
        rec.count('args.unserializable-media', c.unser)
    if norm_case(case)['handler']:
        rec.count('handler.sig.' + norm_case(case)['handler']['sig'])
    rec.count('reasons.' + norm_case(case)['reasons'])
    if c.typed:
        rec.count('args.typed', c.typed)
    if is_typed(norm_case(case)['err_code']):
        rec.count('args.typed')
        rec.count('args.typed-error-close-code')
    if c.rewrites:
        rec.count('route.rewritten')
        rec.count('route.rewritten-to.' + c.route)
    if drv.pauses_released:
        rec.count('server.pauses-released', drv.pauses_released)
    if drv.rx_parked:
        rec.count('server.receive-parked', drv.rx_parked)
    rec.count('spec.%s' % case_spec(case))
    rec.count('queue.%s' % ('0' if norm_case(case)['queue'] == 0 else 'n'))
    rec.count('outcome.' + str(drv.outcome))
    rec.count('phase.' + tag)
    for d in o.diag:
        rec.count('diag.' + d)
    nontrivial = c.judged > 0 or len(drv.attempts) > 0
    rec.case(json.dumps(case, sort_keys=True) if nontrivial else None)
    for key, probs in explain(o) if o.problems else ():
        wit = {'case': case, 'problems': [[k, d] for k, d in probs[:6]],
               'attempts': [[a[0], a[1], a[2]] for a in drv.attempts[:12]],
               'sites': c.sites, 'outcome': drv.outcome, 'exc': safe_repr(drv.exc), 'terminal': o.terminal}
        rec.violation(probs[0][0], wit, known_key=key)
    return o


def case_spec(case):
    s = case.get('spec', '2.4')
    return 'absent' if s in (None, 'noasgi') else s


# --------------------------------------------------------------------------- generators

T1 = {'t': 'text', 'v': '{"a": [1, "é"]}'}
B1 = {'t': 'bytes', 'hex': M.Binary.enc({'b': 2}).hex()}

OPS_A = [
    {'op': 'accept'},
    {'op': 'accept', 'sub': 'wamp', 'hdrs': [['X-One', '1'], ['x-two', 'b']]},
    {'op': 'close'},
    {'op': 'close', 'code': 4001, 'reason': 'bye'},
    {'op': 'close', 'code': 1005},
    {'op': 'send_text', 'v': 'héllo'},
    {'op': 'send_data', 'v': {'hex': '00ff10'}},
    {'op': 'send_media', 'v': {'k': [1, 'x']}},
    {'op': 'receive_text'},
    {'op': 'receive_data'},
    {'op': 'receive_media'},
    {'op': 'yield'},
    {'op': 'raise', 'exc': 'http_error', 'status': 403},
    {'op': 'raise', 'exc': 'value'},
    {'op': 'send_text', 'v': 'p', 'prop': True},
    {'op': 'receive_text', 'prop': True},
    {'op': 'send_text', 'v': {'hex': '6162'}},
    {'op': 'send_data', 'v': 'str'},
    {'op': 'receive_text', 'timeout': 5},
    {'op': 'receive_media', 'timeout': 0.25},
]


def client_scripts(maxmsgs):
    out = []
    for n in range(maxmsgs + 1):
        for msgs in itertools.product([T1, B1], repeat=n):
            for end in (None, {'t': 'disc', 'code': 1001}, {'t': 'disc'}):
                out.append(list(msgs) + ([end] if end else []))
    return out


CONFIGS_A = [
    {'spec': '2.0', 'queue': 0},
    {'spec': '2.2', 'queue': 2},
    {'spec': '2.4', 'queue': 2, 'rx_yield': True},
    {'spec': '2.4', 'queue': 0},
    {'spec': None, 'queue': 4, 'rx_yield': True},
    {'spec': '2.3', 'queue': 1},
    {'spec': '2.1', 'queue': 1, 'rx_yield': True, 'reasons': 'custom'},
    {'spec': 'noasgi', 'queue': 0, 'rx_yield': True},
]

FAULT_CONFIGS = [{'spec': '2.4', 'queue': 0}, {'spec': '2.4', 'queue': 2}]


def scripts_upto(alphabet, maxlen):
    for n in range(maxlen + 1):
        for tup in itertools.product(range(len(alphabet)), repeat=n):
            # nothing after a raise is executed: keep only canonical scripts
            if any(alphabet[i]['op'] == 'raise' for i in tup[:-1]):
                continue
            yield [alphabet[i] for i in tup]


def faults_for(rec, base_case, o, idx, all_kinds):
    """Fault enumeration: every send index of the fault-free run (accept, data and close events, whoever
    issued them): connection-lost kinds (persistent) and an unrelated one-shot error (the client stays
    connected, the next send works)."""
    n = len(o.drv.attempts)
    for k in range(n):
        ev = o.drv.attempts[k][1]
        kinds = list(D.FAIL_KINDS) if all_kinds else [D.FAIL_KINDS[(idx + k) % len(D.FAIL_KINDS)]]
        for kind in kinds:
            case = dict(base_case)
            case['fail'] = {'at': k, 'kind': kind}
            run_case(rec, case, 'fault')
            rec.count('fault.cases')


def block_a(rec):
    """Bounded-exhaustive: responder scripts x client scripts x server configurations (+ fault indices)."""
    quick = rec.tier == 'quick'
    maxlen = 2 if quick else 3
    clients = client_scripts(2)
    idx = 0
    for steps in scripts_upto(OPS_A, maxlen):
        for client in clients:
            idx += 1
            if idx % rec.nshards != rec.shard:
                continue
            j = idx // rec.nshards
            if quick:
                cfgs = [CONFIGS_A[j % len(CONFIGS_A)], CONFIGS_A[(j + 3) % len(CONFIGS_A)]]
            elif len(steps) == 3:
                cfgs = [CONFIGS_A[j % len(CONFIGS_A)], CONFIGS_A[(j + 3) % len(CONFIGS_A)],
                        CONFIGS_A[(j + 5) % len(CONFIGS_A)]]
            else:
                cfgs = CONFIGS_A
            for cfg in cfgs:
                case = dict(cfg)
                case['steps'] = steps
                case['client'] = client
                run_case(rec, case, 'exhaustive-scripts')
            fcfg = FAULT_CONFIGS[j % 2]
            case = dict(fcfg)
            case['steps'] = steps
            case['client'] = client
            o = run_case(rec, case, 'exhaustive-scripts')
            if o.drv.attempts and (not quick or len(steps) <= 2):
                faults_for(rec, case, o, j, all_kinds=not quick and len(steps) <= 2)
    return idx


PAUSE = {'t': 'pause'}
CLIENTS_D = [
    [],
    [PAUSE, T1],
    [PAUSE, B1, T1],
    [T1, PAUSE, B1],
    [PAUSE, PAUSE, T1, {'t': 'disc', 'code': 1001}],
    [PAUSE, {'t': 'disc'}],
    [T1, B1],
]
TIMED = [
    {'op': 'receive_text', 'timeout': 5},
    {'op': 'receive_data', 'timeout': 0.001},
    {'op': 'receive_media', 'timeout': 3600},
]
AFTER_D = [
    None,
    {'op': 'receive_text'},
    {'op': 'receive_data', 'timeout': 2},
    {'op': 'send_text', 'v': 'still here'},
    {'op': 'close', 'code': 4001},
]
CONFIGS_D = [
    {'spec': '2.4', 'queue': 4}, {'spec': '2.4', 'queue': 0}, {'spec': '2.0', 'queue': 1, 'rx_yield': True},
    {'spec': '2.3', 'queue': 0, 'rx_yield': True}, {'spec': None, 'queue': 2}, {'spec': '2.1', 'queue': 16, 'rx_yield': True},
]


def block_d(rec):
    """Bounded-exhaustive: interruption of a waiting operation followed by further operations.

    The only operations that can be suspended at the server boundary are the receives (this fake server's
    send never suspends).  accept; [receive]; timed receive X; any operation Y; one of a few operations Z
    x client scripts with pauses x queue sizes: a receive cancelled while parked must consume nothing and
    leave the socket exactly as it was."""
    idx = 0
    for pre in (None, {'op': 'receive_text'}, {'op': 'send_text', 'v': 'hi'}):
        for x in TIMED:
            for y in OPS_A + TIMED[1:]:
                for z in AFTER_D:
                    for client in CLIENTS_D:
                        idx += 1
                        if idx % rec.nshards != rec.shard:
                            continue
                        j = idx // rec.nshards
                        steps = [{'op': 'accept'}] + ([pre] if pre else []) + [x, y] + ([z] if z else [])
                        cfgs = CONFIGS_D if rec.tier != 'quick' else [CONFIGS_D[j % 6], CONFIGS_D[(j + 1) % 6]]
                        for cfg in cfgs:
                            case = dict(cfg)
                            case['steps'] = steps
                            case['client'] = client
                            run_case(rec, case, 'exhaustive-cancel')
    return idx


def SS(kind, value):
    return {'strsub': kind, 'value': value}


def IE(n):
    return {'intenum': n}


def block_e(rec):
    """Bounded-exhaustive: (a) documented argument types other than the exact built-ins - every str argument
    of the WebSocket API as a str subclass whose str()/repr()/format() differ from its text, every int
    argument (close codes, ws_options.error_close_code) as an IntEnum member; (b) process_request_ws
    re-routing the handshake by assigning req.path."""
    idx = 0
    cfgs = [{'spec': sp, 'queue': q} for sp in ('2.0', '2.3', '2.4') for q in (0, 2)]

    def go(case, tag):
        nonlocal idx
        idx += 1
        if idx % rec.nshards == rec.shard:
            run_case(rec, case, tag)

    texts = ['pong', '', 'é€ "x"']
    for cfg in cfgs:
        for kind in ('enum', 'masked'):
            for t in texts:
                # send_text payload / close reason / subprotocol / accept header names and values
                go(dict(cfg, steps=[{'op': 'accept'}, {'op': 'send_text', 'v': SS(kind, t)},
                                    {'op': 'send_text', 'v': t}]), 'types')
                go(dict(cfg, steps=[{'op': 'send_text', 'v': SS(kind, t)}]), 'types')
                go(dict(cfg, steps=[{'op': 'accept'}, {'op': 'close', 'code': 4001, 'reason': SS(kind, t)}]), 'types')
                go(dict(cfg, steps=[{'op': 'close', 'reason': SS(kind, t)}]), 'types')
            for sub in ('wamp', 'zzz'):
                for strict in (False, True):
                    go(dict(cfg, offered=['wamp', 'graphql-ws'], strict=strict,
                            steps=[{'op': 'accept', 'sub': SS(kind, sub)}, {'op': 'send_text', 'v': 'x'}]), 'types')
            go(dict(cfg, steps=[{'op': 'accept', 'hdrs': [[SS(kind, 'X-Kw'), SS(kind, 'v1')], ['x-b', SS(kind, '')]]},
                                {'op': 'send_data', 'v': {'hex': '00'}}]), 'types')
            go(dict(cfg, steps=[{'op': 'accept', 'hdrs': [[SS(kind, 'Sec-WebSocket-Protocol'), 'wamp']]}]), 'types')
        for code in (1000, 1001, 3000, 4008, 4999, 1005, 1015, 999, 0):
            for pre in ([], [{'op': 'accept'}]):
                for reason in (None, 'why'):
                    st = {'op': 'close', 'code': IE(code)}
                    if reason:
                        st['reason'] = reason
                    go(dict(cfg, steps=pre + [st, {'op': 'send_text', 'v': 'after'}]), 'types')
            go(dict(cfg, mw={'req': [{'op': 'close', 'code': IE(code)}], 'res': []}, steps=[{'op': 'accept'}]), 'types')
            go(dict(cfg, steps=[{'op': 'accept'}, {'op': 'raise', 'exc': 'custom'}],
                    handler={'sig': 'ws', 'steps': [{'op': 'close', 'code': IE(code)}]}), 'types')
        for ec in ({'err_code': IE(1011)}, {'err_code': IE(4008)}, {'err_code': IE(3011)}, {'err_code': IE(1005)},
                   {'err_code': IE(999)}, {'err_code': IE(4008), 'reject': [4008]},
                   {'err_code': IE(1011), 'reject': [1011]}):
            for steps in ([{'op': 'raise', 'exc': 'value'}], [{'op': 'accept'}, {'op': 'raise', 'exc': 'type'}],
                          [{'op': 'accept'}, {'op': 'receive_text', 'prop': True}], [{'op': 'accept'}],
                          [{'op': 'raise', 'exc': 'http_error', 'status': 403}]):
                go(dict(cfg, steps=steps, client=[{'t': 'bytes', 'hex': '00'}], **ec), 'types')
            go(dict(cfg, steps=[{'op': 'accept'}, {'op': 'raise', 'exc': 'custom'}],
                    handler={'sig': 'nows', 'steps': []}, **ec), 'types')
    # accept(headers=...): every documented shape of the argument
    pair_sets = ([['Set-Cookie', 'a=1'], ['Set-Cookie', 'b=2'], ['X-Mixed-Case', 'V']], [['x-one', '']],
                 [[SS('enum', 'X-Kw'), SS('masked', 'v')], ['Sec-WebSocket-Protocol', 'wamp']])
    for cfg in [{'spec': sp, 'queue': q} for sp in (None, '2.0', '2.1', '2.4') for q in (0, 2)]:
        for kind in HEADER_OBJECTS:
            for pairs in pair_sets:
                go(dict(cfg, steps=[{'op': 'accept', 'hdrs': {'obj': kind, 'pairs': pairs}},
                                    {'op': 'send_text', 'v': 'x'}]), 'header-objects')
            go(dict(cfg, mw={'req': [{'op': 'accept', 'sub': 'wamp', 'hdrs': {'obj': kind, 'pairs': pair_sets[0]}}],
                             'res': []}, offered=['wamp'], steps=[{'op': 'send_text', 'v': 'x'}]), 'header-objects')
    # exceptions whose str()/repr()/format() raise, on every path that reports an exception
    for cfg in cfgs:
        for exc in ({'exc': 'http_error', 'status': 403}, {'exc': 'http_error', 'status': 500},
                    {'exc': 'http_status', 'status': 204}, {'exc': 'http_status', 'status': 404},
                    {'exc': 'value'}, {'exc': 'custom'}, {'exc': 'wsd', 'code': 1001}):
            r = dict(exc, op='raise', badstr=True)
            for pre in ([], [{'op': 'accept'}], [{'op': 'accept'}, {'op': 'send_text', 'v': 'x'}]):
                go(dict(cfg, steps=pre + [r]), 'unrenderable')
                go(dict(cfg, mw={'req': pre + [r], 'res': []}, steps=[]), 'unrenderable')
                go(dict(cfg, mw={'req': [], 'res': pre + [r]}, steps=[]), 'unrenderable')
            for handler in HANDLERS[1:]:
                if exc['exc'] == 'custom':
                    go(dict(cfg, steps=[{'op': 'accept'}, r], handler=handler), 'unrenderable')
        for hexc in ({'exc': 'http_error', 'status': 409}, {'exc': 'http_status', 'status': 202}):
            for sig in ('ws', 'nows'):
                go(dict(cfg, steps=[{'op': 'accept'}, {'op': 'raise', 'exc': 'custom'}],
                        handler={'sig': sig, 'steps': [dict(hexc, op='raise', badstr=True)]}), 'unrenderable')
    # every spelling of a handler that declares `ws`
    for cfg in cfgs:
        for sig in HANDLER_FUNCS:
            for hsteps in ([{'op': 'close', 'code': 4029}], [], [{'op': 'raise', 'exc': 'http_error', 'status': 429}],
                           [{'op': 'accept'}, {'op': 'send_text', 'v': 'farewell'}, {'op': 'close', 'code': 4029}]):
                if sig == 'nows':
                    hsteps = [s_ for s_ in hsteps if s_['op'] == 'raise']
                r = {'op': 'raise', 'exc': 'custom'}
                go(dict(cfg, steps=[r], handler={'sig': sig, 'steps': hsteps}), 'handler-signatures')
                go(dict(cfg, steps=[{'op': 'accept'}, {'op': 'send_text', 'v': 'x'}, r],
                        handler={'sig': sig, 'steps': hsteps}), 'handler-signatures')
                go(dict(cfg, mw={'req': [r], 'res': []}, steps=[], handler={'sig': sig, 'steps': hsteps}),
                   'handler-signatures')
    # send_media with an object the media handler cannot serialize, in every state
    contexts = ([], [{'op': 'accept'}], [{'op': 'accept'}, {'op': 'close'}], [{'op': 'close'}],
                [{'op': 'accept'}, {'op': 'receive_text'}], [{'op': 'accept'}, {'op': 'yield'}, {'op': 'yield'}],
                [{'op': 'accept'}, {'op': 'yield'}, {'op': 'yield'}, {'op': 'close', 'code': 4001}],
                [{'op': 'accept'}, {'op': 'close', 'code': 1005}])
    for cfg in cfgs:
        for kind in ('set', 'datetime', 'object', 'circular'):
            for pt in (None, 'text', 'binary'):
                for pre in contexts:
                    for prop in (False, True):
                        st = {'op': 'send_media', 'unser': kind}
                        if pt:
                            st['pt'] = pt
                        if prop:
                            st['prop'] = True
                        go(dict(cfg, steps=pre + [st, {'op': 'send_media', 'v': {'fine': 1}}],
                                client=[{'t': 'disc', 'code': 1001}]), 'unserializable')
    # (b) re-routing
    routes = ('ok', 'param', 'unrouted', 'nows')
    for orig in routes:
        for to in routes:
            for req_script in ([{'op': 'set_path', 'to': to}],
                               [{'op': 'set_path', 'to': to}, {'op': 'accept'}],
                               [{'op': 'accept'}, {'op': 'set_path', 'to': to}],
                               [{'op': 'set_path', 'to': to}, {'op': 'set_path', 'to': orig}],
                               [{'op': 'set_path', 'to': orig}, {'op': 'set_path', 'to': to}],
                               [{'op': 'set_path', 'to': to}, {'op': 'raise', 'exc': 'http_error', 'status': 401}]):
                for res_script in ([], [{'op': 'accept'}], [{'op': 'set_path', 'to': 'unrouted'}]):
                    for steps in RESP_SCRIPTS[:5]:
                        for spec, queue in (('2.0', 0), ('2.4', 2)):
                            go({'route': orig, 'mw': {'req': req_script, 'res': res_script}, 'steps': steps,
                                'spec': spec, 'queue': queue, 'client': [T1]}, 'reroute')
    return idx


def block_g(rec):
    """Bounded-exhaustive: the code carried by every WebSocketDisconnected.  client disconnect codes x the way the
    application learns of it (a receive, a send after the pump noticed, a no-op close after the pump noticed, a lost
    send) x two follow-up operations x queue sizes."""
    idx = 0
    codes = (None, 1000, 1001, 3008, 4321, 4999)
    learn = ([{'op': 'receive_text'}], [{'op': 'yield'}, {'op': 'yield'}, {'op': 'send_text', 'v': 'x'}],
             [{'op': 'yield'}, {'op': 'yield'}, {'op': 'close'}],
             [{'op': 'yield'}, {'op': 'yield'}, {'op': 'close', 'code': 4001, 'reason': 'cleanup'}],
             [{'op': 'yield'}, {'op': 'yield'}, {'op': 'send_media', 'v': [1]}],
             [{'op': 'receive_data', 'timeout': 1}, {'op': 'close'}])
    follow = ({'op': 'send_text', 'v': 'y'}, {'op': 'send_data', 'v': {'hex': '01'}}, {'op': 'send_media', 'v': {'a': 1}},
              {'op': 'receive_text'}, {'op': 'receive_media'}, {'op': 'close'}, {'op': 'accept'})
    for code in codes:
        disc = {'t': 'disc'}
        if code is not None:
            disc['code'] = code
        for how in learn:
            for f1 in follow:
                for f2 in follow[:4]:
                    for queue, rxy in ((0, False), (1, True), (4, False)):
                        idx += 1
                        if idx % rec.nshards != rec.shard:
                            continue
                        run_case(rec, {'spec': ('2.0', '2.4')[idx % 2], 'queue': queue, 'rx_yield': rxy,
                                       'steps': [{'op': 'accept'}] + how + [f1, f2], 'client': [disc]}, 'disconnect-codes')
    # connection lost through a failing send: later operations keep reporting the code of that failure
    for kind in D.LOST_KINDS:
        for f1 in follow:
            for f2 in follow[:4]:
                for queue in (0, 2):
                    idx += 1
                    if idx % rec.nshards != rec.shard:
                        continue
                    run_case(rec, {'spec': '2.4', 'queue': queue, 'fail': {'at': 1, 'kind': kind},
                                   'steps': [{'op': 'accept'}, {'op': 'send_text', 'v': 'x'}, f1, f2]}, 'disconnect-codes')
    return idx


def block_f(rec):
    """Several apps in one process: each app's close reasons follow from its own configuration.  Not sharded
    (every process has its own apps): an app that exists already, one customised in place, the first app again,
    and an app created after the customisation."""
    probes = [{'steps': []}, {'steps': [{'op': 'accept'}]}, {'route': 'unrouted'}, {'route': 'nows'},
              {'steps': [{'op': 'raise', 'exc': 'value'}]}, {'steps': [{'op': 'accept'}, {'op': 'raise', 'exc': 'type'}]},
              {'steps': [{'op': 'raise', 'exc': 'http_error', 'status': 403}]},
              {'steps': [{'op': 'accept'}, {'op': 'close', 'code': 4001}]},
              {'steps': [{'op': 'accept'}, {'op': 'close', 'code': 3404, 'reason': 'explicit'}]}]
    n = 0
    for stage in ({}, {'reasons': 'inplace'}, {}, {'reasons': 'custom'}, {},
                  {'mw': {'req': [], 'res': []}, 'handler': {'sig': 'nows', 'steps': []}},
                  {'mw': {'req': [], 'res': []}, 'handler': {'sig': 'nows', 'steps': []}, 'reasons': 'inplace'},
                  {'mw': {'req': [], 'res': []}}, {}):
        for spec in ('2.4', '2.3', '2.2'):
            for p in probes:
                run_case(rec, dict(p, spec=spec, queue=0, **stage), 'apps')
                n += 1
    return n


MW_SCRIPTS = [
    [],
    [{'op': 'accept'}],
    [{'op': 'close', 'code': 3403}],
    [{'op': 'raise', 'exc': 'http_error', 'status': 401}],
    [{'op': 'raise', 'exc': 'value'}],
]

RESP_SCRIPTS = [
    [],
    [{'op': 'accept'}],
    [{'op': 'accept'}, {'op': 'close'}],
    [{'op': 'raise', 'exc': 'http_error', 'status': 404}],
    [{'op': 'accept'}, {'op': 'raise', 'exc': 'http_error', 'status': 422}],
    [{'op': 'raise', 'exc': 'http_status', 'status': 204}],
    [{'op': 'accept'}, {'op': 'raise', 'exc': 'http_status', 'status': 302}],
    [{'op': 'raise', 'exc': 'value'}],
    [{'op': 'accept'}, {'op': 'send_text', 'v': 'x'}, {'op': 'raise', 'exc': 'type'}],
    [{'op': 'raise', 'exc': 'custom'}],
    [{'op': 'accept'}, {'op': 'raise', 'exc': 'custom'}],
    [{'op': 'accept'}, {'op': 'raise', 'exc': 'wsd', 'code': 1001}],
    [{'op': 'accept'}, {'op': 'close'}, {'op': 'raise', 'exc': 'custom'}],
    [{'op': 'accept'}, {'op': 'receive_text', 'prop': True}],
]

HANDLERS = [
    None,
    {'sig': 'ws', 'steps': [{'op': 'close', 'code': 4001}]},
    {'sig': 'ws', 'steps': []},
    {'sig': 'nows', 'steps': []},
    {'sig': 'ws', 'steps': [{'op': 'raise', 'exc': 'http_error', 'status': 409}]},
    {'sig': 'nows', 'steps': [{'op': 'raise', 'exc': 'http_status', 'status': 202}]},
    {'sig': 'ws', 'steps': [{'op': 'accept'}, {'op': 'send_text', 'v': 'sorry'}]},
]

ERR_CODES = [
    {'err_code': 1011}, {'err_code': 3011}, {'err_code': 4000}, {'err_code': 1005}, {'err_code': 999},
    {'err_code': 1011, 'reject': [1011]}, {'err_code': 1012, 'reject': [1011, 1012]},
]


def uses_custom(case):
    return any(s.get('exc') == 'custom' for s in case['steps'])


def ends_unexpected(case):
    scripts = [case['steps']]
    if case['mw']:
        scripts += [case['mw']['req'], case['mw']['res']]
    return any(s['op'] == 'raise' and s['exc'] in ('value', 'type', 'custom', 'wsd', 'ona') for sc in scripts for s in sc)


def block_b(rec):
    """Bounded-exhaustive: routing x middleware x error handlers x error codes x spec versions."""
    idx = 0
    mws = [None] + [{'req': a, 'res': b} for a in MW_SCRIPTS for b in MW_SCRIPTS]
    for route in ('ok', 'param', 'unrouted', 'nows'):
        for mw in mws:
            for steps in (RESP_SCRIPTS if route in ('ok', 'param') else [[]]):
                for handler in HANDLERS:
                    base = {'route': route, 'mw': mw, 'steps': steps, 'handler': handler}
                    if handler is not None and not uses_custom(base):
                        if not (handler['sig'] == 'ws' and handler['steps'] == []):
                            continue      # handler variants only matter when CustomErr is raised (keep one registered)
                    for ec in (ERR_CODES if ends_unexpected(base) else ERR_CODES[:1]):
                        idx += 1
                        if idx % rec.nshards != rec.shard:
                            continue
                        j = idx // rec.nshards
                        case = dict(base)
                        case.update(ec)
                        case['spec'] = ('2.0', '2.4', '2.3', '2.2')[j % 4]
                        case['queue'] = (0, 2)[(j // 4) % 2]
                        case['client'] = [[], [T1], [{'t': 'disc', 'code': 1001}]][(j // 8) % 3]
                        if rec.tier == 'quick' and mw is not None and (mw['req'] and mw['res']) and j % 3:
                            continue      # quick: thin out the middleware x middleware product
                        run_case(rec, case, 'exhaustive-paths')
    return idx


def block_c(rec):
    """Small fixed set: handshake abandoned, subprotocol negotiation, server-rejected subprotocol."""
    idx = 0
    for first in ('disconnect', 'receive'):
        for spec in (None, '2.0', '2.2', '2.3', '2.4'):
            for queue in (0, 2):
                idx += 1
                if idx % rec.nshards != rec.shard:
                    continue
                run_case(rec, {'first': first, 'spec': spec, 'queue': queue,
                               'steps': [{'op': 'accept'}]}, 'abandoned')
    for sub in (None, 'wamp', 'other', 7):
        for strict in (False, True):
            for spec in ('2.0', '2.1', '2.4'):
                for tail in ([], [{'op': 'send_text', 'v': 'x'}], [{'op': 'raise', 'exc': 'value'}]):
                    idx += 1
                    if idx % rec.nshards != rec.shard:
                        continue
                    acc = {'op': 'accept'}
                    if sub is not None:
                        acc['sub'] = sub
                    run_case(rec, {'spec': spec, 'offered': ['wamp', 'graphql-ws'], 'strict': strict,
                                   'steps': [acc] + tail, 'queue': 0 if idx % 2 else 3}, 'subprotocol')
    for hdrs in ([['Sec-WebSocket-Protocol', 'wamp']], {'X-A': 'b', 'SEC-WEBSOCKET-PROTOCOL': 'wamp'},
                 {'X-A': 'b', 'Set-Cookie': 'k=v'}, [], [['A', 'b'], ['A', 'c']]):
        for spec in (None, '2.0', '2.1', '2.2', '2.3', '2.4'):
            idx += 1
            if idx % rec.nshards != rec.shard:
                continue
            run_case(rec, {'spec': spec, 'steps': [{'op': 'accept', 'hdrs': hdrs}, {'op': 'send_data', 'v': {'hex': ''}}]},
                     'accept-headers')


# ---- random

def rnd_text(rng):
    alpha = ['a', 'Z', '0', ' ', '"', '\\', '\n', '\x00', 'é', '€', '\U0001F600', '{', '}', ' ']
    return ''.join(rng.choice(alpha) for _ in range(rng.choice([0, 1, 2, 5, 17, 200])))


def rnd_hex(rng):
    return bytes(rng.randrange(256) for _ in range(rng.choice([0, 1, 3, 16, 300]))).hex()


def rnd_json(rng, depth=0):
    r = rng.random()
    if depth > 2 or r < 0.4:
        return rng.choice([None, True, False, 0, -7, 2 ** 40, 1.5, '', 'x', 'é€', 'a"b\\c'])
    if r < 0.7:
        return [rnd_json(rng, depth + 1) for _ in range(rng.randint(0, 3))]
    return {rng.choice(['a', 'b', 'é', '', 'k k']): rnd_json(rng, depth + 1) for _ in range(rng.randint(0, 3))}


CLOSE_CODES = [None, 1000, 1001, 1003, 1011, 1014, 2000, 3000, 3404, 4001, 4999, 5000, 999, 0, -1, 1004, 1005, 1006,
               1015, 1016, 1999]
STATUSES = [400, 401, 403, 404, 405, 409, 418, 422, 429, 500, 503]


def rnd_step(rng, allow_raise=True):
    r = rng.random()
    s = None
    if r < 0.16:
        s = {'op': 'accept'}
        q = rng.random()
        if q < 0.3:
            s['sub'] = rng.choice(['wamp', 'graphql-ws', 'zzz', 5])
        if rng.random() < 0.3:
            h = [[rng.choice(['X-A', 'x-b', 'Set-Cookie', 'Sec-WebSocket-Protocol', 'SEC-websocket-protocol']),
                  rng.choice(['1', 'v v', ''])] for _ in range(rng.randint(0, 3))]
            s['hdrs'] = dict(h) if rng.random() < 0.3 else h
    elif r < 0.30:
        s = {'op': 'close'}
        code = rng.choice(CLOSE_CODES)
        if code is not None or rng.random() < 0.2:
            s['code'] = code
        if rng.random() < 0.4:
            s['reason'] = rng.choice(['', 'bye', 'réason', None])
    elif r < 0.42:
        s = {'op': 'send_text', 'v': rnd_text(rng) if rng.random() < 0.85 else {'hex': rnd_hex(rng)}}
    elif r < 0.52:
        s = {'op': 'send_data', 'v': {'hex': rnd_hex(rng), 'as': rng.choice(['bytes', 'bytearray', 'memoryview'])}
             if rng.random() < 0.85 else rnd_text(rng)}
    elif r < 0.62:
        s = {'op': 'send_media', 'v': rnd_json(rng)}
        q = rng.random()
        if q < 0.35:
            s['pt'] = 'binary'
        elif q < 0.5:
            s['pt'] = 'text'
    elif r < 0.88:
        s = {'op': 'receive_text' if r < 0.72 else 'receive_data' if r < 0.80 else 'receive_media'}
        if rng.random() < 0.3:
            s['timeout'] = rng.choice([0.001, 1, 30])
    elif r < 0.93 or not allow_raise:
        s = {'op': 'yield'}
    else:
        k = rng.choice(['http_error', 'http_status', 'value', 'type', 'custom', 'wsd', 'ona'])
        s = {'op': 'raise', 'exc': k}
        if k == 'http_error':
            s['status'] = rng.choice(STATUSES)
        elif k == 'http_status':
            s['status'] = rng.choice([200, 204, 302, 404])
        elif k == 'wsd':
            s['code'] = rng.choice([None, 1001, 4000])
    if s['op'] not in ('yield', 'raise') and rng.random() < 0.12:
        s['prop'] = True
    if s['op'] == 'raise' and rng.random() < 0.2:
        s['badstr'] = True
    if s['op'] == 'send_media' and rng.random() < 0.15:
        del s['v']
        s['unser'] = rng.choice(['set', 'datetime', 'object', 'circular'])
    if s['op'] == 'accept' and isinstance(s.get('hdrs'), list) and s['hdrs'] and rng.random() < 0.5:
        s['hdrs'] = {'obj': rng.choice(HEADER_OBJECTS), 'pairs': s['hdrs']}
    # documented argument types other than the exact built-ins
    if rng.random() < 0.15:
        kind = rng.choice(['enum', 'masked'])
        if s['op'] == 'send_text' and isinstance(s['v'], str):
            s['v'] = SS(kind, s['v'])
        elif s['op'] == 'accept' and isinstance(s.get('sub'), str):
            s['sub'] = SS(kind, s['sub'])
        elif s['op'] == 'close':
            if isinstance(s.get('reason'), str) and rng.random() < 0.5:
                s['reason'] = SS(kind, s['reason'])
            elif isinstance(s.get('code'), int):
                s['code'] = IE(s['code'])
    return s


def rnd_script(rng, maxlen, bias_accept=True):
    n = rng.randint(0, maxlen)
    steps = []
    if bias_accept and n and rng.random() < 0.6:
        steps.append({'op': 'accept'})
    while len(steps) < n:
        s = rnd_step(rng)
        steps.append(s)
        if s['op'] == 'raise':
            break
    return steps


def rnd_client(rng):
    out = []
    for _ in range(rng.choice([0, 1, 2, 3, 4, 6, 9])):
        r = rng.random()
        if rng.random() < 0.15:
            out.append({'t': 'pause'})
            continue
        if r < 0.4:
            t = json.dumps(rnd_json(rng)) if rng.random() < 0.7 else rnd_text(rng)
            ev = {'t': 'text', 'v': t}
        elif r < 0.8:
            ev = {'t': 'bytes', 'hex': M.Binary.enc(rnd_json(rng)).hex() if rng.random() < 0.7 else rnd_hex(rng)}
        else:
            ev = {'t': 'disc'}
            c = rng.choice([None, 1000, 1001, 1006, 1011, 3000, 4999])
            if c is not None:
                ev['code'] = c
            out.append(ev)
            break
        if rng.random() < 0.3:
            ev['both'] = True
        out.append(ev)
    return out


def rnd_case(rng):
    case = {
        'spec': rng.choice([None, 'noasgi', '2.0', '2.1', '2.2', '2.3', '2.4']),
        'queue': rng.choice([0, 0, 1, 2, 4, 16]),
        'rx_yield': rng.random() < 0.5,
        'route': rng.choice(['ok', 'ok', 'ok', 'ok', 'param', 'unrouted', 'nows']),
        'steps': rnd_script(rng, 8),
        'client': rnd_client(rng),
        'reasons': rng.choice(['default', 'default', 'custom', 'inplace']),
    }
    if rng.random() < 0.35:
        case['mw'] = {'req': rnd_script(rng, 2, False) if rng.random() < 0.5 else [],
                      'res': rnd_script(rng, 2, False) if rng.random() < 0.5 else []}
    if rng.random() < 0.4:
        sig = rng.choice(['ws', 'nows', rng.choice(WS_SIGS)])
        if sig != 'nows':
            hs = rnd_script(rng, 3, False)
            # an error handler that fails with an unexpected exception of its own is outside the statement
            hs = [s for s in hs if not (s['op'] == 'raise' and s['exc'] not in ('http_error', 'http_status'))]
            for s in hs:
                s.pop('prop', None)
        else:
            hs = rng.choice([[], [{'op': 'raise', 'exc': 'http_error', 'status': rng.choice(STATUSES)}],
                             [{'op': 'raise', 'exc': 'http_status', 'status': 204}]])
        case['handler'] = {'sig': sig, 'steps': hs}
        if rng.random() < 0.7 and not any(s['op'] == 'raise' for s in case['steps']):
            case['steps'] = case['steps'] + [{'op': 'raise', 'exc': 'custom'}]
    if rng.random() < 0.3:
        case.update(rng.choice(ERR_CODES))
        if rng.random() < 0.3:
            case['err_code'] = IE(case['err_code'])
    if case.get('mw') and rng.random() < 0.4:
        pos = rng.randint(0, len(case['mw']['req']))
        case['mw']['req'] = case['mw']['req'][:pos] + [{'op': 'set_path', 'to': rng.choice(list(PATHS))}] + case['mw']['req'][pos:]
    if rng.random() < 0.2:
        case['offered'] = ['wamp', 'graphql-ws']
        case['strict'] = rng.random() < 0.5
    return case


def block_random(rec):
    rng = rec.rng
    n = 0
    batches = 0
    while batches < 8 or rec.budget_ok(0.9):      # a small count-sized minimum even on a starved machine
        batches += 1
        for _ in range(40):
            case = rnd_case(rng)
            o = run_case(rec, case, 'random')
            n += 1
            if n <= 2:
                rec.sample({'case': case, 'events': [a[1] for a in o.drv.attempts], 'outcome': o.drv.outcome})
            na = len(o.drv.attempts)
            if na and rng.random() < 0.6:
                fc = dict(case)
                k = rng.randrange(na)
                kind = rng.choice(D.FAIL_KINDS)
                fc['fail'] = {'at': k, 'kind': kind}
                run_case(rec, fc, 'random-fault')
                rec.count('fault.cases')
    return n


def run(rec):
    rec.rule = ('one case = one WebSocket connection (responder/middleware/error-handler scripts, client script, server '
                'configuration, optional send-failure index); non-trivial = at least one WebSocket operation was judged '
                'by the reference model or at least one event reached the fake server; distinct by the whole case')
    rec.assumptions = [
        'fake server (vlib/drivers/ws.py) follows the ASGI WebSocket spec: connect first, disconnect is final, '
        'receive() dequeues only when it returns, send() on a lost connection keeps raising',
        'reference model vlib/models/c17_ws.py reads docs/api/websocket.rst and the WebSocket docstrings correctly',
        'receive-buffer schedules are out of scope here (C18); events are available as soon as they are asked for',
        'BINARY media uses a codec installed by the check (msgpack is not installed)',
        'a close issued in reply to a first event that is websocket.disconnect is recorded as a diagnostic only',
    ]
    block_f(rec)
    block_c(rec)
    na = block_a(rec)
    nb = block_b(rec)
    nd = block_d(rec)
    ne = block_e(rec)
    block_g(rec)
    rec.exhaustive = True
    if rec.shard == 0:
        rec.note('exhaustive: %d (script<=%d x client) pairs over %d ops, each under >=2 server configurations; '
                 '%d framework-path combinations; fault indices of every such run on spec 2.4; '
                 '%d cancelled-receive histories (accept; [op]; timed receive; any op; follow-up) x client pauses'
                 % (na, 2 if rec.tier == 'quick' else 3, len(OPS_A), nb, nd))
        rec.note('exhaustive: %d cases over argument types (str subclasses with differing display forms for payload/'
                 'reason/subprotocol/header names and values, IntEnum close codes and error_close_code) and '
                 'process_request_ws re-routing (4 routes x 4 targets x 6 rewrite scripts)' % ne)
    block_random(rec)
    D.aio.shared().close()

    rec.floor('mon.model.ops', 20000)
    rec.floor('mon.wire.attempts', 20000)
    rec.floor('fault.cases', 2000)
    for b in ('accept.ok', 'accept.twice', 'accept.closed', 'accept.headers-unsupported', 'accept.subprotocol-type',
              'accept.sec-websocket-protocol-header', 'accept.server-rejects-subprotocol',
              'close.ok', 'close.denial', 'close.noop', 'close.invalid-code',
              'send_text.ok', 'send_text.unaccepted', 'send_text.closed', 'send_text.disconnect-noticed',
              'send_text.bad-type', 'send_data.ok', 'send_data.bad-type', 'send_media.ok',
              'receive_text.ok', 'receive_text.unaccepted', 'receive_text.closed', 'receive_text.disconnect',
              'receive_text.wrong-payload-type', 'receive_data.ok', 'receive_data.wrong-payload-type',
              'receive_media.ok', 'receive_text.blocks-on-silent-client',
              'accept.send-lost.oserror', 'send_text.send-lost.oserror', 'send_text.send-lost.oserror_cause',
              'send_text.send-lost.ws_ok', 'send_text.send-raised-other', 'close.send-raised.oserror'):
        rec.floor('branch.' + b, 5)
    for b in ('receive_text.timed-out', 'receive_data.timed-out', 'receive_media.timed-out',
              'receive_text.after-cancelled-receive', 'receive_data.after-cancelled-receive',
              'receive_media.after-cancelled-receive', 'receive_text.waited-through-pause'):
        rec.floor('branch.' + b, 20)
    rec.floor('phase.exhaustive-cancel', 1000)
    rec.floor('phase.types', 500)
    rec.floor('phase.apps', 200)
    rec.floor('phase.disconnect-codes', 2000)
    rec.floor('branch.disconnect-code-repeated', 500)
    rec.floor('phase.handler-signatures', 300)
    rec.floor('phase.unserializable', 500)
    rec.floor('args.unserializable-media', 500)
    for sig in HANDLER_FUNCS:
        rec.floor('handler.sig.' + sig, 20)
    for b in ('send_media.unserializable', 'send_media.unaccepted', 'send_media.closed', 'send_media.disconnect-noticed'):
        rec.floor('branch.' + b, 20)
    rec.floor('phase.header-objects', 200)
    rec.floor('phase.unrenderable', 300)
    rec.floor('args.header-object', 200)
    rec.floor('args.unrenderable-exception', 300)
    rec.floor('reasons.inplace', 50)
    rec.floor('reasons.custom', 50)
    rec.floor('phase.reroute', 1000)
    rec.floor('args.typed', 1000)
    rec.floor('route.rewritten', 1000)
    for r in ('ok', 'param', 'unrouted', 'nows'):
        rec.floor('route.rewritten-to.' + r, 50)
    rec.floor('server.pauses-released', 100)
    for t in ('return', 'http', 'unexpected', 'handled', 'blocked', 'abandoned', 'http.404', 'http.405'):
        rec.floor('terminal.' + t, 5)
    for cnt in ('close.code.1000', 'close.code.1011', 'close.code.3011', 'close.code.3404', 'close.code.3405',
                'close.code.3xxx', 'close.code.other', 'close.denial', 'close.after-accept', 'close.with-reason',
                'server.disconnect-handed', 'queue.0', 'queue.n', 'spec.absent', 'spec.2.0', 'spec.2.1', 'spec.2.2',
                'spec.2.3', 'spec.2.4', 'fault.invalid_close_code.close', 'fault.oserror.close', 'fault.oserror.send',
                'fault.oserror.accept', 'phase.exhaustive-paths', 'phase.random'):
        rec.floor(cnt, 5)


def replay(rec, w):
    case = w['witness']['case']
    o = run_case(rec, case, 'replay')
    rec.case(json.dumps(case, sort_keys=True) + '#replay')
    print('replay: outcome=%s terminal=%s' % (o.drv.outcome, o.terminal))
    for a in o.drv.attempts:
        print('  attempt', a)
    for p in o.problems:
        print('  problem', p)
    D.aio.shared().close()
