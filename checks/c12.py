"""C12 - media round-trips unchanged and request media is parsed at most once.  DESIGN.md section 4, C12.

Real code: falcon.App / falcon.asgi.App with the default media handlers, driven through the
PEP 3333 / ASGI drivers.  Independent monitors (vlib/models/media_c12.py):

* round trip      resp.media = doc -> body (as a client frames it by Content-Length) -> request with the
                  same Content-Type on either stack, any chunking -> req.get_media() must be the same document
* history model   MediaModel: one parse attempt; later calls return the identical object / re-raise the
                  identical exception instance, and cause zero operations on the body stream
                  (stream-method calls + reads of wsgi.input / awaits of receive are counted)
* hostile bodies  RFC 8259 reference reader / WHATWG form reader decide valid, empty, undecodable;
                  undecodable must surface as a 4xx MediaMalformedError (400 on the wire), never 5xx
"""

import asyncio
import functools
import itertools
import json
import math
import struct

import falcon
import falcon.asgi
import falcon.asgi.stream
import falcon.stream
from falcon.media import JSONHandler
from falcon.media import URLEncodedFormHandler

from vlib.drivers import asgi as A
from vlib.drivers import wsgi as W
from vlib.models import media_c12 as M
from vlib.verdict import h64

LEVEL = 'exploration'
SHARDS = {'quick': 4, 'thorough': 16}
BUDGET = {'quick': 15, 'thorough': 150}

JSON = 'application/json'
FORM = 'application/x-www-form-urlencoded'
VND = 'application/vnd.falcon.v1+json'

# content types for which a handler is designated by the documentation (exact key, key + parameters,
# missing header -> default media type) or registered by this harness (VND)
JSON_CTS = [None, JSON, JSON + '; charset=utf-8', JSON + ';charset=UTF-8', JSON + '; version=1',
            VND, VND + '; charset=utf-8',
            # header field values are ISO-8859-1 on the wire (obs-text): parameters with non-UTF-8 octets
            JSON + '; note="caf\xe9"', VND + '; title=na\xefve\xff']
FORM_CTS = [FORM, FORM + '; charset=utf-8', FORM + ';charset=UTF-8', FORM + '; x="\xff\x80"']
# content types on which 415 is acceptable; if a handler is chosen anyway it must behave as JSON
EITHER_CTS = ['application/problem+json', 'APPLICATION/JSON', 'Application/Json; charset=utf-8',
              'text/plain', 'application/jsonx', 'text/json', 'application/vnd.other+json;v=2']

KNOWN_RECURSION = 'json-recursionerror-500'
DEEP = 500          # classifier: nesting depth from which the RecursionError finding is attributed


# ------------------------------------------------------------------ instrumentation

STREAM_OPS = {'n': 0}


def _count_sync(fn):
    def wrapper(self, *a, **kw):
        STREAM_OPS['n'] += 1
        return fn(self, *a, **kw)
    wrapper.__name__ = getattr(fn, '__name__', 'wrapped')
    wrapper._c12 = True
    return wrapper


def _count_async(fn):
    async def wrapper(self, *a, **kw):
        STREAM_OPS['n'] += 1
        return await fn(self, *a, **kw)
    wrapper.__name__ = getattr(fn, '__name__', 'wrapped')
    wrapper._c12 = True
    return wrapper


def _instrument():
    """Count every public read-like operation on the request body streams (harness-side wrapping)."""
    ws = falcon.stream.BoundedStream
    for name in ('read', 'readline', 'readlines', 'exhaust', '__next__'):
        fn = ws.__dict__.get(name)
        if fn is not None and not getattr(fn, '_c12', False):
            setattr(ws, name, _count_sync(fn))
    as_ = falcon.asgi.stream.BoundedStream
    for name in ('read', 'readall', 'exhaust'):
        fn = as_.__dict__.get(name)
        if fn is not None and not getattr(fn, '_c12', False):
            setattr(as_, name, _count_async(fn))
    fn = as_.__dict__.get('__aiter__')
    if fn is not None and not getattr(fn, '_c12', False):
        setattr(as_, '__aiter__', _count_sync(fn))


CUR = {}
CUR_STATUS = [None]
DIAG = {'protocol': 0, 'beyond': 0}
DEF1 = ['caller-default']        # distinct, identity-checkable default objects
OPS = {'G': ('get', None), 'M': ('media', None), 'D': ('default', DEF1), 'N': ('default', None)}


def _touch():
    if CUR['stack'] == 'w':
        return STREAM_OPS['n'] + len(CUR['input'].calls)
    return STREAM_OPS['n'] + CUR['rcv']


DECOY = {'decoy': ['rendered before the real document was assigned']}


def stale_twin(doc):
    """A fresh mutable object of the document's kind holding different content (state before mutation)."""
    if isinstance(doc, dict):
        t = {'stale': 'state before the in-place mutation'}
        if t == doc:
            t = {'stale2': 'x'}
        return t
    t = ['stale', 'state before the in-place mutation']
    if t == doc:
        t = ['stale2']
    return t


def mutate_into(obj, doc):
    """Mutate obj IN PLACE so that it equals doc (same object identity afterwards)."""
    if isinstance(obj, dict):
        obj.clear()
        obj.update(doc)
    else:
        obj[:] = doc
    return obj


# response-side histories (CUR['pre']):
#   0 assign once                         1 assign decoy, render, assign the document (different object)
#   2 assign, send render_body() as data  3 assign obj, render, mutate obj in place, assign the SAME obj again
#   4 like 3, but the render + mutation + re-assignment happen in process_response middleware
#   5 process_response middleware takes the rendering over: data = render_body(); media = None (signing/compression)
# oracle in every case: the wire body deserializes to the document as it was at the last assignment

class DocW:
    def on_get(self, req, resp):
        pre = CUR['pre']
        if CUR['ct'] is not None:
            resp.content_type = CUR['ct']
        if pre == 1:
            resp.media = DECOY
            resp.render_body()
        if pre in (3, 4):
            obj = stale_twin(CUR['doc'])
            resp.media = obj
            if pre == 3:
                resp.render_body()                      # e.g. an ETag helper
                mutate_into(obj, CUR['doc'])
                resp.media = obj                        # same object, new content
            return
        resp.media = CUR['doc']
        if pre == 2:
            # render through the public API and send the rendered bytes (what caching middleware does)
            resp.data = resp.render_body()


class DocA:
    async def on_get(self, req, resp):
        pre = CUR['pre']
        if CUR['ct'] is not None:
            resp.content_type = CUR['ct']
        if pre == 1:
            resp.media = DECOY
            await resp.render_body()
        if pre in (3, 4):
            obj = stale_twin(CUR['doc'])
            resp.media = obj
            if pre == 3:
                await resp.render_body()
                mutate_into(obj, CUR['doc'])
                resp.media = obj
            return
        resp.media = CUR['doc']
        if pre == 2:
            resp.data = await resp.render_body()


class RenderThenAmendW:
    """process_response middleware: renders (ETag-style), amends the media object in place, re-assigns it."""

    def process_response(self, req, resp, resource, req_succeeded):
        if CUR.get('pre') == 4 and isinstance(resource, DocW):
            resp.render_body()
            obj = resp.media
            mutate_into(obj, CUR['doc'])
            resp.media = obj
            CUR['mw_ran'] = True
        elif CUR.get('pre') == 5 and isinstance(resource, DocW):
            rendered = resp.render_body()
            resp.media = None
            resp.data = rendered
            CUR['mw_ran'] = True


class RenderThenAmendA:
    async def process_response(self, req, resp, resource, req_succeeded):
        if CUR.get('pre') == 4 and isinstance(resource, DocA):
            await resp.render_body()
            obj = resp.media
            mutate_into(obj, CUR['doc'])
            resp.media = obj
            CUR['mw_ran'] = True
        elif CUR.get('pre') == 5 and isinstance(resource, DocA):
            rendered = await resp.render_body()
            resp.media = None
            resp.data = rendered
            CUR['mw_ran'] = True


def error_says(ex):
    """What an error SAYS at this moment (not its identity): type, args, cause, and for HTTP errors the fields
    a client gets to see. Traceback and implicit context are left out (they legitimately grow)."""
    out = {'type': type(ex).__name__, 'args': repr(ex.args), 'cause_id': id(ex.__cause__) if ex.__cause__ is not None
           else None, 'cause': repr(ex.__cause__)}
    for name in ('title', 'description', 'status', 'code', 'link'):
        if hasattr(ex, name):
            try:
                out[name] = repr(getattr(ex, name))
            except Exception as err:  # noqa
                out[name] = 'raised %r' % (err,)
    if hasattr(ex, 'to_dict'):
        try:
            out['dict'] = json.loads(json.dumps(ex.to_dict()))
        except Exception as err:  # noqa
            out['dict'] = 'raised %r' % (err,)
    return out


def _snap(ex):
    CUR.setdefault('esnap', []).append((id(ex), ex, error_says(ex)))


class EchoW:
    def on_post(self, req, resp):
        log = CUR['log']
        last = None
        for code in CUR['history']:
            op, default = OPS[code]
            t0 = _touch()
            h0 = CUR.get('hcalls', 0)
            try:
                if op == 'get':
                    v = req.get_media()
                elif op == 'media':
                    v = req.media
                else:
                    v = req.get_media(default_when_empty=default)
            except Exception as ex:  # noqa
                log.append((op, default, 'exc', ex, _touch() - t0))
                _snap(ex)
                last = ex
            else:
                log.append((op, default, 'ret', v, _touch() - t0))
                last = None
            CUR.setdefault('hdelta', []).append(CUR.get('hcalls', 0) - h0)
        if CUR['propagate'] and last is not None:
            raise last
        resp.text = 'ok'


async def _interrupted_access(req, code, log):
    """One get_media() access that is interrupted while it waits for a body event the client has not sent yet:
    X = the task is cancelled, T = asyncio.wait_for() deadline (virtual time). Logged as kind 'int'; if the access
    completes because the planned stall was never reached it is logged as an ordinary get."""
    t0 = _touch()
    try:
        if code == 'X':
            task = asyncio.ensure_future(req.get_media())
            while not task.done() and not CUR.get('stalled'):
                await asyncio.sleep(0)
            if not task.done():
                task.cancel()
                try:
                    await task
                except asyncio.CancelledError:
                    log.append(('interrupted', None, 'int', 'cancelled', _touch() - t0))
                    return
            v = task.result()
        else:
            try:
                v = await asyncio.wait_for(req.get_media(), timeout=30)
            except asyncio.TimeoutError:
                if CUR.get('timeouts_pending'):
                    CUR['timeouts_pending'] -= 1
                    log.append(('interrupted', None, 'int', 'deadline', _touch() - t0))
                    return
                raise
    except Exception as ex:  # noqa
        log.append(('get', None, 'exc', ex, _touch() - t0))
        _snap(ex)
    else:
        log.append(('get', None, 'ret', v, _touch() - t0))
    CUR.setdefault('hdelta', []).append(0)


class EchoA:
    async def on_post(self, req, resp):
        log = CUR['log']
        last = None
        for code in CUR['history']:
            if code in 'XT':
                await _interrupted_access(req, code, log)
                continue
            op, default = OPS[code]
            t0 = _touch()
            h0 = CUR.get('hcalls', 0)
            try:
                if op == 'get':
                    v = await req.get_media()
                elif op == 'media':
                    v = await req.media
                else:
                    v = await req.get_media(default_when_empty=default)
            except Exception as ex:  # noqa
                log.append((op, default, 'exc', ex, _touch() - t0))
                _snap(ex)
                last = ex
            else:
                log.append((op, default, 'ret', v, _touch() - t0))
                last = None
            CUR.setdefault('hdelta', []).append(CUR.get('hcalls', 0) - h0)
        if CUR['propagate'] and last is not None:
            raise last
        resp.text = 'ok'


# ---- first parse attempt fails with an arbitrary (non-HTTP) exception

FAULTY_SYNC = 'application/x-c12-faulty-sync'
FAULTY_ASYNC = 'application/x-c12-faulty-async'

EXC_FACTORIES = {
    'TypeError': lambda: TypeError('custom handler: unexpected type'),
    'ValueError': lambda: ValueError('custom handler: bad value'),
    'RuntimeError': lambda: RuntimeError('custom handler: broken'),
    'KeyError': lambda: KeyError('missing'),
    'OSError': lambda: OSError('custom handler: connection reset while reading'),
    'HTTPUnprocessableEntity': lambda: falcon.HTTPUnprocessableEntity(description='custom handler'),
    'MediaMalformedError': lambda: falcon.MediaMalformedError('C12'),
}


def _handler_act(data):
    """Body of the custom handlers: count the invocation; raise as planned (or succeed on the 2nd invocation)."""
    CUR['hcalls'] = CUR.get('hcalls', 0) + 1
    plan = CUR['hplan']
    if plan.get('succeed_second') and CUR['hcalls'] >= 2:
        return ['parsed on the second attempt', len(data or b'')]
    raise EXC_FACTORIES[plan['exc']]()


class FaultySyncHandler(falcon.media.BaseHandler):
    """Implements only the sync interface (ASGI reaches it through BaseHandler.deserialize_async)."""

    def deserialize(self, stream, content_type, content_length):
        if CUR['hplan']['when'] == 'before-read':
            return _handler_act(None)
        return _handler_act(stream.read())

    def serialize(self, media, content_type):
        return b'-'


class FaultyAsyncHandler(FaultySyncHandler):
    async def deserialize_async(self, stream, content_type, content_length):
        if CUR['hplan']['when'] == 'before-read':
            return _handler_act(None)
        return _handler_act(await stream.read())


PREFIX_SYNC = 'application/x-c12-prefix-sync'
PREFIX_ASYNC = 'application/x-c12-prefix-async'
PREFIX_DOC = {'k': [1, 'é'], 'n': None}
PREFIX_JSON = json.dumps(PREFIX_DOC).encode()


class PrefixSyncHandler(falcon.media.BaseHandler):
    """Parses only a length-prefixed head of the body and leaves the rest to the framework:
    exhaust_stream = True (documented BaseHandler attribute). Sync interface only."""

    exhaust_stream = True

    def deserialize(self, stream, content_type, content_length):
        CUR['hcalls'] = CUR.get('hcalls', 0) + 1
        n = int(stream.read(4))
        return json.loads(stream.read(n))

    def serialize(self, media, content_type):
        return b'-'


class PrefixAsyncHandler(PrefixSyncHandler):
    async def deserialize_async(self, stream, content_type, content_length):
        CUR['hcalls'] = CUR.get('hcalls', 0) + 1
        n = int(await stream.read(4))
        return json.loads(await stream.read(n))


def prefix_body(tail):
    return b'%04d' % len(PREFIX_JSON) + PREFIX_JSON + b'#' * tail


class FlakyInput(W.FakeInput):
    """wsgi.input whose k-th read (0-based) fails the way a closing connection does."""

    def __init__(self, data, fail_at):
        super().__init__(data, limit=len(data))
        self.fail_at = fail_at
        self.failures = 0

    def _maybe_fail(self, op, size):
        if len(self.calls) == self.fail_at:
            self.calls.append((op, size, 'raised'))
            self.failures += 1
            raise OSError('simulated: connection reset by peer while reading the request body')

    def read(self, size=-1):
        self._maybe_fail('read', size)
        return super().read(size)

    def readline(self, size=-1):
        self._maybe_fail('readline', size)
        return super().readline(size)


_APPS = {}


# ---- handler configuration (documented knobs of JSONHandler: dumps / loads, str or bytes; subclassing)

def _bytes_dumps(obj):
    return json.dumps(obj, ensure_ascii=False).encode('utf-8', 'backslashreplace')   # bytes-returning dumps


def _bytes_ascii_compact_dumps(obj):
    return json.dumps(obj, separators=(',', ':')).encode('ascii')


def _str_only_loads(text):
    if type(text) is not str:                                               # e.g. rapidjson-style strictness
        raise TypeError('loads() accepts str only, got %s' % type(text).__name__)
    return json.loads(text)


def _bytes_too_loads(data):
    return json.loads(data)


DUMPS = {
    'default': None,
    'ascii': functools.partial(json.dumps, ensure_ascii=True),
    'compact': functools.partial(json.dumps, ensure_ascii=False, separators=(',', ':')),
    'sorted-indent': functools.partial(json.dumps, ensure_ascii=False, sort_keys=True, indent=1),
    'bytes': _bytes_dumps,
    'bytes-ascii-compact': _bytes_ascii_compact_dumps,
}
LOADS = {'default': None, 'str-only': _str_only_loads, 'lenient': _bytes_too_loads}


class SubJSONHandler(JSONHandler):
    """A plain subclass (the documented way to extend): disables the optimized sync protocol under ASGI."""


class SubFormHandler(URLEncodedFormHandler):
    """Plain subclass of the form handler."""


class EnvelopeJSONHandler(JSONHandler):
    """A subclass that overrides the public deserialization methods: documents travel as {"data": doc}.
    (The envelope is added through the documented dumps= knob and removed by the overridden methods, so the
    round trip only closes when the overrides are really used on both stacks.)"""

    def __init__(self, dumps=None, loads=None):
        base = dumps or functools.partial(json.dumps, ensure_ascii=False)
        super().__init__(dumps=lambda obj: base({'data': obj}), loads=loads)

    def deserialize(self, stream, content_type, content_length):
        return super().deserialize(stream, content_type, content_length)['data']

    async def deserialize_async(self, stream, content_type, content_length):
        return (await super().deserialize_async(stream, content_type, content_length))['data']


class MultiDictFormHandler(URLEncodedFormHandler):
    """A subclass that overrides the public deserialization methods: every field is a list (multi-dict)."""

    @staticmethod
    def _lists(mapping):
        return {k: (v if isinstance(v, list) else [v]) for k, v in mapping.items()}

    def deserialize(self, stream, content_type, content_length):
        return self._lists(super().deserialize(stream, content_type, content_length))

    async def deserialize_async(self, stream, content_type, content_length):
        return self._lists(await super().deserialize_async(stream, content_type, content_length))


def _charset_of(content_type):
    for part in (content_type or '').split(';')[1:]:
        name, _, value = part.strip().partition('=')
        if name.lower() == 'charset':
            return value.strip('"').lower()
    return 'utf-8'


class LengthAwareJSONHandler(falcon.media.BaseHandler):
    """A custom handler that implements ONLY the sync interface and relies on the documented arguments:
    content_length (emptiness test, exact read) and content_type (charset parameter)."""

    def __init__(self, dumps=None, loads=None):
        pass

    def serialize(self, media, content_type):
        return json.dumps(media, ensure_ascii=False).encode(_charset_of(content_type), 'backslashreplace')

    def deserialize(self, stream, content_type, content_length):
        if not content_length:
            raise falcon.MediaNotFoundError('JSON')
        data = stream.read(content_length)
        try:
            return json.loads(data.decode(_charset_of(content_type)))
        except (ValueError, RecursionError, LookupError) as ex:
            raise falcon.MediaMalformedError('JSON') from ex


class LengthAwareFormHandler(falcon.media.BaseHandler):
    """Sync-only form handler relying on content_length."""

    def __init__(self, keep_blank=True, csv=False):
        pass

    def serialize(self, media, content_type):
        return M.ref_form_dump(media)

    def deserialize(self, stream, content_type, content_length):
        if not content_length:
            return {}
        data = stream.read(content_length)
        try:
            return falcon.uri.parse_query_string(data.decode('ascii'), keep_blank=True)
        except ValueError as ex:
            raise falcon.MediaMalformedError('URL-encoded') from ex


class SubRequestW(falcon.Request):
    def c12_helper(self):
        return self.method


class SubResponseW(falcon.Response):
    def c12_helper(self):
        return self.status


class SubRequestA(falcon.asgi.Request):
    def c12_helper(self):
        return self.method


class SubResponseA(falcon.asgi.Response):
    def c12_helper(self):
        return self.status


CLASSES = {'stock': (JSONHandler, URLEncodedFormHandler), 'sub': (SubJSONHandler, SubFormHandler),
           'override': (EnvelopeJSONHandler, MultiDictFormHandler),
           'lengthaware': (LengthAwareJSONHandler, LengthAwareFormHandler)}
TYPES = ('stock', 'sub')       # request_type / response_type of the app: framework classes or plain subclasses
# documented options of URLEncodedFormHandler
FORM_OPTS = {'default': {}, 'csv': {'csv': True}, 'noblank': {'keep_blank': False},
             'csv-noblank': {'csv': True, 'keep_blank': False}}
CFG = [None]        # active configuration: None (framework defaults) or
#                     (dumps, loads, handler class, request/response types, form options) names


def form_opt():
    return CFG[0][4] if CFG[0] else 'default'


def form_cfgs():
    """Form-handler option matrix (JSON side at its defaults)."""
    out = [('default', 'default', c, 'stock', fo) for fo in FORM_OPTS for c in ('stock', 'sub')]
    out += [('default', 'default', 'stock', 'sub', fo) for fo in FORM_OPTS]
    return [c for c in out if c[4] != 'default']       # the default options are covered by all_cfgs()


def all_cfgs():
    """Configurations under which the plain document contract holds unchanged."""
    return [(d, l, c, t, 'default') for t in TYPES for c in ('stock', 'sub') for d in DUMPS for l in LOADS]


def override_cfgs():
    """Handlers whose overridden public methods change the wire format / the shape of the parsed form."""
    return [(d, 'default', 'override', t, 'default') for t in TYPES for d in ('default', 'bytes')]


def lengthaware_cfgs():
    """Custom sync-only handlers that use the content_length / content_type arguments."""
    return [('default', 'default', 'lengthaware', t, 'default') for t in TYPES]


UTF16 = JSON + '; charset=utf-16'


def set_cfg(cfg):
    if cfg:
        cfg = tuple(cfg)
        cfg += ('default', 'default', 'stock', 'stock', 'default')[len(cfg):]
    CFG[0] = cfg or None


def wire_doc(kind, doc):
    """What the reference reader must find in the serialized body under the active configuration."""
    if CFG[0] and CFG[0][2] == 'override':
        if kind == 'json':
            return {'data': doc}
        return {k: (v[0] if isinstance(v, list) and len(v) == 1 else v) for k, v in doc.items()}
    return doc


def apps():
    """App pair for the active handler configuration (built once per configuration)."""
    key = CFG[0]
    if key not in _APPS:
        _instrument()
        if key is not None and key[3] == 'sub':
            w = falcon.App(middleware=[RenderThenAmendW()], request_type=SubRequestW, response_type=SubResponseW)
            a = falcon.asgi.App(middleware=[RenderThenAmendA()], request_type=SubRequestA,
                                response_type=SubResponseA)
        else:
            w = falcon.App(middleware=[RenderThenAmendW()])
            a = falcon.asgi.App(middleware=[RenderThenAmendA()])
        for app in (w, a):
            for opts in (app.req_options, app.resp_options):
                if key is None:
                    opts.media_handlers[VND] = JSONHandler()
                else:
                    jcls, fcls = CLASSES[key[2]]
                    # the same configuration for the default JSON type and for the vendor +json type
                    opts.media_handlers[JSON] = jcls(dumps=DUMPS[key[0]], loads=LOADS[key[1]])
                    opts.media_handlers[VND] = jcls(dumps=DUMPS[key[0]], loads=LOADS[key[1]])
                    opts.media_handlers[FORM] = fcls(**FORM_OPTS[key[4]])
            app.req_options.media_handlers[FAULTY_SYNC] = FaultySyncHandler()
            app.req_options.media_handlers[FAULTY_ASYNC] = FaultyAsyncHandler()
            app.req_options.media_handlers[PREFIX_SYNC] = PrefixSyncHandler()
            app.req_options.media_handlers[PREFIX_ASYNC] = PrefixAsyncHandler()
        w.add_route('/doc', DocW())
        w.add_route('/echo', EchoW())
        a.add_route('/doc', DocA())
        a.add_route('/echo', EchoA())

        async def counted(scope, receive, send, a=a):
            async def rcv():
                k = CUR['rcv']
                CUR['rcv'] += 1
                if CUR.get('rcv_fail_at') == k:
                    CUR['rcv_failures'] = CUR.get('rcv_failures', 0) + 1
                    raise OSError('simulated: connection reset by peer while receiving the request body')
                stalls = CUR.get('stalls')
                if stalls and stalls[0] == CUR.get('delivered', 0):
                    # the client has not sent the next event yet: wait (until the awaiting access is interrupted)
                    stalls.pop(0)
                    CUR['stalled'] = True
                    CUR['n_stalled'] = CUR.get('n_stalled', 0) + 1
                    CUR['timeouts_pending'] = CUR.get('timeouts_pending', 0) + 1
                    try:
                        await asyncio.get_running_loop().create_future()
                    finally:
                        CUR['stalled'] = False
                ev = await receive()
                CUR['delivered'] = CUR.get('delivered', 0) + 1
                return ev
            await a(scope, rcv, send)
        _APPS[key] = {'w': w, 'a': counted}
    return _APPS[key]


# ------------------------------------------------------------------ running one request

def serialize(stack, doc, ct, pre=0):
    """GET /doc on `stack`. Returns (status, content-type header, body as a client frames it, problems)."""
    CUR.clear()
    CUR.update(stack=stack, doc=doc, ct=ct, rcv=0, pre=pre)
    ap = apps()
    problems = []
    if stack == 'w':
        res = W.run_wsgi(ap['w'], W.make_environ('GET', '/doc'))
        if res.exc is not None:
            problems.append('app raised %r' % (res.exc,))
    else:
        res = A.run_asgi_http(ap['a'], A.make_scope('GET', '/doc'))
        if res.outcome != 'done':
            problems.append('asgi outcome %s %r' % (res.outcome, res.exc))
    DIAG['protocol'] += len(res.problems)      # PEP 3333 / ASGI monitor findings belong to C05: diagnostics here
    if pre in (4, 5) and not CUR.get('mw_ran'):
        problems.append('harness: process_response middleware did not run')
    body = res.body
    cl = res.header('content-length')
    if cl is not None:
        try:
            n = int(cl)
        except ValueError:
            problems.append('content-length not an int: %r' % cl)
        else:
            if n > len(body):
                problems.append('content-length %d > %d bytes sent' % (n, len(body)))
            elif n < len(body):
                problems.append('content-length %d < %d bytes sent' % (n, len(body)))
                body = body[:n]
    return res.status, res.header('content-type'), body, problems


def chunk_events(body, chunks, style=0):
    """ASGI receive script for `body` cut at the given sizes. style bit0: omit more_body on the last
    event; bit1: omit the body key on empty chunks (both optional in the ASGI spec)."""
    evs = A.body_events(body, chunks=chunks)
    if style & 1:
        del evs[-1]['more_body']
    if style & 2:
        for e in evs:
            if not e['body']:
                del e['body']
    return evs


def deserialize(stack, ct, body, history, propagate, chunks=None, with_cl=True, style=0, trailing=b'', fault=None):
    """POST /echo. Returns (log, status, problems).
    fault: {'io_fail_at': k} (k-th wsgi.input read / receive await raises OSError) and/or {'hplan': {...}}."""
    CUR.clear()
    log = []
    CUR.update(stack=stack, log=log, history=history, propagate=propagate, rcv=0)
    fault = fault or {}
    if 'hplan' in fault:
        CUR['hplan'] = fault['hplan']
    if 'stalls' in fault:
        CUR['stalls'] = list(fault['stalls'])
    cl_header = fault.get('cl_header')
    flaky = None
    if 'io_fail_at' in fault:
        if stack == 'w':
            flaky = FlakyInput(body, fault['io_fail_at'])
        else:
            CUR['rcv_fail_at'] = fault['io_fail_at']
    ap = apps()
    headers = [] if ct is None else [('Content-Type', ct)]
    problems = []
    if stack == 'w':
        # a body-less request may come without any Content-Length; a body is always framed by one
        if cl_header is not None:
            env = W.make_environ('POST', '/echo', headers=headers + [('Content-Length', cl_header)], body=body,
                                 content_length='auto', trailing=trailing,
                                 wsgi_input=W.FakeInput(body, limit=len(body), trailing=trailing))
        else:
            env = W.make_environ('POST', '/echo', headers=headers, body=body,
                                 content_length=None if (not body and not with_cl) else len(body),
                                 trailing=trailing, wsgi_input=flaky)
        CUR['input'] = env['wsgi.input']
        res = W.run_wsgi(ap['w'], env)
        if res.exc is not None:
            problems.append('app raised %r' % (res.exc,))
        if flaky is not None:
            CUR['io_failures'] = flaky.failures
        if env['wsgi.input'].served_beyond:
            DIAG['beyond'] += 1                   # reading past Content-Length belongs to C07: diagnostic here
    else:
        if cl_header is not None:
            headers = headers + [('Content-Length', cl_header)]
        elif with_cl:
            headers = headers + [('Content-Length', str(len(body)))]
        res = A.run_asgi_http(ap['a'], A.make_scope('POST', '/echo', headers=headers),
                              events=chunk_events(body, chunks, style))
        if res.outcome != 'done':
            problems.append('asgi outcome %s %r' % (res.outcome, res.exc))
        CUR['io_failures'] = CUR.get('rcv_failures', 0)
    DIAG['protocol'] += len(res.problems)
    CUR['wire_body'] = res.body
    CUR_STATUS[0] = res.status
    return log, res.status, problems


# ------------------------------------------------------------------ oracle

_EXPECTED_CACHE = {}


def expected(kind, body):
    """Outcome class of the single parse attempt, decided by the reference readers (memoized for the big
    fixed bodies, which are judged many times)."""
    if len(body) <= 4096:
        return _expected(kind, body)
    key = (kind, h64(body), len(body), form_opt())
    if key not in _EXPECTED_CACHE:
        _EXPECTED_CACHE[key] = _expected(kind, body)
    return _EXPECTED_CACHE[key]


def _expected(kind, body):
    """-> (class, predicate or None, info) with class in value|notfound|malformed|value_or_malformed"""
    if kind == 'form':
        st, val, flags = M.ref_form_parse(body)
        if st == 'bad':
            return 'malformed', None, flags
        opt = form_opt()
        if 'csv' in opt and b',' in body:
            flags.add('literal-comma-with-csv')         # csv=True documents a different reading of literal commas
        if 'noblank' in opt and any(v == '' or (isinstance(v, list) and '' in v) for v in val.values()):
            flags.add('blank-value-with-keep_blank-off')   # keep_blank=False documents that blanks are dropped
        if flags:
            # inputs on which form readers legitimately differ: a mapping or a malformed error
            return 'value_or_malformed', (lambda v: isinstance(v, dict)), flags
        return 'value', (lambda v, want=val: M.same_form(want, v)), flags
    if not body:
        return 'notfound', None, None
    st, val, info = M.ref_json_parse(body)
    if st == 'ok':
        extreme = info.depth >= 200 or info.int_digits > 4000
        if info.dupkeys:
            return 'value_or_malformed', None, info
        pred = (lambda v, want=val: M.same_doc(want, v))
        return ('value_or_malformed' if extreme else 'value'), pred, info
    st2, _, info2 = M.ref_json_parse(body, allow_ext=True)
    if st2 == 'ok':
        return 'value_or_malformed', None, info2     # NaN / Infinity tokens, leading BOM
    return 'malformed', None, info


SCRIBBLE = 'scribbled by the application after use'


def scribble(obj, seen=None):
    """What applications do with their own request data: mutate it in place (pop keys, add flags, append).
    Deep, so that no part of the object can be mistaken for the original any more."""
    seen = set() if seen is None else seen
    if id(obj) in seen:
        return
    seen.add(id(obj))
    if isinstance(obj, dict):
        for v in list(obj.values()):
            scribble(v, seen)
        obj.clear()
        obj[SCRIBBLE] = SCRIBBLE
    elif isinstance(obj, list):
        for v in obj:
            scribble(v, seen)
        del obj[:]
        obj.append(SCRIBBLE)


def scribble_log(rec, log):
    """Mutate every media object this request returned (not the caller's own defaults). A later request with a
    byte-identical body must still get a document equal to what was sent."""
    for op, default, k, payload, _ in log:
        if k == 'ret' and isinstance(payload, (dict, list)) and payload is not default and payload is not DEF1:
            scribble(payload)
            rec.count('mon.media_mutated_after_use')


def check_error_content(rec, wit, status, propagated=None):
    """'Re-raise the same error': the same instance must also SAY the same on every access (cause, description,
    rendered fields), and what goes on the wire when it is propagated is what it said when it was first raised."""
    first = {}
    ok = True
    for n, (key, ex, says) in enumerate(CUR.get('esnap', [])):
        rec.count('mon.error_content')
        if key not in first:
            first[key] = (n, says)
        elif says != first[key][1]:
            changed = sorted(k for k in set(says) | set(first[key][1]) if says.get(k) != first[key][1].get(k))
            rec.violation('error-content-changed', dict(
                wit, detail='the error re-raised at failing access #%d no longer says what it said at failing access '
                '#%d: %s' % (n + 1, first[key][0] + 1, changed), before={k: first[key][1].get(k) for k in changed},
                after={k: says.get(k) for k in changed}))
            ok = False
            break
    if propagated is not None and id(propagated) in first and isinstance(first[id(propagated)][1].get('dict'), dict) \
            and status is not None and 400 <= status < 500:
        try:
            rendered = json.loads(CUR.get('wire_body', b'').decode('utf-8'))
        except ValueError:
            rendered = None
        if isinstance(rendered, dict):
            rec.count('mon.error_on_wire')
            if rendered != first[id(propagated)][1]['dict']:
                rec.violation('error-on-wire-differs', dict(
                    wit, detail='the rendered error body is not what the error said when it was first raised',
                    rendered=rendered, first=first[id(propagated)][1]['dict']))
                ok = False
    return ok


def status_of(exc):
    code = getattr(exc, 'status_code', None)
    if isinstance(code, int):
        return code
    st = getattr(exc, 'status', None)
    try:
        return int(str(getattr(st, 'value', st))[:3])
    except (TypeError, ValueError):
        return None


def describe(log):
    return [(op, 'ret' if k == 'ret' else 'exc', repr(p)[:120], t) for op, _, k, p, t in log]


def judge(rec, wit, kind, ct_class, body, history, propagate, log, status, problems):
    """Evaluate every monitor on one executed request. Returns True when nothing fired."""
    fired = []

    def fire(label, detail, known=None):
        fired.append(label)
        w = dict(wit)
        w['detail'] = detail
        w['log'] = describe(log)
        w['status'] = status
        rec.violation(label, w, known_key=known)

    if problems:
        fire('protocol-problem', problems[:3])
    if len(log) != len(history):
        fire('responder-not-run', 'log %d entries for %d calls' % (len(log), len(history)))
        return False
    cls, pred, info = expected(kind, body)
    first = log[0]
    unsupported = first[2] == 'exc' and isinstance(first[3], falcon.HTTPUnsupportedMediaType)
    if unsupported:
        rec.count('out.unsupported')
        if ct_class != 'either':
            fire('designated-type-unsupported', 'content type has a designated handler but 415 was raised')
        model = M.MediaModel(('unsupported',))
    else:
        if cls == 'value_or_malformed':
            cls = 'value' if first[2] == 'ret' else 'malformed'
            rec.count('out.lenient_class')
            if kind == 'form' and cls == 'value' and 'bad-utf8' in info:
                # URLEncodedFormHandler documents MediaMalformedError for escapes that are not valid UTF-8 but
                # substitutes U+FFFD instead; the statement only forbids a server error here: diagnostic
                rec.count('diag.form_invalid_utf8_escape_accepted')
        if cls == 'value':
            model = M.MediaModel(('value', pred or (lambda v: True)))
        else:
            model = M.MediaModel((cls,))
        rec.count('out.' + cls)
    last_exc = None
    class_reported = False
    for i, (op, default, k, payload, touched) in enumerate(log):
        rec.count('mon.history_step')
        if i > 0:
            rec.count('mon.repeat_call.' + ('value' if k == 'ret' else 'error'))
            rec.count('mon.no_touch')
        for label, complaint in model.step(op, default, k, payload, touched):
            fire(label, complaint)
        if op == 'default' and k == 'ret' and model.outcome[0] == 'notfound':
            rec.count('mon.default_returned')
        last_exc = payload if k == 'exc' else None
        if k == 'exc' and not unsupported:
            rec.count('mon.error_class')
            want = falcon.MediaNotFoundError if model.outcome[0] == 'notfound' else falcon.MediaMalformedError
            st = status_of(payload)
            if model.outcome[0] in ('notfound', 'malformed') and not class_reported:
                if not isinstance(payload, want) or st is None or not (400 <= st < 500):
                    class_reported = True
                    known = None
                    if kind == 'json' and isinstance(payload, RecursionError) and M.bracket_depth(body) >= DEEP:
                        known = KNOWN_RECURSION
                        rec.count('class.recursion_finding')
                    fire('undecodable-not-malformed' if model.outcome[0] == 'malformed' else 'empty-not-notfound',
                         'call #%d raised %r (status %r), %s with a 4xx status expected'
                         % (i + 1, payload, st, want.__name__), known)
    # on the wire
    rec.count('mon.wire_status')
    if propagate and last_exc is not None:
        rec.count('wire.error_propagated')
        st = status_of(last_exc)
        if unsupported:
            if status != 415:
                fire('wire-status', 'unsupported media type answered with %r' % status)
        elif status is None or not (400 <= status < 500):
            known = None
            if kind == 'json' and isinstance(last_exc, RecursionError) and M.bracket_depth(body) >= DEEP:
                known = KNOWN_RECURSION
            fire('server-error-on-bad-media', 'response status %r for %r' % (status, last_exc), known)
        elif st is not None and 400 <= st < 500 and status != st:
            fire('wire-status', 'response status %r but the error says %r' % (status, st))
    else:
        if status != 200:
            fire('wire-status', 'responder completed but status is %r' % status)
    return not fired


CODES = 'GMDN'


def run_request(rec, stack, kind, ct, ct_class, body, history, propagate, chunks=None, with_cl=True,
                style=0, trailing=b'', tag='req', fault=None):
    wit = {'mode': 'request', 'cfg': CFG[0], 'stack': stack, 'kind': kind, 'ct': ct, 'ct_class': ct_class,
           'body_hex': body.hex() if len(body) <= 4096 else None,
           'body_gen': None if len(body) <= 4096 else CUR_GEN.get('desc'),
           'history': ''.join(history), 'propagate': propagate, 'chunks': chunks, 'with_cl': with_cl,
           'style': style, 'trailing_hex': trailing.hex(), 'tag': tag, 'fault': fault}
    log, status, problems = deserialize(stack, ct, body, history, propagate, chunks, with_cl, style, trailing, fault)
    if fault and 'stalls' in fault:
        # interrupted accesses are not parse attempts: the contract applies to the accesses that follow them
        planned = sum(1 for c in history if c in 'XT')
        done = sum(1 for e in log if e[2] == 'int')
        rec.count('mon.interrupted_access', done)
        if done != planned or CUR.get('n_stalled', 0) != planned:
            rec.count('harness.stall_not_reached')
            return True, log
        wit['interruptions'] = [e[3] for e in log if e[2] == 'int']
        log = [e for e in log if e[2] != 'int']
        history = [c for c in history if c not in 'XT']
        rec.count('mon.retry_after_interruption')
    ok = judge(rec, wit, kind, ct_class, body, history, propagate, log, status, problems)
    last = log[-1] if log else None
    ok = check_error_content(rec, wit, status, last[3] if (propagate and last and last[2] == 'exc') else None) and ok
    scribble_log(rec, log)
    rec.count('req.' + stack)
    if stack == 'a':
        n = len(chunks) if chunks else 1
        rec.count('asgi.multi_chunk' if n > 1 else 'asgi.single_chunk')
        rec.count('asgi.with_cl' if with_cl else 'asgi.no_cl')
    nontrivial = bool(body) or len(history) >= 2
    rec.case((CFG[0], stack, kind, ct, h64(body), ''.join(history), propagate, tuple(chunks or ()), with_cl, style)
             if nontrivial else None)
    return ok, log


CUR_GEN = {}


# ------------------------------------------------------------------ generators

CHARS = ['a', 'Z', '0', ' ', '"', '\\', '/', '\x00', '\x01', '\x1f', '\x7f', '\n', '\t', '\r', '\b', '\f',
         'é', 'e\u0301', 'ß', '€', '中', '\x85', '\xa0', '\u2028', '\u2029', '\ufeff', '\ufffd', '\ufffe',
         '\uffff', '\ud7ff', '\ue000', '\U0001F600', '\U0001D11E', '\U00010000', '\U0010FFFF', '&', '=',
         '+', '%', '%41', ';', ',', '#', '?', '[', ']', '{', '}', ':', "'", '<', '>', '~', '*', '\\u0041', '\\n']


SURROGATES = ['\ud800-', '\udbff-', '\udc00', '\udfff']      # a high one is always followed by a non-surrogate


def gen_str(rng, maxlen=12, surrogates=False):
    r = rng.random()
    if r < 0.1:
        return ''
    n = rng.randint(1, maxlen) if r < 0.9 else rng.randint(50, 300)
    return ''.join(rng.choice(SURROGATES) if (surrogates and rng.random() < 0.03) else
                   rng.choice(CHARS) if rng.random() < 0.7 else chr(rng.choice(
        [rng.randint(0x20, 0x7e), rng.randint(0xa0, 0xd7ff), rng.randint(0xe000, 0xffff),
         rng.randint(0x10000, 0x10ffff)])) for _ in range(n))


INTS = [0, 1, -1, 2 ** 31 - 1, -2 ** 31, 2 ** 53 - 1, 2 ** 53, 2 ** 53 + 1, -(2 ** 53) - 1, 2 ** 63, 2 ** 64,
        -2 ** 64 - 1, 10 ** 15, 10 ** 16 + 1, 10 ** 22, 10 ** 23 + 7, 10 ** 100, 10 ** 300, -10 ** 300 + 1,
        int('9' * 300), 123456789012345678901234567890]
FLOATS = [0.0, -0.0, 1.0, -1.0, 0.1, 0.2 + 0.1, 1e16, 1e22, 1e23, 5e-324, 2.2250738585072014e-308,
          1.7976931348623157e308, -1.7976931348623157e308, 1e-7, 123456.789, 1 / 3, 2 ** 53 + 2.0, 1.5e300,
          9007199254740993.0, 4.35, 0.30000000000000004, 1e21, 1e-5, 100.0]


def gen_float(rng):
    r = rng.random()
    if r < 0.3:
        return rng.choice(FLOATS)
    if r < 0.7:
        while True:
            f = struct.unpack('>d', bytes(rng.getrandbits(8) for _ in range(8)))[0]
            if f == f and f not in (math.inf, -math.inf):
                return f
    return round(rng.uniform(-1e6, 1e6), rng.randint(0, 8))


def gen_int(rng):
    r = rng.random()
    if r < 0.3:
        return rng.choice(INTS)
    if r < 0.6:
        return rng.randint(-1000, 1000)
    nd = rng.randint(1, 300)
    v = rng.getrandbits(int(nd * 3.3219) + 1) % (10 ** nd)
    return -v if rng.random() < 0.4 else v


def gen_scalar(rng):
    r = rng.random()
    if r < 0.1:
        return None
    if r < 0.2:
        return rng.random() < 0.5
    if r < 0.4:
        return gen_int(rng)
    if r < 0.6:
        return gen_float(rng)
    return gen_str(rng, surrogates=True)


def gen_doc(rng, depth):
    if depth <= 0 or rng.random() < 0.3:
        return gen_scalar(rng)
    n = rng.choice([0, 1, 1, 2, 2, 3, 4]) if depth > 2 else rng.choice([0, 1, 2, 3, 5, 8])
    if rng.random() < 0.5:
        return [gen_doc(rng, depth - 1) for _ in range(n)]
    return {gen_str(rng, 6, surrogates=True): gen_doc(rng, depth - 1) for _ in range(n)}


def gen_top_doc(rng):
    while True:
        d = gen_doc(rng, rng.choice([0, 1, 2, 3, 4, 5, 6, 6]))
        if d is not None:           # resp.media = None means "no media" (documented)
            return d


def gen_form(rng):
    out = {}
    for _ in range(rng.choice([0, 1, 1, 2, 3, 5])):
        k = gen_str(rng, 6)
        if not k:
            continue
        if rng.random() < 0.3:
            out[k] = [gen_str(rng, 6) for _ in range(rng.randint(2, 4))]
        else:
            out[k] = gen_str(rng, 8)
    return out


def gen_chunks(rng, n):
    """A chunking of n bytes (list of sizes, zeros allowed) or None for a single event."""
    r = rng.random()
    if r < 0.2:
        return None
    if r < 0.35:
        return [1] * n
    out = []
    left = n
    while left > 0:
        if rng.random() < 0.15:
            out.append(0)
            continue
        k = min(left, rng.choice([1, 1, 2, 3, 5, 8, 64, 1000]))
        out.append(k)
        left -= k
    if rng.random() < 0.3:
        out.append(0)
    return out or [0]


def gen_history(rng):
    return [rng.choice(CODES) for _ in range(rng.choice([1, 1, 2, 2, 3, 4, 6]))]


def mutate(rng, body):
    b = bytearray(body)
    for _ in range(rng.choice([1, 1, 1, 2, 3])):
        op = rng.randrange(7)
        if op == 0 and b:
            b[rng.randrange(len(b))] = rng.randrange(256)
        elif op == 1 and b:
            del b[rng.randrange(len(b))]
        elif op == 2:
            b.insert(rng.randint(0, len(b)), rng.choice(b'[]{}",:\\u0eE-+. ntf%&=\x00\xff\x80\xc3'))
        elif op == 3 and b:
            b = b[:rng.randrange(len(b))]
        elif op == 4 and b:
            p = rng.randrange(len(b))
            b[p:p] = b[p:p + rng.randint(1, 6)]
        elif op == 5:
            try:
                b = bytearray(bytes(b).decode('utf-8').encode(rng.choice(
                    ['utf-16', 'utf-16-le', 'utf-16-be', 'utf-32', 'latin-1', 'cp1252', 'utf-8-sig'])))
            except (UnicodeDecodeError, UnicodeEncodeError):
                pass
        elif op == 6 and b:
            b = b[rng.randrange(len(b)):]
    return bytes(b)


# ------------------------------------------------------------------ fixed corpora

def corpus_docs():
    docs = [0, 1, -1, False, True, '', [], {}, 0.0, -0.0, 1.0, 'x', [None], {'': None}, [[]], [{}], {'a': {}},
            {'k': [1, 'é']}, ''.join(CHARS), CHARS[:], {c: c for c in CHARS}, [[[[[[1]]]]]],
            {'a': {'b': {'c': {'d': {'e': {'f': 'deep'}}}}}}, [True, False, None, 0, 0.0, '', [], {}],
            {'true': True, 'false': False, 'null': None, '0': 0}, 'null', 'true', '[]', '{"a": 1}', 'NaN',
            ['\ud800', '\udfff', 'a\ud83d-\ude00b', {'\udc00k': '\udbff'}], '\ud800',
            ['é', 'e\u0301'], {'é': 1, 'e\u0301': 2}, '\x00', ['\U0001F600' * 40], 'a' * 70000]
    docs += INTS + FLOATS
    return docs


def corpus_forms():
    return [{}, {'a': '1'}, {'a': ''}, {'a': ['1', '2']}, {'a': ['', '']}, {'a': ['', 'x', '']},
            {'a b': 'c d', '&': '=', '=': '&', '+': '%', '%': '+', '%41': '%2B'},
            {'é': '中\U0001F600', '\x00': '\x7f\n\r\t'}, {'k': 'a,b', ',': [',', ',,']}, {'a': 'b=c&d=e'},
            {c: c for c in CHARS if c}, {'list': [c for c in CHARS]}, {'~*-._': '~*-._'}, {';': 'a;b=c'},
            {'x': 'y' * 5000}]


def hostile_bodies():
    """(description, bytes) - fixed hostile bodies, built lazily by description in replay."""
    out = [
        ('open-arrays-1e5', b'[' * 100000), ('open-objects-1e5', b'{"a":' * 100000),
        ('nested-arrays-1e5', b'[' * 100000 + b']' * 100000), ('nested-arrays-5000', b'[' * 5000 + b']' * 5000),
        ('nested-objects-3000', b'{"a":' * 3000 + b'1' + b'}' * 3000),
        ('nested-arrays-150', b'[' * 150 + b']' * 150), ('nested-mixed-100', b'[{"k":' * 100 + b'0' + b'}]' * 100),
        ('close-arrays-1e5', b']' * 100000), ('int-5000-digits', b'1' * 5000), ('int-4300-digits', b'9' * 4300),
        ('int-4301-digits', b'-' + b'9' * 4301), ('int-4000-digits', b'[' + b'7' * 4000 + b']'),
        ('float-5000-digits', b'1' * 5000 + b'.5'), ('exp-huge', b'1e99999'), ('exp-neg-huge', b'-1E-99999'),
        ('string-1MB', b'"' + b'x' * 1000000 + b'"'), ('string-unterminated-1MB', b'"' + b'x' * 1000000),
        ('bom-utf8', b'\xef\xbb\xbf{"a": 1}'), ('utf16-bom', '{"a": "é"}'.encode('utf-16')),
        ('utf16-le', '{"a": 1}'.encode('utf-16-le')), ('utf16-be', '{"a": 1}'.encode('utf-16-be')),
        ('utf32', '{"a": 1}'.encode('utf-32')), ('latin1', '{"a": "é"}'.encode('latin-1')),
        ('cp1252', '"€"'.encode('cp1252')), ('overlong-utf8', b'"\xc0\xaf"'), ('cesu-surrogates', b'"\xed\xa0\xbd\xed\xb8\x80"'),
        ('truncated-utf8', b'"\xf0\x9f\x98"'), ('lone-continuation', b'"\x80"'), ('nul-bytes', b'\x00\x00'),
        ('nul-inside', b'{"a"\x00: 1}'), ('raw-control-in-string', b'"a\nb"'), ('raw-tab-in-string', b'"a\tb"'),
        ('NaN', b'NaN'), ('Infinity', b'[Infinity]'), ('-Infinity', b'{"a": -Infinity}'), ('nan-lower', b'nan'),
        ('dup-keys', b'{"a": 1, "a": 2}'), ('trailing-garbage', b'{"a": 1} x'), ('two-docs', b'{} {}'),
        ('lone-hi-surrogate-escape', b'"\\ud83d"'), ('lone-lo-surrogate-escape', b'"\\ude00x"'),
        ('pair-escape', b'"\\ud83d\\ude00"'), ('bad-u-escape', b'"\\u12g4"'), ('short-u-escape', b'"\\u12"'),
        ('plus-u-escape', b'"\\u+123"'), ('bad-escape', b'"\\x41"'), ('single-quotes', b"{'a': 1}"),
        ('trailing-comma-arr', b'[1,]'), ('trailing-comma-obj', b'{"a":1,}'), ('leading-zero', b'01'),
        ('neg-zero', b'-0'), ('neg-zero-float', b'-0.0'), ('minus', b'-'), ('dot-number', b'.5'), ('number-dot', b'5.'),
        ('plus-number', b'+1'), ('hex-number', b'0x10'), ('exp-only', b'1e'), ('big-exp', b'1E400'),
        ('whitespace-only', b' \t\r\n'), ('vt-whitespace', b'\x0b1'), ('ff-whitespace', b'\x0c1'),
        ('nbsp-whitespace', b'\xc2\xa01'), ('comment', b'/* c */ 1'), ('true-upper', b'True'), ('none', b'None'),
        ('unquoted-key', b'{a: 1}'), ('colon-missing', b'{"a" 1}'), ('ws-rich', b' \n{ "a" :\t[ 1 ,\r2 ] }\n '),
        ('escaped-solidus', b'"\\/"'), ('del-char', b'"\x7f"'), ('u2028-raw', '"\u2028"'.encode()),
        ('scalar-string', b'"x"'), ('scalar-null', b'null'), ('scalar-true', b'true'), ('scalar-num', b'12.5e-1'),
        ('percent-json', b'%7B%22a%22%3A1%7D'), ('form-like', b'a=1&b=2'), ('single-bracket', b'['),
        ('single-brace', b'{'), ('single-quote', b'"'), ('backslash-end', b'"\\'), ('empty', b''),
    ]
    return out


def form_hostile_bodies():
    return [('f-nonascii', b'a=\xe9'), ('f-nonascii-key', b'\xc3\xa9=1'), ('f-bad-utf8-escape', b'a=%ff'),
            ('f-lone-percent', b'a=%'), ('f-short-escape', b'a=%4'), ('f-bad-hex', b'%zz=1'), ('f-no-equals', b'a'),
            ('f-empty-key', b'=x'), ('f-only-amp', b'&&&'), ('f-only-eq', b'==='), ('f-semicolon', b'a=1;b=2'),
            ('f-nul', b'a=\x00'), ('f-plus', b'a+b=c+d'), ('f-json', b'{"a": 1}'), ('f-many', b'&'.join(b'k%d=v' % i for i in range(3000))),
            ('f-repeat', b'&'.join(b'k=%d' % i for i in range(3000))), ('f-long-escape', b'a=' + b'%F0%9F%98%80' * 3000),
            ('f-utf16', 'a=1'.encode('utf-16')), ('f-empty', b''), ('f-bom', b'\xef\xbb\xbfa=1'),
            ('f-high-escape', b'a=%ED%A0%80'), ('f-percent-percent', b'a=%%41'), ('f-space', b'a b=c d')]


# ------------------------------------------------------------------ phases

def ct_class_of(ct, kind):
    if kind == 'json':
        return 'designated' if ct in JSON_CTS else 'either'
    return 'designated'


def phase_histories(rec, maxlen):
    """All call histories up to maxlen over {get, media, default=obj, default=None} x body classes x stacks."""
    classes = [
        ('json', JSON, b'{"k": [1, "\xc3\xa9"]}'), ('json', JSON, b''), ('json', JSON, b'{"k": [1, "\xc3\xa9"'),
        ('json', JSON + '; charset=utf-8', b'"\xe9"'), ('json', None, b'[1.5, null]'), ('json', None, b''),
        ('json', JSON, b' '), ('json', JSON, b'null'), ('json', VND, b''),
        ('form', FORM, b'a=1&a=2&b=%C3%A9'), ('form', FORM, b''), ('form', FORM, b'a=\xe9'),
        ('json', 'text/plain', b'{"a": 1}'), ('json', 'application/problem+json', b''),
        ('json', JSON_CTS[-2], b'{"a": 1}'), ('form', FORM_CTS[-1], b'a=1'), ('json', 'text/plain; x=\xe9', b'1'),
    ]
    idx = 0
    for L in range(1, maxlen + 1):
        for hist in itertools.product(CODES, repeat=L):
            for kind, ct, body in classes:
                for stack in 'wa':
                    for propagate in (True, False):
                        idx += 1
                        if idx % rec.nshards != rec.shard:
                            continue
                        chunks = None
                        with_cl = True
                        if stack == 'a':
                            chunks = [None, [1] * len(body), [0, len(body), 0], [len(body) // 2]][idx // 7 % 4]
                            with_cl = bool(idx // 3 % 2)
                        run_request(rec, stack, kind, ct, ct_class_of(ct, kind), body, list(hist), propagate,
                                    chunks, with_cl, style=(idx // 5) % 4, tag='hist')
                        rec.count('phase.histories')
                        rec.seen('histories', hist)


def phase_truncations(rec, quick):
    """Every prefix of seed bodies as a request body, both stacks."""
    seeds = []
    for doc in [{'k': [1, 'é\U0001F600', -2.5e-3, True, None], 'o': {'': '\\"\n'}}, [10 ** 30, 'x'], 'é"\\',
                -12.5e+10, [[], {}, [[1]]]]:
        st, _, body, _ = serialize('w', doc, JSON)
        if st == 200:
            seeds.append(('json', body))
        seeds.append(('json', M.ref_json_dump(doc)))
    seeds.append(('json', b'{"a":"\\ud83d\\ude00\\u00e9","b":[true,false,null,1E+2,0.5e-1]} '))
    seeds.append(('form', b'a+b=%C3%A9%F0%9F%98%80&a+b=2&c=&d=%26%3D'))
    idx = 0
    for kind, body in seeds:
        for n in range(len(body) + 1):
            for stack in 'wa':
                idx += 1
                if idx % rec.nshards != rec.shard:
                    continue
                pre = body[:n]
                ct = JSON if kind == 'json' else FORM
                hist = ['G', 'G'] if idx % 3 else ['G', 'D', 'M']
                run_request(rec, stack, kind, ct, 'designated', pre, hist, idx % 2 == 0,
                            chunks=[1] * n if (stack == 'a' and idx % 4 == 1) else None,
                            with_cl=idx % 5 != 0, tag='trunc')
                rec.count('phase.truncations')


def compositions(n):
    """All ordered ways to cut n bytes into non-empty chunks (2^(n-1))."""
    for mask in range(1 << (n - 1)):
        out = []
        size = 1
        for i in range(n - 1):
            if mask >> i & 1:
                out.append(size)
                size = 1
            else:
                size += 1
        out.append(size)
        yield out


def phase_chunkings(rec, quick):
    """Every chunking of one round-tripped body (ASGI), with and without Content-Length."""
    doc = {'é': [1]} if quick else {'é': [1, 'x']}
    st, ct, body, problems = serialize('a', doc, JSON)
    if st != 200 or problems:
        rec.violation('serialize-failed', {'mode': 'roundtrip', 'doc_hex': M.ref_json_dump(doc).hex(),
                                           'ser': 'a', 'ct': JSON, 'detail': [st, problems]})
        return
    fbody = b'a=%C3%A9&a=1' if quick else b'a=%C3%A9&a=1+2'
    idx = 0
    for kind, b, c in (('json', body, ct), ('form', fbody, FORM)):
        for comp in compositions(len(b)):
            for with_cl in (True, False):
                idx += 1
                if idx % rec.nshards != rec.shard:
                    continue
                run_request(rec, 'a', kind, c, 'designated', b, ['G', 'M'] if idx % 2 else ['G'], False, comp,
                            with_cl, style=idx % 4, tag='chunking')
                rec.count('phase.chunkings')
                rec.seen('chunkings', (kind, tuple(comp), with_cl))


RT_SEQ = [0]


def roundtrip(rec, kind, doc, ct, rng, stacks_ser='wa', stacks_de='wa', tag='rt', pre=None):
    """resp.media = doc on each serializing stack; body sent back on each deserializing stack."""
    same = M.same_doc if kind == 'json' else M.same_form
    dump = M.ref_json_dump if kind == 'json' else M.ref_form_dump
    doc_hex = dump(doc).hex()
    bodies = {}
    if pre is None:
        pre = 0 if rng is None else rng.choice([0, 0, 0, 1, 1, 2, 3, 3, 4, 4, 5, 5])
    pre = int(pre)
    if pre in (3, 4) and not isinstance(doc, (dict, list)):
        pre -= 2                                   # only containers can be mutated in place
    if pre:
        rec.count({1: 'mon.reassigned_after_render', 2: 'mon.render_body_sent',
                   3: 'mon.same_object_reassigned.responder', 4: 'mon.same_object_reassigned.middleware',
                   5: 'mon.render_taken_over'}[pre])
        if pre in (3, 4):
            rec.count('mon.same_object.' + ('dict' if isinstance(doc, dict) else 'list'))
    for s in stacks_ser:
        st, rct, body, problems = serialize(s, doc, ct, pre)
        rec.count('mon.serialize.' + kind + '.' + s)
        base = {'mode': 'roundtrip', 'cfg': CFG[0], 'kind': kind, 'doc_hex': doc_hex, 'ct': ct, 'ser': s, 'tag': tag,
                'pre': pre}
        if st != 200 or problems:
            rec.violation('serialize-failed', dict(base, detail=[st, problems, body[:200]]))
            continue
        if rct is None:
            rct = ct
        if rct != (ct if ct is not None else JSON):
            rec.count('diag.content_type_rewritten')
        bodies[s] = (rct, body)
        # self-check of the trusted base: the reference reader must read falcon's body as the document
        if kind == 'json':
            try:
                r = M.ref_json_parse(body.decode('utf-16').encode('utf-8') if rct == UTF16 else body)
            except UnicodeDecodeError:
                r = ('bad',)
            ok = r[0] == 'ok' and M.same_doc(wire_doc(kind, doc), r[1])
        else:
            r = M.ref_form_parse(body)
            ok = r[0] == 'ok' and M.same_form(wire_doc(kind, doc), r[1])
        rec.count('mon.ref_reads_body')
        if not ok:
            rec.count('model.disagrees_with_body')
            rec.sample({'model_disagreement': doc_hex, 'body': body[:300]})
    for s, (rct, body) in bodies.items():
        for d in stacks_de:
            hist = gen_history(rng) if rng is not None else ['G', 'M']
            chunks, with_cl, style, trailing = None, True, 0, b''
            if rng is None:
                # deterministic variation of the framing: with / without Content-Length, one / several events
                RT_SEQ[0] += 1
                if d == 'a':
                    with_cl = RT_SEQ[0] % 2 == 0
                    chunks = [None, [len(body) // 2 + 1] * 2, None, [3] * -(-len(body) // 3) if len(body) < 200 else None
                              ][RT_SEQ[0] // 2 % 4]
                elif RT_SEQ[0] % 3 == 0:
                    trailing = b']}&x=1'
            if rng is not None:
                if d == 'a':
                    chunks, with_cl, style = gen_chunks(rng, len(body)), rng.random() < 0.5, rng.randrange(4)
                elif rng.random() < 0.3:
                    trailing = rng.choice([b'GET / HTTP/1.1\r\n\r\n', b']}', b'\x00', b'&z=1'])
            wit = {'mode': 'roundtrip', 'cfg': CFG[0], 'kind': kind, 'doc_hex': doc_hex, 'ct': ct, 'ser': s, 'de': d,
                   'history': ''.join(hist), 'chunks': chunks, 'with_cl': with_cl, 'style': style,
                   'trailing_hex': trailing.hex(), 'tag': tag, 'pre': pre}
            log, status, problems = deserialize(d, rct, body, hist, False, chunks, with_cl, style, trailing)
            rec.count('mon.roundtrip.%s.%s%s' % (kind, s, d))
            if d == 'a':
                rec.count('asgi.multi_chunk' if chunks and len(chunks) > 1 else 'asgi.single_chunk')
                rec.count('asgi.with_cl' if with_cl else 'asgi.no_cl')
            fired = False
            if problems or status != 200 or len(log) != len(hist):
                rec.violation('roundtrip-request-failed', dict(wit, detail=[status, problems, describe(log)]))
                fired = True
            else:
                # forms: an empty mapping serializes to an empty body, documented to read back as {}
                model = M.MediaModel(('value', lambda v: same(doc, v)))
                for op, default, k, payload, touched in log:
                    rec.count('mon.history_step')
                    for label, complaint in model.step(op, default, k, payload, touched):
                        rec.violation('roundtrip-' + ('not-equal' if label in ('wrong-document', 'valid-body-rejected')
                                                      else label),
                                      dict(wit, detail=complaint, body=body[:300], log=describe(log)))
                        fired = True
            scribble_log(rec, log)
            if fired:
                break
    rec.case((CFG[0], kind, doc_hex, ct, tag, pre))
    return bodies


def phase_corpus(rec):
    idx = 0
    for doc in corpus_docs():
        for ct in JSON_CTS:
            idx += 1
            if idx % rec.nshards != rec.shard:
                continue
            roundtrip(rec, 'json', doc, ct, None, tag='corpus', pre=idx % 6)
            rec.count('phase.corpus')
    for f in corpus_forms():
        for ct in FORM_CTS:
            idx += 1
            if idx % rec.nshards != rec.shard:
                continue
            roundtrip(rec, 'form', f, ct, None, tag='corpus', pre=idx % 6)
            rec.count('phase.corpus')


def phase_reassign(rec):
    """Every container document of the corpus: assign, render, mutate in place, assign the same object again
    (in the responder and in process_response middleware), both stacks, then the full round trip."""
    idx = 0
    for doc in corpus_docs():
        if not isinstance(doc, (dict, list)):
            continue
        for ct in (None, JSON + '; charset=utf-8', VND):
            for pre in (3, 4):
                idx += 1
                if idx % rec.nshards != rec.shard:
                    continue
                roundtrip(rec, 'json', doc, ct, None, tag='reassign', pre=pre)
                rec.count('phase.reassign')
    for f in corpus_forms():
        for pre in (3, 4):
            idx += 1
            if idx % rec.nshards != rec.shard:
                continue
            roundtrip(rec, 'form', f, FORM, None, tag='reassign', pre=pre)
            rec.count('phase.reassign')


def run_faulty(rec, stack, ct, body, history, fault, chunks=None, with_cl=True, tag='faulty'):
    """One request whose single parse attempt fails with an arbitrary exception (I/O error while the body is
    read, or a custom handler raising). Contract: every later access re-raises the IDENTICAL exception
    instance, performs no stream operation and does not invoke the handler again."""
    wit = {'mode': 'faulty', 'cfg': CFG[0], 'stack': stack, 'ct': ct, 'body_hex': body.hex(), 'history': ''.join(history),
           'fault': fault, 'chunks': chunks, 'with_cl': with_cl, 'tag': tag}
    log, status, problems = deserialize(stack, ct, body, history, False, chunks, with_cl, 0, b'', fault)
    hdelta = CUR.get('hdelta', [])
    fired = []

    def fire(label, detail):
        fired.append(label)
        rec.violation(label, dict(wit, detail=detail, log=describe(log), hdelta=hdelta, status=status))

    kind = 'io' if 'io_fail_at' in fault else 'handler'
    rec.count('mon.faulty.%s.%s' % (kind, stack))
    if problems:
        fire('faulty-request-failed', problems[:3])
    if len(log) != len(history) or len(hdelta) != len(history):
        fire('responder-not-run', 'log %d entries for %d calls' % (len(log), len(history)))
        return False
    # harness self-check: the planned fault must really have happened during the first access
    if kind == 'io' and CUR.get('io_failures', 0) < 1:
        rec.count('harness.fault_not_injected')
        return True
    if kind == 'handler' and hdelta[0] != 1:
        rec.count('harness.fault_not_injected')
        return True
    model = M.MediaModel(('error',))
    for i, (op, default, k, payload, touched) in enumerate(log):
        rec.count('mon.history_step')
        for label, complaint in model.step(op, default, k, payload, touched):
            fire(label, complaint)
        if i > 0:
            rec.count('mon.faulty.repeat_call')
            if hdelta[i]:
                fire('handler-invoked-again', 'call #%d invoked the media handler %d more time(s)' % (i + 1, hdelta[i]))
    if status != 200:
        fire('wire-status', 'responder completed but status is %r' % status)
    if not check_error_content(rec, wit, status):
        fired.append('error-content-changed')
    scribble_log(rec, log)
    if fault.get('hplan', {}).get('succeed_second'):
        rec.count('mon.faulty.succeed_second')
    if kind == 'handler':
        rec.count('mon.faulty.exc.' + fault['hplan']['exc'])
        rec.count('mon.faulty.' + ('async_handler' if ct == FAULTY_ASYNC else 'sync_handler'))
    rec.case(('faulty', stack, ct, body, ''.join(history), repr(sorted(fault.items())), tuple(chunks or ()), with_cl))
    return not fired


def faulty_variants():
    """(ct, body, fault, chunks) per stack - the bounded space of first-attempt failures."""
    out = {'w': [], 'a': []}
    body = b'{"k": [1, "\xc3\xa9"]}'
    for ct in (JSON, None, FORM, VND):
        out['w'].append((ct, body, {'io_fail_at': 0}, None))
        n = len(body)
        for k in (1, 2, n - 1):
            out['a'].append((ct, body, {'io_fail_at': k}, [1] * n))
        out['a'].append((ct, body, {'io_fail_at': 1}, [5, 5]))
    for ct in (FAULTY_SYNC, FAULTY_ASYNC):
        for exc in EXC_FACTORIES:
            for when in ('before-read', 'after-read'):
                for second in (False, True):
                    plan = {'exc': exc, 'when': when, 'succeed_second': second}
                    out['w'].append((ct, body, {'hplan': plan}, None))
                    out['a'].append((ct, body, {'hplan': plan}, [4, 4]))
        # a handler fault and an I/O fault combined: the handler's read hits the failing connection
        plan = {'exc': 'ValueError', 'when': 'after-read', 'succeed_second': True}
        out['w'].append((ct, body, {'hplan': plan, 'io_fail_at': 0}, None))
        out['a'].append((ct, body, {'hplan': plan, 'io_fail_at': 1}, [1] * len(body)))
    return out


def phase_faulty(rec, maxlen):
    """All histories of 2..maxlen accesses x every first-attempt failure variant x both stacks."""
    variants = faulty_variants()
    idx = 0
    for L in range(2, maxlen + 1):
        for hist in itertools.product(CODES, repeat=L):
            for stack in 'wa':
                for ct, body, fault, chunks in variants[stack]:
                    idx += 1
                    if idx % rec.nshards != rec.shard:
                        continue
                    run_faulty(rec, stack, ct, body, list(hist), fault, chunks, with_cl=bool(idx // 3 % 2))
                    rec.count('phase.faulty')


CONFIG_DOCS = [['\ud800', {'\udfff-': 'x\udbff-'}], {'k': [1, 'é\U0001F600', -2.5e-3, True, None], 'o': {'': '\\"\n/\x00\u2028'}}, [], {}, 0, False, '',
               'é', ['e\u0301', '\U0010FFFF', '\x7f'], 10 ** 30, 1.5e300, [[[[[[1]]]]]], {'b': 1, 'a': {'d': 2, 'c': [3]}},
               'x' * 70000]


def phase_handler_config(rec):
    """Every handler configuration (dumps x loads x stock/subclass, registered for the default JSON type and a
    vendor +json type) x a document corpus: full round trip on the four stack pairs with response-side
    histories, plus the request-side contract (valid / empty / undecodable bodies) through the same handlers."""
    idx = 0
    req_classes = [(b' {"a" : [1, "\\u00e9\xc3\xa9"]} ', 'GDM'), (b'', 'DGN'), (b'{"a": [1, ', 'GG'), (b'"\xe9"', 'MD'),
                   (b'[' * 100000, 'GM')]
    try:
        for cfg in all_cfgs():
            if rec.tier == 'quick' and cfg[3] == 'sub' and cfg[1] != 'default':
                continue        # quick: custom request/response types with every dumps, default loads only
            set_cfg(cfg)
            for doc in CONFIG_DOCS:
                for ct in (None, JSON + '; charset=utf-8', VND):
                    if isinstance(doc, str) and len(doc) > 10000 and ct is not None:
                        continue                      # the 70 KB document once per configuration
                    idx += 1
                    if idx % rec.nshards != rec.shard:
                        continue
                    roundtrip(rec, 'json', doc, ct, None, tag='config', pre=idx % 6)
                    rec.count('phase.config')
                    rec.count('config.dumps.' + cfg[0])
                    rec.count('config.loads.' + cfg[1])
                    rec.count('config.class.' + cfg[2])
                    rec.count('config.types.' + cfg[3])
            for body, hist in req_classes:
                for stack in 'wa':
                    for ct in (JSON, VND):
                        if len(body) > 4096 and ct == VND:
                            continue
                        idx += 1
                        if idx % rec.nshards != rec.shard:
                            continue
                        CUR_GEN['desc'] = 'open-arrays-1e5'
                        run_request(rec, stack, 'json', ct, 'designated', body, list(hist), idx % 2 == 0,
                                    [len(body) // 3 + 1] * 2 if (stack == 'a' and body) else None, with_cl=idx % 3 != 0,
                                    tag='hostile:open-arrays-1e5' if len(body) > 4096 else 'config')
                        rec.count('phase.config_requests')
            if cfg[0] == 'default' and cfg[1] == 'default':
                for f in corpus_forms():
                    idx += 1
                    if idx % rec.nshards != rec.shard:
                        continue
                    roundtrip(rec, 'form', f, FORM, None, tag='config', pre=idx % 6)
                    rec.count('config.form.' + cfg[2])
            rec.seen('handler_configs', cfg)
        # custom sync-only handlers that rely on the content_length / content_type arguments
        for cfg in lengthaware_cfgs():
            set_cfg(cfg)
            for doc in CONFIG_DOCS:
                for ct in (None, JSON + '; charset=utf-8', VND, UTF16):
                    if isinstance(doc, str) and len(doc) > 10000 and ct is not None:
                        continue
                    idx += 1
                    if idx % rec.nshards != rec.shard:
                        continue
                    roundtrip(rec, 'json', doc, ct, None, tag='config-lengthaware', pre=idx % 6)
                    rec.count('config.lengthaware.json')
                    rec.count('config.types.' + cfg[3])
            for body, hist in req_classes:
                for stack in 'wa':
                    for with_cl in (True, False):
                        idx += 1
                        if idx % rec.nshards != rec.shard:
                            continue
                        CUR_GEN['desc'] = 'open-arrays-1e5'
                        run_request(rec, stack, 'json', JSON, 'designated', body, list(hist), idx % 2 == 0,
                                    [len(body) // 3 + 1] * 3 if (stack == 'a' and body) else None, with_cl=with_cl,
                                    tag='hostile:open-arrays-1e5' if len(body) > 4096 else 'config-lengthaware')
                        rec.count('config.lengthaware.requests')
            for f in corpus_forms():
                idx += 1
                if idx % rec.nshards != rec.shard:
                    continue
                roundtrip(rec, 'form', f, FORM, None, tag='config-lengthaware', pre=idx % 6)
                rec.count('config.lengthaware.form')
            rec.seen('handler_configs', cfg)
        # handlers whose overridden public deserialize()/deserialize_async() matter for the result
        for cfg in override_cfgs():
            set_cfg(cfg)
            for doc in CONFIG_DOCS:
                for ct in (None, VND):
                    if isinstance(doc, str) and len(doc) > 10000 and ct is not None:
                        continue
                    idx += 1
                    if idx % rec.nshards != rec.shard:
                        continue
                    roundtrip(rec, 'json', doc, ct, None, tag='config-override', pre=idx % 6)
                    rec.count('config.override.json')
                    rec.count('config.types.' + cfg[3])
            if cfg[0] == 'default':
                for f in corpus_forms():
                    idx += 1
                    if idx % rec.nshards != rec.shard:
                        continue
                    multi = {k: (v if isinstance(v, list) else [v]) for k, v in f.items()}
                    roundtrip(rec, 'form', multi, FORM, None, tag='config-override', pre=idx % 6)
                    rec.count('config.override.form')
            rec.seen('handler_configs', cfg)
    finally:
        set_cfg(None)


FORM_VALUES = ['', 'x', 'a,b', ',', ',,', 'a,', ',a', '%2C', 'a b', '\xe9,\u4e2d', 'a%2Cb', '+,&=']


def form_option_docs():
    """Single values, every ordered pair and a sample of triples over values rich in commas/blanks/escapes,
    plus multi-key mappings (commas in first, later and all positions)."""
    docs = [{'k': v} for v in FORM_VALUES]
    docs += [{'tags': [a, b]} for a in FORM_VALUES for b in FORM_VALUES]
    docs += [{'t': [a, b, c]} for a in FORM_VALUES[1:6] for b in FORM_VALUES[:4] for c in FORM_VALUES[2:5]]
    docs += [{'a,b': ['x', 'y,z'], ',': 'p,q', 'c': ['1,2', '3', '4,5'], 'd': ''},
             {'k1': ['red', 'green,blue'], 'k2': ['red,green', 'blue'], 'k3': 'single,comma'}]
    return docs


def admissible_form(doc):
    """The part of a mapping inside the documented round-trip domain of the active form options
    (keep_blank=False documents that blank values are dropped: such mappings are outside)."""
    if 'noblank' not in form_opt():
        return doc
    out = {}
    for k, v in doc.items():
        if isinstance(v, list):
            v = [x for x in v if x != '']
            if len(v) >= 2:
                out[k] = v
        elif v != '':
            out[k] = v
    return out


def phase_form_options(rec):
    """URLEncodedFormHandler(keep_blank=, csv=) x stock/subclass x stock/custom request types: round trip of
    mappings whose values carry commas, blanks and escapes in every position of multi-valued keys, plus the same
    mappings written by the independent serializer."""
    idx = 0
    docs = form_option_docs()
    try:
        for cfg in form_cfgs():
            set_cfg(cfg)
            for doc in docs:
                idx += 1
                if idx % rec.nshards != rec.shard:
                    continue
                d = admissible_form(doc)
                roundtrip(rec, 'form', d, FORM_CTS[idx % len(FORM_CTS)], None, tag='form-options', pre=idx % 6)
                alt = M.ref_form_dump(d)
                stack = 'wa'[idx // 2 % 2]
                run_request(rec, stack, 'form', FORM, 'designated', alt, ['G', 'M'], False,
                            [3] * -(-len(alt) // 3) if (stack == 'a' and alt) else None, with_cl=idx % 2 == 0,
                            tag='form-options')
                rec.count('phase.form_options')
                rec.count('formopt.' + cfg[4])
                if any(isinstance(v, list) and any(',' in x for x in v[1:]) for v in d.values()):
                    rec.count('formopt.comma_in_later_value.' + cfg[4])
            rec.seen('handler_configs', cfg)
    finally:
        set_cfg(None)


def phase_repeated_bodies(rec):
    """Byte-identical bodies in consecutive requests (same and different stacks, apps and configurations); the
    application mutates every media object after use, so shared state between requests shows up as a wrong
    document in the later request. Driven past typical cache sizes (280 distinct form bodies, then all again)."""
    idx = 0
    bodies = [('form', FORM, b'csrf=%d&tags=a&tags=b%%2Cc&note=' % i) for i in range(280)]
    bodies += [('json', JSON, b'{"id": %d, "tags": ["a", {"b": [1]}]}' % i) for i in range(100)]
    try:
        for rnd in range(2):
            for kind, ct, body in bodies:
                idx += 1
                if idx % rec.nshards != rec.shard:
                    continue
                for cfg in (None, ('default', 'default', 'sub', 'sub', 'default')):
                    set_cfg(cfg)
                    for stack in 'wa':
                        run_request(rec, stack, kind, ct, 'designated', body, ['G', 'M'], False,
                                    [7] * -(-len(body) // 7) if stack == 'a' else None, tag='repeated')
                        rec.count('phase.repeated_bodies')
    finally:
        set_cfg(None)


CL_HEADERS = ['12abc', '-1', '-0', '', ' ', ' 5', '5 ', '+5', '5.0', '0x10', '1e1', '1_0', '٣', '5,5', '5, 5',
              '00005', '0', '3', '999999999999999999999999999999', '9' * 5000, 'NaN', 'abc', '\x0c5']


def run_consistent(rec, stack, ct, body, history, cl_header, chunks=None, tag='framing'):
    """One request with an unusual Content-Length header. Nothing is demanded about the outcome of the single
    attempt; only the statement's "at most once" clause: every later access returns the identical object or
    re-raises the identical error instance, without touching the stream."""
    fault = {'cl_header': cl_header}
    wit = {'mode': 'consistent', 'cfg': CFG[0], 'stack': stack, 'ct': ct, 'body_hex': body.hex(),
           'history': ''.join(history), 'cl_header': cl_header, 'chunks': chunks, 'tag': tag}
    log, status, problems = deserialize(stack, ct, body, history, False, chunks, True, 0, b'', fault)
    rec.count('mon.framing.' + stack)
    if len(log) != len(history):
        # the framework answered before the responder ran (it may reject the framing itself): nothing to judge
        rec.count('framing.responder_not_reached')
        rec.case(None)
        return True
    fired = []
    model = M.MediaModel(('consistent',))
    for i, (op, default, k, payload, touched) in enumerate(log):
        rec.count('mon.history_step')
        if i:
            rec.count('mon.framing.repeat_call.' + ('value' if k == 'ret' else 'error'))
        for label, complaint in model.step(op, default, k, payload, touched):
            fired.append(label)
            rec.violation(label, dict(wit, detail=complaint, log=describe(log), status=status))
    rec.count('framing.first_' + ('value' if log[0][2] == 'ret' else type(log[0][3]).__name__))
    if not check_error_content(rec, wit, status):
        fired.append('error-content-changed')
    scribble_log(rec, log)
    rec.case(('framing', CFG[0], stack, ct, body, ''.join(history), cl_header, tuple(chunks or ())))
    return not fired


def phase_framing(rec, maxlen):
    """Unusual Content-Length header values (malformed, signed, padded, huge, smaller than the body) x bodies x
    all histories of 2..maxlen accesses x both stacks x stock/custom request types."""
    bodies = [(JSON, b'{"k": [1, "\xc3\xa9"]}'), (None, b'[1]'), (FORM, b'a=1&a=2'), (JSON, b''), (VND, b'{"a"')]
    idx = 0
    try:
        for cfg in (None, ('default', 'default', 'sub', 'sub', 'default'))[:1 if rec.tier == 'quick' else 2]:
            set_cfg(cfg)
            for cl in CL_HEADERS:
                try:
                    cl.encode('latin-1')
                except UnicodeEncodeError:
                    continue
                for ct, body in bodies:
                    for L in range(2, maxlen + 1):
                        for hist in itertools.product(CODES, repeat=L):
                            for stack in 'wa':
                                idx += 1
                                if idx % rec.nshards != rec.shard:
                                    continue
                                run_consistent(rec, stack, ct, body, list(hist), cl,
                                               [2] * -(-len(body) // 2) if (stack == 'a' and idx // 2 % 2 and body) else None)
                                rec.count('phase.framing')
    finally:
        set_cfg(None)


def run_settled(rec, stack, ct, body, history, fault, chunks=None, with_cl=True, tag='drain'):
    """A handler with exhaust_stream = True parses the head of the body; the framework drains the rest, and that
    drain may fail (connection lost). Whatever the first access did, the following ones are settled: the one
    parsed document (or the first access' own error), no stream operation, no second handler invocation."""
    wit = {'mode': 'settled', 'cfg': CFG[0], 'stack': stack, 'ct': ct, 'body_len': len(body),
           'history': ''.join(history), 'fault': fault, 'chunks': chunks, 'with_cl': with_cl, 'tag': tag}
    log, status, problems = deserialize(stack, ct, body, history, False, chunks, with_cl, 0, b'', fault)
    hdelta = CUR.get('hdelta', [])
    rec.count('mon.drain.' + stack)
    fired = []

    def fire(label, detail):
        fired.append(label)
        rec.violation(label, dict(wit, detail=detail, log=describe(log), hdelta=hdelta, status=status))

    if problems:
        fire('drain-request-failed', problems[:3])
    if len(log) != len(history) or len(hdelta) != len(history):
        fire('responder-not-run', 'log %d entries for %d calls' % (len(log), len(history)))
        return False
    # harness self-check: the planned fault really happened / the handler really ran during the first access
    # (a sync-only handler on ASGI is fed by the adapter, which may hit the fault before the handler runs)
    if (fault and CUR.get('io_failures', 0) < 1) or (not fault and hdelta[0] != 1):
        rec.count('harness.fault_not_injected')
        return True
    model = M.MediaModel(('settled', lambda v: M.same_doc(PREFIX_DOC, v)))
    for i, (op, default, k, payload, touched) in enumerate(log):
        rec.count('mon.history_step')
        for label, complaint in model.step(op, default, k, payload, touched):
            fire(label, complaint)
        if i > 0:
            rec.count('mon.drain.repeat_call.' + ('value' if k == 'ret' else 'error'))
            if hdelta[i]:
                fire('handler-invoked-again', 'call #%d invoked the media handler %d more time(s)' % (i + 1, hdelta[i]))
    rec.count('drain.first_' + ('value' if log[0][2] == 'ret' else type(log[0][3]).__name__))
    if status != 200:
        fire('wire-status', 'responder completed but status is %r' % status)
    if not check_error_content(rec, wit, status):
        fired.append('error-content-changed')
    scribble_log(rec, log)
    rec.case(('drain', CFG[0], stack, ct, len(body), ''.join(history), repr(fault), tuple(chunks or ()), with_cl))
    return not fired


def phase_drain(rec, maxlen):
    """exhaust_stream handlers (sync-only and async) x body tails (none, short, > one 64 KB drain chunk) x the drain
    failing at its 1st / 2nd read (or not at all) x all histories of 2..maxlen accesses x both stacks."""
    idx = 0
    try:
        for cfg in (None, ('default', 'default', 'sub', 'sub', 'default')):
            set_cfg(cfg)
            for ct in (PREFIX_SYNC, PREFIX_ASYNC):
                for tail in (0, 10, 150000):
                    body = prefix_body(tail)
                    variants = {'w': [(None, None)], 'a': [(None, None), (None, [len(body) // 5 + 1] * 5)]}
                    if tail:
                        # WSGI reads: #0 length, #1 document, #2.. drain ; ASGI receive: #0 app, #1.. stream
                        variants['w'] += [({'io_fail_at': 2}, None)] + ([({'io_fail_at': 3}, None)] if tail > 70000 else [])
                        nev = 6
                        size = len(body) // nev + 1
                        head_events = -(-(4 + len(PREFIX_JSON)) // size)
                        for k in sorted({max(head_events, 1) + 0, nev - 1}):
                            if k >= head_events and k >= 1:
                                variants['a'].append(({'io_fail_at': k}, [size] * nev))
                    for L in range(2, maxlen + 1):
                        for hist in itertools.product(CODES, repeat=L):
                            for stack in 'wa':
                                for fault, chunks in variants[stack]:
                                    idx += 1
                                    if idx % rec.nshards != rec.shard:
                                        continue
                                    run_settled(rec, stack, ct, body, list(hist), fault, chunks,
                                                with_cl=bool(idx // 2 % 2) or stack == 'w')
                                    rec.count('phase.drain')
                                    rec.count('drain.fault' if fault else 'drain.clean')
    finally:
        set_cfg(None)


def phase_error_content(rec):
    """The same undecodable body, every access history of length 1..3 ending in a failing access that is
    propagated, both stacks, default and subclassed handlers: the 400 answer on the wire is one and the same
    document whatever the number of earlier accesses and whichever the stack."""
    bodies = [('json', JSON, b'{"k": [1, '), ('json', None, b'"\xe9"'), ('json', VND, b'{"a": 1} x'),
              ('form', FORM, b'a=\xe9'), ('json', JSON, b''), ('json', JSON, b'\xef\xbb\xbf{}')]
    idx = 0
    try:
        for cfg in (None, ('default', 'default', 'sub', 'sub', 'default'), ('bytes', 'str-only', 'stock', 'stock', 'default')):
            set_cfg(cfg)
            for kind, ct, body in bodies:
                idx += 1
                if idx % rec.nshards != rec.shard:
                    continue
                seen = {}
                for L in (1, 2, 3):
                    for hist in itertools.product('GMD', repeat=L):
                        if hist[-1] == 'D' and not body:
                            continue                      # the default is returned: nothing is propagated
                        for stack in 'wa':
                            ok, log = run_request(rec, stack, kind, ct, 'designated', body, list(hist), True,
                                                  [1] * len(body) if (stack == 'a' and L == 2 and body) else None,
                                                  with_cl=L != 3, tag='error-content')
                            rec.count('phase.error_content')
                            if not log or log[-1][2] != 'exc':
                                continue
                            wire = (CUR_STATUS[0], CUR.get('wire_body'))
                            seen.setdefault(wire, (stack, ''.join(hist)))
                if len(seen) > 1:
                    rec.violation('error-answer-depends-on-history-or-stack', {
                        'mode': 'error-content', 'cfg': CFG[0], 'kind': kind, 'ct': ct, 'body_hex': body.hex(),
                        'answers': [[st, wb[:300], who] for (st, wb), who in seen.items()]})
                rec.count('mon.error_answers_compared')
    finally:
        set_cfg(None)


def phase_interrupted(rec, quick):
    """ASGI: the first access(es) to the media are interrupted (task cancelled / wait_for deadline) while waiting
    for the d-th body event, for every d and every pair d1 < d2, then the media is accessed normally.
    Oracle: unchanged - the accesses that follow obey the contract for the complete body (equal document /
    malformed / not found), for every chunking."""
    bodies = [('json', JSON, b'{"k": [1, "\xc3\xa9"]}'), ('json', None, b'{"k": [1, "\xc3\xa9"'),
              ('json', VND, b'[1, [2, [3]]]'), ('form', FORM, b'a=%C3%A9&a=1+2')]
    idx = 0
    try:
        for cfg in (None, ('default', 'default', 'sub', 'sub', 'default'), ('bytes', 'str-only', 'stock', 'sub', 'csv')):
            set_cfg(cfg)
            for kind, ct, body in bodies:
                n = len(body)
                for chunks in ([1] * n, [3] * -(-n // 3), [2, 5] + [1] * (n - 7), [n - 2, 1, 1]):
                    nev = len(chunks)
                    plans = [(d,) for d in range(1, nev)]
                    plans += [(d1, d2) for d1 in range(1, nev) for d2 in range(d1 + 1, nev)] if nev <= 8 or not quick \
                        else [(d, d + 1) for d in range(1, nev - 1)] + [(1, nev - 1), (2, nev - 1)]
                    for plan in plans:
                        for how in 'XT':
                            for hist in ('G', 'GM', 'DG', 'MN'):
                                idx += 1
                                if idx % rec.nshards != rec.shard:
                                    continue
                                run_request(rec, 'a', kind, ct, 'designated', body, [how] * len(plan) + list(hist),
                                            idx % 3 == 0, chunks, with_cl=idx % 2 == 0, tag='interrupted',
                                            fault={'stalls': list(plan)})
                                rec.count('phase.interrupted')
                                rec.count('interrupted.' + ('cancel' if how == 'X' else 'deadline'))
                                rec.count('interrupted.%d_times' % len(plan))
                                if plan[-1] >= 2:
                                    rec.count('interrupted.after_consuming_wire_chunks')
    finally:
        set_cfg(None)


def phase_hostile(rec):
    idx = 0
    for desc, body in hostile_bodies():
        for stack in 'wa':
            for ct in (JSON, None, 'application/problem+json'):
                if len(body) > 4096 and ct != JSON:
                    continue                     # the big bodies under the plain JSON type only
                idx += 1
                if idx % rec.nshards != rec.shard:
                    continue
                CUR_GEN['desc'] = desc
                big = len(body) > 4096
                chunks = None
                if stack == 'a' and idx % 2:
                    chunks = [len(body) // 3 + 1] * 2 if big else [1] * len(body)
                run_request(rec, stack, 'json', ct, ct_class_of(ct, 'json'), body, ['G', 'G'] if idx % 2 else ['D', 'G', 'M'],
                            idx % 3 != 0, chunks, with_cl=idx % 4 != 0, tag='hostile:' + desc)
                rec.count('phase.hostile')
                if M.bracket_depth(body) >= DEEP:
                    rec.count('class.deep_nesting')
                if desc.startswith('int-') or desc.startswith('float-5000'):
                    rec.count('class.huge_number')
    for desc, body in form_hostile_bodies():
        for stack in 'wa':
            idx += 1
            if idx % rec.nshards != rec.shard:
                continue
            CUR_GEN['desc'] = desc
            run_request(rec, stack, 'form', FORM_CTS[idx % len(FORM_CTS)], 'designated', body, ['G', 'M'], idx % 2 == 0,
                        [7] * (len(body) // 7) if stack == 'a' and idx % 4 < 2 else None, with_cl=idx % 4 != 1,
                        tag='hostile:' + desc)
            rec.count('phase.hostile_form')


MIN_RANDOM_ROUNDS = 60


def phase_random(rec):
    rng = rec.rng
    n = 0
    # a count-sized minimum (so the floors do not depend on machine load), then as long as the budget allows
    while rec.budget_ok(0.85) or n < MIN_RANDOM_ROUNDS:
        for _ in range(10):
            n += 1
            set_cfg(rng.choice(all_cfgs() + form_cfgs() * 2) if rng.random() < 0.4 else None)
            rec.count('random.configured' if CFG[0] else 'random.default_handlers')
            # --- JSON round trip through falcon's serializer, all four stack pairs
            doc = gen_top_doc(rng)
            ct = rng.choice(JSON_CTS)
            bodies = roundtrip(rec, 'json', doc, ct, rng, tag='random')
            rec.count('depth.%d' % min(M.doc_depth(doc), 6))
            if n <= 2:
                rec.sample({'doc': M.ref_json_dump(doc).decode('utf-8')[:200], 'ct': ct})
            # --- the same document written by an independent serializer (legal style variants)
            alt = M.ref_json_dump(doc, rng)
            for stack in 'wa':
                ok, _ = run_request(rec, stack, 'json', ct, 'designated', alt, gen_history(rng), rng.random() < 0.3,
                                    gen_chunks(rng, len(alt)) if stack == 'a' else None, rng.random() < 0.5,
                                    rng.randrange(4), tag='alt-style')
                rec.count('mon.alt_style_json')
            # --- hostile: mutations of a valid body
            base = bodies.get('w', (None, alt))[1] if rng.random() < 0.5 else alt
            if len(base) < 3000:
                for _ in range(3):
                    bad = mutate(rng, base)
                    stack = rng.choice('wa')
                    hct = rng.choice(JSON_CTS + EITHER_CTS[:2])
                    run_request(rec, stack, 'json', hct, ct_class_of(hct, 'json'), bad, gen_history(rng),
                                rng.random() < 0.6, gen_chunks(rng, len(bad)) if stack == 'a' else None,
                                rng.random() < 0.5, rng.randrange(4), tag='mutated')
                    rec.count('mon.mutated_json')
            # --- forms
            f = admissible_form(gen_form(rng))
            fct = rng.choice(FORM_CTS)
            fb = roundtrip(rec, 'form', f, fct, rng, tag='random')
            falt = M.ref_form_dump(f, rng)
            for stack in 'wa':
                run_request(rec, stack, 'form', fct, 'designated', falt, gen_history(rng), False,
                            gen_chunks(rng, len(falt)) if stack == 'a' else None, rng.random() < 0.5,
                            rng.randrange(4), tag='alt-style')
                rec.count('mon.alt_style_form')
            fbase = fb.get('a', (None, falt))[1]
            bad = mutate(rng, fbase)
            stack = rng.choice('wa')
            run_request(rec, stack, 'form', fct, 'designated', bad, gen_history(rng), rng.random() < 0.6,
                        gen_chunks(rng, len(bad)) if stack == 'a' else None, rng.random() < 0.5, rng.randrange(4),
                        tag='mutated')
            rec.count('mon.mutated_form')
            # --- first parse attempt fails with a non-HTTP exception (random body, history, fault position)
            stack = rng.choice('wa')
            fb_body = alt if 3 <= len(alt) <= 2000 else b'{"a": [1, 2, 3]}'
            if rng.random() < 0.5:
                fct = rng.choice([JSON, None, FORM, VND])
                if stack == 'w':
                    run_faulty(rec, 'w', fct, fb_body, gen_history(rng) + [rng.choice(CODES)], {'io_fail_at': 0},
                               tag='random')
                else:
                    nchunks = rng.randint(2, min(6, len(fb_body)))
                    size = -(-len(fb_body) // nchunks)
                    chunks = [size] * nchunks
                    carrying = -(-len(fb_body) // size)      # events that carry data (>= 2 since size < len)
                    run_faulty(rec, 'a', fct, fb_body, gen_history(rng) + [rng.choice(CODES)],
                               {'io_fail_at': rng.randint(1, carrying - 1)}, chunks, rng.random() < 0.5,
                               tag='random')
            else:
                plan = {'exc': rng.choice(sorted(EXC_FACTORIES)), 'when': rng.choice(['before-read', 'after-read']),
                        'succeed_second': rng.random() < 0.5}
                run_faulty(rec, stack, rng.choice([FAULTY_SYNC, FAULTY_ASYNC]), fb_body,
                           gen_history(rng) + [rng.choice(CODES)], {'hplan': plan},
                           gen_chunks(rng, len(fb_body)) if stack == 'a' else None, rng.random() < 0.5, tag='random')
            # --- empty bodies in every disguise
            stack = rng.choice('wa')
            ect = rng.choice(JSON_CTS)
            run_request(rec, stack, 'json', ect, 'designated', b'', gen_history(rng), rng.random() < 0.5,
                        rng.choice([None, [0], [0, 0, 0]]) if stack == 'a' else None, rng.random() < 0.5,
                        rng.randrange(4), tag='empty')
            rec.count('mon.empty_json')
        set_cfg(None)


def run(rec):
    rec.rule = ('a case is one request whose get_media()/media call history was judged by the history model, or one '
                'document round trip (serialize on each stack, deserialize on each stack); non-trivial = request body '
                'non-empty or >= 2 calls in the history; distinct by (stack, content type, body, history, chunking) '
                'resp. (document, content type)')
    rec.assumptions = [
        'reference readers/serializers in vlib/models/media_c12.py are correct (RFC 8259, WHATWG urlencoded)',
        'JSON documents: str keys, list/dict containers, no NaN/Infinity, no lone surrogates, top level not None '
        '(resp.media = None means "no media")',
        'form mappings: non-empty str keys, values str or lists of >= 2 str',
        'WSGI server hands out a wsgi.input whose read(n) returns n bytes unless EOF (short reads belong to C07)',
        'content types outside the designated set may answer 415; that is accepted, 5xx is not',
    ]
    quick = rec.tier == 'quick'
    apps()
    phase_corpus(rec)
    phase_reassign(rec)
    phase_faulty(rec, 2 if quick else 4)
    phase_handler_config(rec)
    phase_form_options(rec)
    phase_repeated_bodies(rec)
    phase_framing(rec, 2 if quick else 3)
    phase_drain(rec, 2 if quick else 3)
    phase_error_content(rec)
    phase_interrupted(rec, quick)
    phase_histories(rec, 3 if quick else 5)
    phase_truncations(rec, quick)
    phase_chunkings(rec, quick)
    phase_hostile(rec)
    if rec.shard == 0:
        rec.note('exhaustive: all call histories of length <= %d over 4 call kinds x 14 body classes x 2 stacks x '
                 'propagate; every prefix of 12 seed bodies; all 2^(n-1) chunkings of a %s-byte JSON body and a form '
                 'body, with and without Content-Length' % (3 if quick else 5, '11' if quick else '16'))
    rec.exhaustive = True
    phase_random(rec)
    for k, v in DIAG.items():
        if v:
            rec.count('diag.' + k, v)
            rec.note('diagnostic (not part of the verdict): %s seen %d times in shard %d' % (k, v, rec.shard))
    if rec.counters.get('harness.stall_not_reached'):
        rec.mark_inconclusive('planned interruption was not reached in %d requests' % rec.counters['harness.stall_not_reached'])
    if rec.counters.get('harness.fault_not_injected'):
        rec.mark_inconclusive('planned fault was not injected in %d requests' % rec.counters['harness.fault_not_injected'])
    if rec.counters.get('model.disagrees_with_body'):
        rec.mark_inconclusive('reference reader disagrees with a serialized body %d times: model needs triage'
                              % rec.counters['model.disagrees_with_body'])
    for k in ('ww', 'wa', 'aw', 'aa'):
        rec.floor('mon.roundtrip.json.' + k, 200)
        rec.floor('mon.roundtrip.form.' + k, 100)
    rec.floor('mon.history_step', 5000)
    rec.floor('mon.repeat_call.value', 500)
    rec.floor('mon.repeat_call.error', 500)
    rec.floor('mon.default_returned', 100)
    rec.floor('mon.error_class', 500)
    rec.floor('wire.error_propagated', 200)
    rec.floor('out.value', 500)
    rec.floor('out.notfound', 100)
    rec.floor('out.malformed', 300)
    rec.floor('out.unsupported', 50)
    rec.floor('out.lenient_class', 5)
    rec.floor('asgi.multi_chunk', 300)
    rec.floor('asgi.no_cl', 200)
    rec.floor('asgi.with_cl', 200)
    rec.floor('phase.histories', 1000)
    rec.floor('phase.truncations', 300)
    rec.floor('phase.chunkings', 500)
    rec.floor('phase.hostile', 300)
    rec.floor('class.deep_nesting', 8)
    rec.floor('class.huge_number', 6)
    rec.floor('mon.alt_style_json', 80)
    rec.floor('mon.mutated_json', 80)
    rec.floor('depth.6', 3)
    rec.floor('mon.reassigned_after_render', 50)
    rec.floor('mon.render_body_sent', 50)
    rec.floor('mon.same_object_reassigned.responder', 60)
    rec.floor('mon.same_object_reassigned.middleware', 60)
    rec.floor('mon.same_object.dict', 40)
    rec.floor('mon.same_object.list', 40)
    rec.floor('phase.reassign', 100)
    rec.floor('phase.faulty', 1500)
    rec.floor('phase.config', 1200)
    rec.floor('phase.config_requests', 500)
    for name in DUMPS:
        rec.floor('config.dumps.' + name, 150)
    for name in LOADS:
        rec.floor('config.loads.' + name, 300)
    for name in ('stock', 'sub'):
        rec.floor('config.class.' + name, 500)
        rec.floor('config.form.' + name, 10)
    rec.floor('random.configured', 12)
    for name in TYPES:
        rec.floor('config.types.' + name, 400)
    rec.floor('phase.form_options', 1500)
    for name in FORM_OPTS:
        if name != 'default':
            rec.floor('formopt.' + name, 500)
            rec.floor('formopt.comma_in_later_value.' + name, 200)
    rec.floor('phase.repeated_bodies', 2500)
    rec.floor('config.lengthaware.json', 60)
    rec.floor('config.lengthaware.requests', 30)
    rec.floor('config.lengthaware.form', 20)
    rec.floor('phase.drain', 500)
    rec.floor('drain.fault', 200)
    rec.floor('drain.clean', 200)
    rec.floor('mon.drain.w', 200)
    rec.floor('mon.drain.a', 300)
    rec.floor('mon.drain.repeat_call.value', 300)
    rec.floor('mon.error_content', 20000)
    rec.floor('mon.error_on_wire', 3000)
    rec.floor('phase.error_content', 800)
    rec.floor('mon.error_answers_compared', 15)
    rec.floor('phase.framing', 3000)
    rec.floor('mon.framing.w', 1500)
    rec.floor('mon.framing.a', 1500)
    rec.floor('mon.framing.repeat_call.error', 1000)
    rec.floor('mon.framing.repeat_call.value', 500)
    rec.floor('framing.first_HTTPInvalidHeader', 500)
    rec.floor('mon.media_mutated_after_use', 20000)
    rec.floor('config.override.json', 80)
    rec.floor('config.override.form', 25)
    rec.floor('mon.render_taken_over', 100)
    rec.floor('phase.interrupted', 3000)
    rec.floor('mon.retry_after_interruption', 3000)
    rec.floor('interrupted.cancel', 1000)
    rec.floor('interrupted.deadline', 1000)
    rec.floor('interrupted.2_times', 500)
    rec.floor('interrupted.after_consuming_wire_chunks', 1500)
    rec.floor('mon.faulty.io.w', 40)
    rec.floor('mon.faulty.io.a', 200)
    rec.floor('mon.faulty.handler.w', 600)
    rec.floor('mon.faulty.handler.a', 600)
    rec.floor('mon.faulty.sync_handler', 600)
    rec.floor('mon.faulty.async_handler', 600)
    rec.floor('mon.faulty.succeed_second', 600)
    rec.floor('mon.faulty.repeat_call', 1500)
    for name in EXC_FACTORIES:
        rec.floor('mon.faulty.exc.' + name, 150)


# ------------------------------------------------------------------ replay

def replay(rec, w):
    wit = w['witness']
    set_cfg(wit.get('cfg'))
    apps()
    if wit.get('mode') == 'roundtrip':
        kind = wit.get('kind', 'json')
        raw = bytes.fromhex(wit['doc_hex'])
        doc = M.ref_json_parse(raw)[1] if kind == 'json' else M.ref_form_parse(raw)[1]
        if kind == 'form' and CFG[0] and CFG[0][2] == 'override':
            doc = {k: (v if isinstance(v, list) else [v]) for k, v in doc.items()}
        import random
        rng = random.Random(0)
        roundtrip(rec, kind, doc, wit.get('ct'), None, wit.get('ser', 'wa'), wit.get('de', 'wa'), tag='replay',
                  pre=int(wit.get('pre') or 0))
        roundtrip(rec, kind, doc, wit.get('ct'), rng, wit.get('ser', 'wa'), wit.get('de', 'wa'), tag='replay',
                  pre=int(wit.get('pre') or 0))
        if 'history' in wit:
            st, rct, body, _ = serialize(wit['ser'], doc, wit.get('ct'), int(wit.get('pre') or 0))
            log, status, problems = deserialize(wit['de'], rct, body, list(wit['history']), False, wit.get('chunks'),
                                                wit.get('with_cl', True), wit.get('style', 0),
                                                bytes.fromhex(wit.get('trailing_hex', '')))
            print('replayed:', status, problems, describe(log))
            model = M.MediaModel(('value', lambda v: (M.same_doc if kind == 'json' else M.same_form)(doc, v)))
            for op, default, k, payload, touched in log:
                for label, complaint in model.step(op, default, k, payload, touched):
                    rec.violation('roundtrip-' + label, dict(wit, detail=complaint))
        rec.case(('replay', 1))
        rec.case(('replay', 2))
        return
    if wit.get('mode') == 'error-content':
        rec.nshards, rec.shard = 1, 0
        phase_error_content(rec)
        return
    if wit.get('mode') == 'settled':
        tail = wit['body_len'] - 4 - len(PREFIX_JSON)
        ok = run_settled(rec, wit['stack'], wit['ct'], prefix_body(tail), list(wit['history']), wit.get('fault'),
                         wit.get('chunks'), wit.get('with_cl', True), tag='replay')
        print('replayed:', 'no monitor fired' if ok else 'monitor fired')
        rec.case(('replay', 1))
        rec.case(('replay', 2))
        return
    if wit.get('mode') == 'consistent':
        ok = run_consistent(rec, wit['stack'], wit['ct'], bytes.fromhex(wit['body_hex']), list(wit['history']),
                            wit['cl_header'], wit.get('chunks'), tag='replay')
        print('replayed:', 'no monitor fired' if ok else 'monitor fired')
        rec.case(('replay', 1))
        rec.case(('replay', 2))
        return
    if wit.get('mode') == 'faulty':
        ok = run_faulty(rec, wit['stack'], wit['ct'], bytes.fromhex(wit['body_hex']), list(wit['history']),
                        wit['fault'], wit.get('chunks'), wit.get('with_cl', True), tag='replay')
        print('replayed:', 'no monitor fired' if ok else 'monitor fired')
        rec.case(('replay', 1))
        rec.case(('replay', 2))
        return
    if wit.get('body_hex') is not None:
        body = bytes.fromhex(wit['body_hex'])
    else:
        table = dict(hostile_bodies() + form_hostile_bodies())
        body = table[wit['tag'].split(':', 1)[1]]
        CUR_GEN['desc'] = wit['tag'].split(':', 1)[1]
    for _ in range(2):      # twice: the in-run decision may depend on an identical earlier request
        ok, log = run_request(rec, wit['stack'], wit['kind'], wit['ct'], wit['ct_class'], body, list(wit['history']),
                              wit['propagate'], wit['chunks'], wit['with_cl'], wit.get('style', 0),
                              bytes.fromhex(wit.get('trailing_hex', '')), tag=wit.get('tag', 'replay'),
                              fault=wit.get('fault'))
        if not ok:
            break
    print('replayed:', 'no monitor fired' if ok else 'monitor fired', describe(log))
    rec.case(('replay', 1))
    rec.case(('replay', 2))
