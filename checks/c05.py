"""C05 - responses are protocol-valid and length-consistent on both server interfaces; a response
stream whose streaming has begun is closed exactly once.  DESIGN.md section 4, C05.

Every generated *recipe* (status x method x body sources x preset Content-Length/Content-Type x
cookies/headers x response class x way of filling in x fault point) is applied to a fresh response
by a responder / middleware / sink of a REAL falcon.App or falcon.asgi.App behind the independent
server drivers of vlib/drivers (PEP 3333 monitor, ASGI HTTP monitor).  Next to it the reference
model of vlib/models/c05_response.py says what the server must have received:

* protocol monitors: exactly one start_response / http.response.start, valid status line, native
  str header pairs (bytes pairs, lower-case names on ASGI), bytes chunks, only the last body event
  with more_body false, nothing afterwards;
* body == body of the documented winner text > data > media > stream (media compared as parsed JSON,
  SSE bodies through an event-stream parser), empty for HEAD and 100/101/204/304;
* Content-Length == bytes sent for non-HEAD, body-bearing, non-streamed responses;
* no framework-supplied Content-Type on 204/304, a Content-Type everywhere else;
* fault enumeration: for every streamed response every index at which the stream raises and every
  index at which the server's write/send fails; close() count == 1 on every stream object that has
  close() and whose first read/next was observed.
"""

import asyncio
import copy
import collections
import types
import datetime
import io
import itertools
import os
import traceback

import falcon
import falcon.asgi

from vlib.drivers import asgi as A
from vlib.drivers import wsgi as W
from vlib.models import c05_response as M

LEVEL = 'fault_enumeration'
SHARDS = {'quick': 4, 'thorough': 16}
BUDGET = {'quick': 12, 'thorough': 120}

# proposed known_findings.json keys (narrow classifiers in classify())
K_WSGI_LINE = 'wsgi-bodiless-status-matched-by-full-line'
K_MEDIA_CT = 'typeless-status-media-sets-content-type'
K_STATUS_SUBCLASS = 'wsgi-str-subclass-status-line-passed-through'
K_INTENUM = 'asgi-intenum-status-passed-through'
K_FALSY_STREAM = 'asgi-falsy-stream-treated-as-absent'
MAX_EVENTS = 500      # a response of at most ~10 chunks never needs more; stops runaway streams


class StreamFault(Exception):
    """Injected: the application's stream raises at chunk k."""


# ====================================================================== stream objects

class Log:
    def __init__(self, kind):
        self.kind = kind
        self.begun = False
        self.reads = 0
        self.closes = 0
        self.has_close = False
        self.sizes = []


class _Cursor:
    """Shared chunk cursor: next_chunk(size) -> bytes | None(end); raises StreamFault at raise_at."""

    def __init__(self, log, chunks, raise_at):
        self.log, self.chunks, self.raise_at = log, list(chunks), raise_at
        self.i = 0
        self.rest = b''

    def next_chunk(self, size=None):
        self.log.begun = True
        self.log.reads += 1
        if self.rest:
            out, self.rest = self.rest[:size], self.rest[size:]
            return out
        i = self.i
        self.i += 1
        if self.raise_at is not None and i == self.raise_at:
            raise StreamFault('stream fault at chunk %d' % i)
        if i >= len(self.chunks):
            return None
        c = self.chunks[i]
        if size is not None and size >= 0 and len(c) > size:
            c, self.rest = c[:size], c[size:]
        return c


class SyncIter:
    def __init__(self, log, chunks, raise_at):
        self.log = log
        self.cur = _Cursor(log, chunks, raise_at)

    def __iter__(self):
        return self

    def __next__(self):
        c = self.cur.next_chunk()
        if c is None:
            raise StopIteration
        return c


class SyncIterClose(SyncIter):
    def __init__(self, log, chunks, raise_at):
        super().__init__(log, chunks, raise_at)
        log.has_close = True

    def close(self):
        self.log.closes += 1


class SyncIterable:
    """Iterable (not its own iterator) that owns the resource: close() is on the iterable."""

    def __init__(self, log, chunks, raise_at):
        self.log, self.chunks, self.raise_at = log, chunks, raise_at
        log.has_close = True

    def __iter__(self):
        return SyncIter(self.log, self.chunks, self.raise_at)

    def close(self):
        self.log.closes += 1


def sync_gen(log, chunks, raise_at):
    log.has_close = True        # generator.close() -> the finally block below is the observable cleanup
    cur = _Cursor(log, chunks, raise_at)

    def gen():
        try:
            while True:
                c = cur.next_chunk()
                if c is None:
                    return
                yield c
        finally:
            log.closes += 1
    return gen()


class SyncFileNoClose:
    def __init__(self, log, chunks, raise_at):
        self.log = log
        self.cur = _Cursor(log, chunks, raise_at)

    def read(self, size=-1):
        self.log.sizes.append(size)
        if size is None or size < 0:
            out = []
            while True:
                c = self.cur.next_chunk()
                if c is None:
                    return b''.join(out)
                out.append(c)
        while True:
            c = self.cur.next_chunk(size)
            if c is None:
                return b''
            if c:                       # a file never answers b'' before EOF
                return c


class SyncFile(SyncFileNoClose):
    def __init__(self, log, chunks, raise_at):
        super().__init__(log, chunks, raise_at)
        log.has_close = True

    def close(self):
        self.log.closes += 1


class CountingBytesIO(io.BytesIO):
    """A real io.BytesIO (read + __iter__ + close) that reports to the log."""

    def __init__(self, log, chunks, raise_at):
        super().__init__(b''.join(chunks))
        self._log = log
        self._raise_after = None if raise_at is None or raise_at > len(chunks) else len(b''.join(chunks[:raise_at]))
        log.has_close = True

    def read(self, size=-1):
        self._log.begun = True
        self._log.reads += 1
        self._log.sizes.append(size)
        if self._raise_after is not None:
            pos = self.tell()
            if pos >= self._raise_after:
                raise StreamFault('stream fault at offset %d' % pos)
            if size is None or size < 0 or pos + size > self._raise_after:
                size = self._raise_after - pos
        return super().read(size)

    def close(self):
        self._log.closes += 1
        super().close()


def async_gen(log, chunks, raise_at, yieldy):
    cur = _Cursor(log, chunks, raise_at)

    async def gen():
        while True:
            if yieldy:
                await asyncio.sleep(0)
            c = cur.next_chunk()
            if c is None:
                return
            yield c
    return gen()


class AsyncIter:
    END_NONE = True

    def __init__(self, log, chunks, raise_at, yieldy):
        self.log = log
        self.cur = _Cursor(log, chunks, raise_at)
        self.yieldy = yieldy

    def __aiter__(self):
        return self

    async def __anext__(self):
        if self.yieldy:
            await asyncio.sleep(0)
        c = self.cur.next_chunk()
        if c is None:
            if self.END_NONE:
                return None         # documented way for an async iterator to end the body
            raise StopAsyncIteration
        return c


class AsyncIterStop(AsyncIter):
    END_NONE = False


class AsyncIterClose(AsyncIter):
    def __init__(self, log, chunks, raise_at, yieldy):
        super().__init__(log, chunks, raise_at, yieldy)
        log.has_close = True

    async def close(self):
        if self.yieldy:
            await asyncio.sleep(0)
        self.log.closes += 1


class AsyncIterCloseAclose(AsyncIterClose):
    """Offers both spellings, aclose() being the usual alias of close()."""

    async def aclose(self):
        await self.close()

    async def __aenter__(self):
        return self

    async def __aexit__(self, *exc):
        await self.close()


class AsyncIterableClose:
    """Async iterable (not its own iterator) that owns the resource: close()/aclose() are on the iterable."""

    def __init__(self, log, chunks, raise_at, yieldy):
        self.log, self.chunks, self.raise_at, self.yieldy = log, chunks, raise_at, yieldy
        log.has_close = True

    def __aiter__(self):
        return AsyncIterStop(self.log, self.chunks, self.raise_at, self.yieldy)

    async def close(self):
        self.log.closes += 1

    async def aclose(self):
        await self.close()


class SyncIterCloseExit(SyncIterClose):
    """close() plus the context-manager spelling of the same clean-up."""

    def __enter__(self):
        return self

    def __exit__(self, *exc):
        self.close()


class AsyncFileNoClose:
    """none_reads: chunk indices before which one read() answers None ('no data available yet', as a
    non-blocking raw stream does - io.RawIOBase.read); index len(chunks) = just before EOF."""

    def __init__(self, log, chunks, raise_at, yieldy, none_reads=()):
        self.log = log
        self.cur = _Cursor(log, chunks, raise_at)
        self.yieldy = yieldy
        self.none_pending = set(none_reads or ())

    async def read(self, size=-1):
        if self.yieldy:
            await asyncio.sleep(0)
        self.log.sizes.append(size)
        if not self.cur.rest and self.cur.i in self.none_pending:
            self.none_pending.discard(self.cur.i)
            self.log.begun = True
            self.log.reads += 1
            self.log.none_reads = getattr(self.log, 'none_reads', 0) + 1
            return None
        while True:
            c = self.cur.next_chunk(size if size is not None and size >= 0 else None)
            if c is None:
                return b''
            if c:
                return c


class AsyncFile(AsyncFileNoClose):
    def __init__(self, log, chunks, raise_at, yieldy, none_reads=()):
        super().__init__(log, chunks, raise_at, yieldy, none_reads)
        log.has_close = True

    async def close(self):
        if self.yieldy:
            await asyncio.sleep(0)
        self.log.closes += 1


class AsyncFileCloseAclose(AsyncFile):
    async def aclose(self):
        await self.close()

    async def __aexit__(self, *exc):
        await self.close()


class SyncFileCloseExit(SyncFile):
    def __enter__(self):
        return self

    def __exit__(self, *exc):
        self.close()


WSGI_KINDS = ['list', 'gen', 'iter', 'iter_close', 'iterable_close', 'file', 'file_noclose', 'bytesio',
              'iter_close_exit', 'file_close_exit']
ASGI_KINDS = ['agen', 'aiter_none', 'aiter_stop', 'aiter_close', 'afile', 'afile_noclose',
              'aiter_close_aclose', 'aiterable_close_aclose', 'afile_close_aclose']
FILE_KINDS = frozenset(['file', 'file_noclose', 'bytesio', 'afile', 'afile_noclose', 'file_close_exit',
                        'afile_close_aclose'])
CAN_RAISE = frozenset(WSGI_KINDS + ASGI_KINDS) - {'list'}
HAS_CLOSE = frozenset(['gen', 'iter_close', 'iterable_close', 'file', 'bytesio', 'aiter_close', 'afile',
                       'iter_close_exit', 'file_close_exit', 'aiter_close_aclose', 'aiterable_close_aclose',
                       'afile_close_aclose'])


FALSY_MODES = ['len0', 'boolfalse']
# stream objects implemented as classes here can be made falsy-but-not-None (a lazily filled buffer / queue class
# with __len__ or __bool__); generators, lists and the real BytesIO cannot
FALSY_KINDS = ['iter', 'iter_close', 'iterable_close', 'file', 'file_noclose', 'iter_close_exit', 'file_close_exit',
               'aiter_none', 'aiter_stop', 'aiter_close', 'afile', 'afile_noclose', 'aiter_close_aclose',
               'aiterable_close_aclose', 'afile_close_aclose']


def make_stream(st, log):
    obj = _make_stream(st, log)
    mode = st.get('falsy')
    if mode:
        cls = type(obj)
        ns = {'__len__': lambda self: 0} if mode == 'len0' else {'__bool__': lambda self: False}
        obj.__class__ = type('Falsy' + cls.__name__, (cls,), ns)
        assert not obj and obj is not None
    return obj


def _make_stream(st, log):
    kind, chunks, raise_at = st['kind'], st['chunks'], st.get('raise_at')
    y = bool(st.get('yieldy'))
    if kind == 'list':
        return list(chunks)
    if kind == 'gen':
        return sync_gen(log, chunks, raise_at)
    if kind == 'iter':
        return SyncIter(log, chunks, raise_at)
    if kind == 'iter_close':
        return SyncIterClose(log, chunks, raise_at)
    if kind == 'iterable_close':
        return SyncIterable(log, chunks, raise_at)
    if kind == 'file':
        return SyncFile(log, chunks, raise_at)
    if kind == 'file_noclose':
        return SyncFileNoClose(log, chunks, raise_at)
    if kind == 'bytesio':
        return CountingBytesIO(log, chunks, raise_at)
    if kind == 'agen':
        return async_gen(log, chunks, raise_at, y)
    if kind == 'aiter_none':
        return AsyncIter(log, chunks, raise_at, y)
    if kind == 'aiter_stop':
        return AsyncIterStop(log, chunks, raise_at, y)
    if kind == 'aiter_close':
        return AsyncIterClose(log, chunks, raise_at, y)
    if kind == 'aiter_close_aclose':
        return AsyncIterCloseAclose(log, chunks, raise_at, y)
    if kind == 'aiterable_close_aclose':
        return AsyncIterableClose(log, chunks, raise_at, y)
    if kind == 'afile_close_aclose':
        return AsyncFileCloseAclose(log, chunks, raise_at, y, st.get('none_reads'))
    if kind == 'iter_close_exit':
        return SyncIterCloseExit(log, chunks, raise_at)
    if kind == 'file_close_exit':
        return SyncFileCloseExit(log, chunks, raise_at)
    if kind == 'afile':
        return AsyncFile(log, chunks, raise_at, y, st.get('none_reads'))
    if kind == 'afile_noclose':
        return AsyncFileNoClose(log, chunks, raise_at, y, st.get('none_reads'))
    raise ValueError(kind)


def make_emitter(sse, log):
    from falcon.asgi import SSEvent
    events, raise_at = sse['events'], sse.get('raise_at')

    def build(ev):
        if ev is None:
            return None
        return SSEvent(**ev)

    objs = [build(e) for e in events]
    state = {'i': 0}

    def step():
        log.begun = True
        i = state['i']
        state['i'] += 1
        if raise_at is not None and i == raise_at:
            raise StreamFault('emitter fault at event %d' % i)
        if i >= len(objs):
            return False, None
        return True, objs[i]

    if sse['kind'] == 'agen':
        async def gen():
            while True:
                if sse.get('yieldy'):
                    await asyncio.sleep(0)
                more, ev = step()
                if not more:
                    return
                yield ev
        return gen()

    class Emitter:
        def __aiter__(self):
            return self

        async def __anext__(self):
            if sse.get('yieldy'):
                await asyncio.sleep(0)
            more, ev = step()
            if not more:
                raise StopAsyncIteration
            return ev
    return Emitter()


# ====================================================================== filling in a response

DT = datetime.datetime(2024, 2, 29, 23, 59, 58)
DT_AWARE = datetime.datetime(2031, 1, 1, 0, 0, 1, tzinfo=datetime.timezone(datetime.timedelta(hours=-7)))

class StrSub(str):
    """A str subclass: the server must still get a *native* str (PEP 3333: type(v) is str)."""


class StrSubOdd(str):
    """A str subclass whose __str__/__format__/__repr__ differ from its value."""

    def __str__(self):
        return 'via-__str__:' + str.__str__(self)

    def __format__(self, spec):
        return 'via-__format__'

    def __repr__(self):
        return 'via-__repr__'


class LazyText:
    """A lazy (translation-style) string: not a str, offers encode() and __str__ like one."""

    def __init__(self, value):
        self._value = value

    def __str__(self):
        return self._value

    def encode(self, encoding='utf-8', errors='strict'):
        return self._value.encode(encoding, errors)

    def __len__(self):
        return len(self._value)


TEXT_AS = ['strsub', 'strsub_odd', 'userstring', 'lazy', 'bytes']


def text_object(value, text_as):
    """resp.text accepts str, and by EAFP on .encode() every string-like object; bytes pass through."""
    if text_as is None:
        return value
    if text_as == 'strsub':
        return StrSub(value)
    if text_as == 'strsub_odd':
        return StrSubOdd(value)
    if text_as == 'userstring':
        return collections.UserString(value)
    if text_as == 'lazy':
        return LazyText(value)
    if text_as == 'bytes':
        return value.encode('utf-8')
    raise ValueError(text_as)


class Stringable:
    def __init__(self, text):
        self.text = text

    def __str__(self):
        return self.text


# non-str header values: falcon documents/implements str(value) for every header-setting method.
# name -> (callable(resp), {lower-case header name: exact value str(value) the server must get})
NONSTR_OPS = {
    'append_first_int': (lambda r: r.append_header('X-Count', 5), {'x-count': '5'}),
    'append_first_float': (lambda r: r.append_header('X-Ratio', 2.5), {'x-ratio': '2.5'}),
    'append_first_strsub': (lambda r: r.append_header('X-Sub', StrSub('sub-v')), {'x-sub': 'sub-v'}),
    'append_first_obj': (lambda r: r.append_header('X-Obj', Stringable('obj-v')), {'x-obj': 'obj-v'}),
    'append_first_bool': (lambda r: r.append_header('X-Flag', True), {'x-flag': 'True'}),
    'append_second_int': (lambda r: (r.append_header('X-App', 'a'), r.append_header('x-app', 7)), {'x-app': 'a, 7'}),
    'append_both_nonstr': (lambda r: (r.append_header('X-Nums', 1), r.append_header('X-NUMS', 2.5),
                                      r.append_header('x-nums', Stringable('three'))), {'x-nums': '1, 2.5, three'}),
    'append_after_set_int': (lambda r: (r.set_header('X-Mix', 10), r.append_header('X-Mix', 11)), {'x-mix': '10, 11'}),
    'set_float': (lambda r: r.set_header('X-F', 0.125), {'x-f': '0.125'}),
    'set_strsub': (lambda r: r.set_header('X-SS', StrSub('ss')), {'x-ss': 'ss'}),
    'set_obj': (lambda r: r.set_header('X-SO', Stringable('so v')), {'x-so': 'so v'}),
    'set_headers_dict_nonstr': (lambda r: r.set_headers({'X-D1': 1, 'X-D2': 2.5, 'X-D3': StrSub('d3'),
                                                         'X-D4': Stringable('d4')}),
                                {'x-d1': '1', 'x-d2': '2.5', 'x-d3': 'd3', 'x-d4': 'd4'}),
    'set_headers_pairs_nonstr': (lambda r: r.set_headers([('X-P1', 1), ('X-P2', Stringable('p2')), ['X-P3', StrSub('p3')],
                                                          ('X-P4', -0.5)]),
                                 {'x-p1': '1', 'x-p2': 'p2', 'x-p3': 'p3', 'x-p4': '-0.5'}),
    'raw_cookie_strsub': (lambda r: r.append_header('Set-Cookie', StrSub('rs=1; Path=/')), {'set-cookie': 'rs=1; Path=/'}),
    'prop_int': (lambda r: setattr(r, 'retry_after', 120), {'retry-after': '120'}),
}

def _snap(mutate):
    """The app reads resp.headers (documented: a NEW COPY on every access) and does what it likes with it."""
    def op(r):
        r.set_header('X-Keep', 'kept')
        r.set_headers({'X-Keep2': 'k2'})
        snap = r.headers
        mutate(snap)
    return op


def _snap_rekey(h):
    for k in list(h):
        h[k.title()] = h.pop(k)
    h['Content-Length'] = '99999'
    h['Content-Type'] = 'x-audit/copy'


def _then_mutate_dict(r):
    d = {'X-Arg': 'a1', 'X-Arg2': 'a2'}
    r.set_headers(d)
    d['X-Arg'] = 2.5
    d['X-Arg3'] = object()
    del d['X-Arg2']


def _then_mutate_list(r):
    pairs = [('X-Larg', 'l1'), ['X-Larg2', 'l2']]
    r.set_headers(pairs)
    pairs[1][1] = None
    pairs.append(('X-Larg3', 3))
    vary = ['Accept']
    r.vary = vary
    vary.append('X-Later')
    cc = ['no-store']
    r.cache_control = cc
    cc.clear()


SNAP_KEEP = {'x-keep': 'kept', 'x-keep2': 'k2'}
# argument objects used a second time / mutated after the call, snapshots mutated, one-shot iterables, Mappings.
# name -> (callable(resp), {lower-case header name: exact value, or None = must NOT be in the response})
NONSTR_OPS.update({
    'snap_add_float': (_snap(lambda h: h.update({'x-timing': 0.25, 'x-keep': 1})),
                       dict(SNAP_KEEP, **{'x-timing': None})),
    'snap_add_upper_nonlatin': (_snap(lambda h: h.update({'X-Upper': 'u', 'x-note': '\u043f\u0440\u0438\u0432\u0435\u0442',
                                                          'x-ctl': 'a\r\nInjected: 1'})),
                                dict(SNAP_KEEP, **{'x-upper': None, 'x-note': None, 'x-ctl': None, 'injected': None})),
    'snap_rekey': (_snap(_snap_rekey), dict(SNAP_KEEP)),
    'snap_clear': (_snap(lambda h: h.clear()), dict(SNAP_KEEP)),
    'snap_pop_each': (_snap(lambda h: [h.pop(k) for k in list(h)]), dict(SNAP_KEEP)),
    'snap_setdefault_none': (_snap(lambda h: (h.setdefault('x-none', None), h.setdefault('content-length', None),
                                              h.setdefault('content-type', None))), dict(SNAP_KEEP, **{'x-none': None})),
    'snap_twice': (_snap(lambda h: h.__setitem__('x-first', b'bytes')), dict(SNAP_KEEP, **{'x-first': None})),
    'arg_dict_mutated_after': (_then_mutate_dict, {'x-arg': 'a1', 'x-arg2': 'a2', 'x-arg3': None}),
    'arg_list_mutated_after': (_then_mutate_list, {'x-larg': 'l1', 'x-larg2': 'l2', 'x-larg3': None,
                                                   'vary': 'Accept', 'cache-control': 'no-store'}),
    'set_headers_generator': (lambda r: r.set_headers((k, v) for k, v in [('X-G1', 'g1'), ('X-G2', 2)]),
                              {'x-g1': 'g1', 'x-g2': '2'}),
    'set_headers_iterator_of_lists': (lambda r: r.set_headers(iter([['X-I1', 'i1'], ('X-I2', StrSubOdd('i2'))])),
                                      {'x-i1': 'i1', 'x-i2': 'via-__str__:i2'}),
    'set_headers_mappingproxy': (lambda r: r.set_headers(types.MappingProxyType({'X-M1': 'm1', 'X-M2': 0})),
                                 {'x-m1': 'm1', 'x-m2': '0'}),
    'set_headers_userdict': (lambda r: r.set_headers(collections.UserDict({'X-U1': 'u1'})), {'x-u1': 'u1'}),
    'set_headers_ordereddict': (lambda r: r.set_headers(collections.OrderedDict([('X-O1', 'o1'), ('x-o1', 'o2')])),
                                {'x-o1': 'o2'}),
    'vary_generator_cc_tuple': (lambda r: (setattr(r, 'vary', (v for v in ['Accept', 'X-V'])),
                                           setattr(r, 'cache_control', ('private', 'max-age=1'))),
                                {'vary': 'Accept, X-V', 'cache-control': 'private, max-age=1'}),
    'set_strsub_odd': (lambda r: r.set_header(StrSubOdd('X-Odd'), StrSubOdd('o')), {'x-odd': 'via-__str__:o'}),
    'append_strsub_odd': (lambda r: (r.append_header('X-Odd2', StrSubOdd('a')), r.append_header('X-Odd2', StrSubOdd('b'))),
                          {'x-odd2': 'via-__str__:a, via-__str__:b'}),
    'append_userstring': (lambda r: (r.append_header('X-US', collections.UserString('u1')),
                                     r.append_header('X-US', collections.UserString('u2'))), {'x-us': 'u1, u2'}),
    'set_lazy': (lambda r: r.set_header('X-Lazy', LazyText('lz')), {'x-lazy': 'lz'}),
})

# name -> (callable(resp), lower-case header names that must then be present)
HEADER_OPS = {
    'set_ascii': (lambda r: r.set_header('X-Trace', 'abc-123 ~!'), ['x-trace']),
    'set_latin1': (lambda r: r.set_header('X-Latin', 'caf\xe9 \xff'), ['x-latin']),
    'set_int': (lambda r: r.set_header('X-Num', 42), ['x-num']),
    'set_empty': (lambda r: r.set_header('X-Empty', ''), ['x-empty']),
    'set_tab': (lambda r: r.set_header('X-Tab', 'a\tb'), ['x-tab']),
    'append_twice': (lambda r: (r.append_header('X-Multi', 'one'), r.append_header('x-multi', 2)), ['x-multi']),
    'set_headers_dict': (lambda r: r.set_headers({'X-A': '1', 'X-B': 'two'}), ['x-a', 'x-b']),
    'set_headers_list': (lambda r: r.set_headers([('X-C', 'c'), ('x-c', 'C2')]), ['x-c']),
    'set_delete': (lambda r: (r.set_header('X-Gone', 'v'), r.delete_header('x-gone')), []),
    'etag': (lambda r: setattr(r, 'etag', 'abc'), ['etag']),
    'cache_control': (lambda r: setattr(r, 'cache_control', ['no-cache', 'max-age=3']), ['cache-control']),
    'last_modified': (lambda r: setattr(r, 'last_modified', DT), ['last-modified']),
    'expires': (lambda r: setattr(r, 'expires', DT_AWARE), ['expires']),
    'retry_after': (lambda r: setattr(r, 'retry_after', 30), ['retry-after']),
    'location': (lambda r: setattr(r, 'location', '/x/\xe9 y?q=€'), ['location']),
    'content_location': (lambda r: setattr(r, 'content_location', '/items/1'), ['content-location']),
    'vary': (lambda r: setattr(r, 'vary', ['Accept', 'X-K']), ['vary']),
    'accept_ranges': (lambda r: setattr(r, 'accept_ranges', 'bytes'), ['accept-ranges']),
    'content_range': (lambda r: setattr(r, 'content_range', (0, 9, 100)), ['content-range']),
    'downloadable_as': (lambda r: setattr(r, 'downloadable_as', 'r\xe9p\xf6rt €.txt'), ['content-disposition']),
    'viewable_as': (lambda r: setattr(r, 'viewable_as', 'a b.txt'), ['content-disposition']),
    # names the framework itself must turn into an ASCII/latin-1 header value (filename fallback + filename*)
    'download_cyrillic': (lambda r: setattr(r, 'downloadable_as', '\u043e\u0442\u0447\u0451\u0442.pdf'),
                          ['content-disposition']),
    'download_greek': (lambda r: setattr(r, 'downloadable_as', '\u03b1\u03c1\u03c7\u03b5\u03af\u03bf 1.txt'),
                       ['content-disposition']),
    'download_cjk': (lambda r: setattr(r, 'downloadable_as', '\u5831\u544a\u66f8.pdf'), ['content-disposition']),
    'download_mixed_digits': (lambda r: setattr(r, 'downloadable_as', 'report-\u03a9-\u0663\u0664_\u0967.txt'),
                              ['content-disposition']),
    'download_latin1_plain': (lambda r: setattr(r, 'downloadable_as', 'stra\xdfe-\xf8l-\xe6.txt'),
                              ['content-disposition']),
    'download_fullwidth': (lambda r: setattr(r, 'downloadable_as', '\uff46\uff55\uff4c\uff4c\uff11.txt'),
                           ['content-disposition']),
    'download_dotfile': (lambda r: setattr(r, 'downloadable_as', '.\u0441\u043a\u0440\u044b\u0442\u044b\u0439'),
                         ['content-disposition']),
    'download_emoji': (lambda r: setattr(r, 'downloadable_as', '\U0001F600 party.gif'), ['content-disposition']),
    'download_hebrew_arabic': (lambda r: setattr(r, 'downloadable_as', '\u05e9\u05dc\u05d5\u05dd-\u0633\u0644\u0627\u0645.doc'),
                               ['content-disposition']),
    'view_cyrillic': (lambda r: setattr(r, 'viewable_as', '\u0444\u043e\u0442\u043e 2.jpg'), ['content-disposition']),
    'view_cjk_kana': (lambda r: setattr(r, 'viewable_as', '\u3057\u3083\u3057\u3093\u30ab\u30e1\u30e9.png'),
                      ['content-disposition']),
    'view_mixed': (lambda r: setattr(r, 'viewable_as', 'a\u0142\u0131\u0111-\u0152uvre.txt'), ['content-disposition']),
    'location_nonlatin': (lambda r: (setattr(r, 'location', '/\u0444\u0430\u0439\u043b/\u5831?q=\u03a9'),
                                     setattr(r, 'content_location', '/\u05e9/\u0663')), ['location', 'content-location']),
    'link_title_star_nonlatin': (lambda r: r.append_link('/\u0434\u043e\u043a', 'next',
                                                         title_star=('ru', '\u0417\u0430\u0433\u043e\u043b\u043e\u0432\u043e\u043a \u5831'),
                                                         anchor='/\u03b1'), ['link']),
    'link': (lambda r: r.append_link('/things/1', 'next', title='T', hreflang=['en', 'de']), ['link']),
    'link2': (lambda r: (r.append_link('/a', 'prev'), r.append_link('/b?x=\xe9', 'last', title_star=('en', 'T\xeftle'))),
              ['link']),
}

# name -> (callable(resp), cookie names in the jar, number of raw Set-Cookie lines)
COOKIE_OPS = {
    'basic': (lambda r: r.set_cookie('sid', 'abc'), ['sid'], 0),
    'attrs': (lambda r: r.set_cookie('pref', 'v1', max_age=3600, domain='example.com', path='/a', secure=True,
                                     http_only=False, same_site='Strict', partitioned=True), ['pref'], 0),
    'expires': (lambda r: r.set_cookie('exp', 'x', expires=DT_AWARE, secure=False), ['exp'], 0),
    'unset': (lambda r: r.unset_cookie('old', domain='example.com', path='/'), ['old'], 0),
    'set_unset': (lambda r: (r.set_cookie('tmp', '1'), r.unset_cookie('tmp')), ['tmp'], 0),
    'set_twice': (lambda r: (r.set_cookie('dup', '1'), r.set_cookie('dup', '2', path='/p')), ['dup'], 0),
    'raw': (lambda r: r.append_header('Set-Cookie', 'raw=1; Path=/'), [], 1),
    'raw2': (lambda r: (r.append_header('set-cookie', 'r1=a'), r.append_header('SET-COOKIE', 'r2=b; HttpOnly')), [], 2),
}

CUR = {'r': None, 'obs': None}


class RenderBoom(Exception):
    """Injected: something the application plugged into body rendering raises."""


class Unserializable:
    pass


class BoomHandler(falcon.media.BaseHandler):
    """A media handler whose serialization fails (a plain exception or an HTTPError)."""

    def __init__(self, http):
        self.http = http

    def serialize(self, media, content_type):
        CUR['obs'].render_failed = True
        if self.http:
            raise falcon.HTTPServiceUnavailable(description='handler is down')
        raise RenderBoom('media handler failed')

    def deserialize(self, stream, content_type, content_length):
        raise RenderBoom('not used')


def boom_file_wrapper(filelike, blksize=8192):
    CUR['obs'].render_failed = True
    raise RenderBoom('wsgi.file_wrapper failed')


# failures at body-rendering time (after the responder returned); 'file_wrapper_raises' is WSGI only,
# 'render_body_raises' needs the response class that overrides render_body()
RENDER_FAILS = ['unserializable', 'unsupported_ct', 'handler_raises', 'handler_raises_http', 'render_body_raises',
                'file_wrapper_raises']


def apply_render_fail(resp, r, obs):
    cause = r['render_fail']
    if cause == 'unserializable':
        resp.media = {'x': Unserializable()}
    elif cause == 'unsupported_ct':
        resp.content_type = 'application/x-nope'
        resp.media = {'a': 1}
    elif cause == 'handler_raises':
        resp.content_type = 'application/x-boom'
        resp.media = {'a': 1}
    elif cause == 'handler_raises_http':
        resp.content_type = 'application/x-boom-http'
        resp.media = {'a': 1}
    elif cause == 'render_body_raises':
        resp.media = {'a': 1}
    elif cause == 'file_wrapper_raises':
        log = Log('file')
        obs.logs.append(log)
        resp.stream = SyncFile(log, [b'never sent'], None)
    else:
        raise ValueError(cause)


class Obs:
    def __init__(self):
        self.render_failed = False
        self.pre_rendered = []
        self.logs = []
        self.filled = 0
        self.renders = 0
        self.fill_exc = None


def fill(resp, r, obs):
    """Everything the application does to the response, in the recipe's order."""
    obs.filled += 1
    status = M.status_value(r['status'])
    if r.get('status_via') == 'code' and r['status'][0] == 'int':
        resp.status_code = status
    else:
        resp.status = status
    for name in r.get('headers', []):
        (HEADER_OPS.get(name) or NONSTR_OPS[name])[0](resp)
    for name in r.get('cookies', []):
        COOKIE_OPS[name][0](resp)
    ct = r.get('ct')
    if ct is not None:
        if ct[0] == 'prop':
            resp.content_type = ct[1]
        elif ct[0] == 'header':
            resp.set_header('Content-Type', ct[1])
        elif ct[0] == 'headers':
            resp.set_headers([('CONTENT-TYPE', ct[1])])
        elif ct[0] == 'none':
            resp.content_type = None
        elif ct[0] == 'set_then_none':
            resp.content_type = ct[1]
            resp.content_type = None
    cl = r.get('cl')
    if cl is not None:
        if cl[0] == 'prop':
            resp.content_length = cl[1]
        else:
            resp.set_header('Content-Length', cl[1])
    order = r.get('order') or ['text', 'data', 'media', 'stream', 'sse']
    for what in order:
        if what == 'text' and r.get('text') is not None:
            resp.text = text_object(r['text'], r.get('text_as'))
        elif what == 'data' and r.get('data') is not None:
            resp.data = r['data']
        elif what == 'media' and r.get('media', ['unset'])[0] == 'set':
            resp.media = r['media'][1]
        elif what == 'stream' and r.get('stream') is not None:
            st = r['stream']
            log = Log(st['kind'])
            obs.logs.append(log)
            obj = make_stream(st, log)
            if st.get('set_len') is not None:
                resp.set_stream(obj, st['set_len'])
            else:
                resp.stream = obj
        elif what == 'sse' and r.get('sse') is not None:
            log = Log('sse')
            obs.sse_log = log
            resp.sse = make_emitter(r['sse'], log)
    if r.get('render_fail'):
        apply_render_fail(resp, r, obs)
    if r.get('via', 'responder') != 'responder':
        run_late(resp)


def run_late(resp):
    """Operations after everything else was assigned (audit/logging code looking at the finished response);
    for a responder-filled response they run in process_response."""
    for name in CUR['r'].get('late') or []:
        NONSTR_OPS[name][0](resp)


def _guarded_fill(resp):
    r, obs = CUR['r'], CUR['obs']
    try:
        fill(resp, r, obs)
    except Exception as ex:  # noqa  (a harness/recipe error, never judged as falcon's)
        obs.fill_exc = ''.join(traceback.format_exception_only(type(ex), ex)).strip()
        raise


def _prerender_value():
    pre = CUR['r'].get('prerender')
    return None if pre is None else pre[0]


def _set_pre(resp, op):
    if op[0] == 'text':
        resp.text = op[1]
    elif op[0] == 'data':
        resp.data = op[1]
    elif op[0] == 'media':
        resp.media = copy.deepcopy(op[1])       # an object of the application's own (it may change it later)
    elif op[0] == 'media_mutate_reassign':
        obj = resp.media                        # the SAME object is updated in place and assigned again
        new = copy.deepcopy(op[1])
        if isinstance(obj, dict) and isinstance(new, dict):
            obj.clear()
            obj.update(new)
        elif isinstance(obj, list) and isinstance(new, list):
            obj[:] = new
        else:
            raise ValueError('media_mutate_reassign needs a dict/list of the same type, got %r -> %r' % (obj, new))
        resp.media = obj
    else:
        raise ValueError(op)


def run_pre_sync(resp):
    """Earlier steps of the filling-in history: assignments and calls of the public render_body()."""
    for op in CUR['r'].get('pre') or []:
        if op[0] == 'render':
            CUR['obs'].pre_rendered.append(resp.render_body())
        else:
            _set_pre(resp, op)


async def run_pre_async(resp):
    for op in CUR['r'].get('pre') or []:
        if op[0] == 'render':
            CUR['obs'].pre_rendered.append(await resp.render_body())
        else:
            _set_pre(resp, op)


class WResource:
    def on_get(self, req, resp):
        if CUR['r'].get('via', 'responder') != 'sink':
            run_pre_sync(resp)       # via == 'mw': the responder starts, process_response finishes
        if CUR['r'].get('via', 'responder') == 'responder':
            if CUR['r'].get('prerender') is not None:
                # the application looks at the rendered body (public API) and then changes its mind
                resp.media = _prerender_value()
                resp.render_body()
                resp.media = None
            _guarded_fill(resp)

    on_head = on_post = on_options = on_put = on_get


class AResource:
    async def on_get(self, req, resp):
        if CUR['r'].get('via', 'responder') != 'sink':
            await run_pre_async(resp)
        if CUR['r'].get('via', 'responder') == 'responder':
            if CUR['r'].get('prerender') is not None:
                resp.media = _prerender_value()
                await resp.render_body()
                resp.media = None
            _guarded_fill(resp)

    on_head = on_post = on_options = on_put = on_get


class WMiddleware:
    def process_response(self, req, resp, resource, req_succeeded):
        if CUR['r'].get('via') == 'mw':
            _guarded_fill(resp)
        elif CUR['r'].get('via', 'responder') == 'responder':
            run_late(resp)


class AMiddleware:
    async def process_response(self, req, resp, resource, req_succeeded):
        if CUR['r'].get('via') == 'mw':
            _guarded_fill(resp)
        elif CUR['r'].get('via', 'responder') == 'responder':
            run_late(resp)


def w_sink(req, resp, **kw):
    run_pre_sync(resp)
    _guarded_fill(resp)


async def a_sink(req, resp, **kw):
    await run_pre_async(resp)
    _guarded_fill(resp)


class WSub(falcon.Response):
    pass


class WSubRender(falcon.Response):
    def render_body(self):
        CUR['obs'].renders += 1
        if CUR['r'].get('render_fail') == 'render_body_raises':
            CUR['obs'].render_failed = True
            raise RenderBoom('render_body failed')
        return super().render_body()


class ASub(falcon.asgi.Response):
    pass


class ASubRender(falcon.asgi.Response):
    async def render_body(self):
        CUR['obs'].renders += 1
        await asyncio.sleep(0)
        if CUR['r'].get('render_fail') == 'render_body_raises':
            CUR['obs'].render_failed = True
            raise RenderBoom('render_body failed')
        return await super().render_body()


RESP_CLASSES = ['std', 'sub', 'sub_render']
APP_MEDIA_TYPES = [None, 'text/html; charset=utf-8']
_apps = {}


def get_app(stack, rc, mt):
    key = (stack, rc, mt)
    if key not in _apps:
        kw = {}
        if mt is not None:
            kw['media_type'] = mt
        if stack == 'wsgi':
            cls = {'std': None, 'sub': WSub, 'sub_render': WSubRender}[rc]
            app = falcon.App(middleware=[WMiddleware()], response_type=cls, **kw)
            app.add_route('/r', WResource())
            app.add_sink(w_sink, '/sink')
        else:
            cls = {'std': None, 'sub': ASub, 'sub_render': ASubRender}[rc]
            app = falcon.asgi.App(middleware=[AMiddleware()], response_type=cls, **kw)
            app.add_route('/r', AResource())
            app.add_sink(a_sink, '/sink')
        app.resp_options.media_handlers['application/x-boom'] = BoomHandler(False)
        app.resp_options.media_handlers['application/x-boom-http'] = BoomHandler(True)
        _apps[key] = app
    return _apps[key]


# ====================================================================== executing and judging one recipe

def summary(res, stack):
    out = {'status': getattr(res, 'status', None), 'problems': list(res.problems)[:6],
           'exc': repr(res.exc) if res.exc is not None else None}
    if stack == 'wsgi':
        out['status_line'] = res.status_line
        out['headers'] = [list(h) for h in res.headers][:30]
        out['nchunks'] = len(res.chunks)
        out['write_failed_at'] = res.write_failed_at
    else:
        out['headers'] = [[k.decode('latin-1') if isinstance(k, bytes) else repr(k),
                           v.decode('latin-1') if isinstance(v, bytes) else repr(v)] for k, v in res.headers][:30]
        out['outcome'] = res.outcome
        out['events'] = [(e.get('type'), len(e.get('body', b'') or b''), e.get('more_body')) if isinstance(e, dict)
                         else repr(e) for e in res.events][:12]
        out['send_failed_at'] = res.send_failed_at
    out['body_len'] = len(res.body)
    out['body_head'] = res.body[:120]
    return out


def classify(kind, r, problem=None, extra=None):
    """Narrow classifiers for defects recorded in known_findings.json."""
    code = M.status_code(r['status'])
    if (r['stack'] == 'asgi' and kind == 'body-mismatch' and (r.get('stream') or {}).get('falsy') and
            M.selected_source(r) == 'stream' and (extra or {}).get('got_len') == 0):
        # falcon/asgi/app.py tests the truth value of resp.stream (`if not stream:` / `if stream:`), WSGI tests
        # `is not None`: a stream object that is falsy (has __len__/__bool__) is silently not sent on ASGI
        return K_FALSY_STREAM
    if r['stack'] == 'wsgi' and r['status'][0] == 'strsub' and ' ' in r['status'][1]:
        # falcon/util/misc.py code_to_http_status returns a str that contains a space unchanged: an instance of a
        # str subclass reaches start_response as it is (wsgiref: AssertionError 'Status must be of type str')
        if (kind == 'protocol-wsgi' and str(problem).startswith('status is not a native str')) or kind == 'status-line':
            return K_STATUS_SUBCLASS
    if r['stack'] == 'asgi' and kind == 'protocol-asgi' and \
            str(problem).startswith('status is not an int in range: <IntEnumStatus.'):
        # falcon/util/misc.py http_status_to_code: `if isinstance(status, int): return status` hands a member of an
        # application IntEnum to the server as it is (http.HTTPStatus members are unwrapped with .value); the
        # lru_cache in front of it then answers the same member for every later equal status (int, HTTPStatus)
        return K_INTENUM
    custom_line = (r['stack'] == 'wsgi' and (r['status'][0] == 'line' or
                                             (r['status'][0] in ('bytes', 'strsub', 'strsub_odd', 'strenum') and
                                              ' ' in r['status'][1]))
                   and code in M.BODILESS and
                   r['status'][1] not in ('100 Continue', '101 Switching Protocols', '204 No Content',
                                          '304 Not Modified'))
    if custom_line and kind in ('body-on-bodiless', 'content-type-on-typeless'):
        # falcon/app.py:471,482 compare the whole status LINE with the canonical lines
        return K_WSGI_LINE
    app_ct = r.get('ct') is not None and r['ct'][0] in ('prop', 'header', 'headers')
    if (kind == 'content-type-on-typeless' and code in M.TYPELESS and not app_ct and
            ((r.get('text') is None and r.get('data') is None and
              r.get('media', ['unset'])[0] == 'set' and r['media'][1] is not None) or r.get('prerender') is not None
             or M.media_rendered_in_history(r))
            and not custom_line):
        # render_body() stores the default media type in resp.content_type while rendering media
        return K_MEDIA_CT
    return None


def _clear_status_caches():
    """falcon memoises status normalisation per *equal* status (functools.lru_cache): start every case from an
    empty cache so that a verdict depends on the recipe alone; earlier statuses are part of a recipe only through
    r['status_before'] (replayable)."""
    import falcon.util.misc as misc
    for fn in (misc.http_status_to_code, misc.code_to_http_status):
        clear = getattr(fn, 'cache_clear', None)
        if clear is not None:
            clear()


def _warm(stack, spec):
    """An earlier request of the same process that answered with status `spec` (result not judged here)."""
    warm = {'stack': stack, 'method': 'GET', 'status': spec, 'text': None, 'data': None, 'media': ['unset'],
            'stream': None, 'sse': None, 'ct': None, 'cl': None}
    CUR['r'], CUR['obs'] = warm, Obs()
    try:
        app = get_app(stack, 'std', None)
        if stack == 'wsgi':
            W.run_wsgi(app, W.make_environ('GET', '/r'))
        else:
            A.run_asgi_http(app, A.make_scope('GET', '/r'), max_events=MAX_EVENTS)
    finally:
        CUR['r'] = CUR['obs'] = None


def run_case(rec, r):
    """Execute one recipe behind the driver of its stack and evaluate every monitor."""
    stack = r['stack']
    _clear_status_caches()
    for spec in r.get('status_before') or []:
        _warm('asgi' if stack == 'wsgi' else 'wsgi', spec)
        _warm(stack, spec)
    obs = Obs()
    obs.sse_log = None
    CUR['r'], CUR['obs'] = r, obs
    app = get_app(stack, r.get('rc', 'std'), r.get('mt'))
    path = '/sink/x' if r.get('via') == 'sink' else '/r'
    body = b'{"in": 1}' if r['method'] in ('POST', 'PUT') else b''
    hdrs = [('Content-Type', 'application/json')] if body else []
    try:
        if stack == 'wsgi':
            env = W.make_environ(r['method'], path, headers=hdrs, body=body, file_wrapper=bool(r.get('fw')))
            if r.get('render_fail') == 'file_wrapper_raises':
                env['wsgi.file_wrapper'] = boom_file_wrapper
            res = W.run_wsgi(app, env, fail_write_at=r.get('fail_at'), max_chunks=MAX_EVENTS)
        else:
            scope = A.make_scope(r['method'], path, headers=hdrs)
            res = A.run_asgi_http(app, scope, events=A.body_events(body), fail_send_at=r.get('fail_at'),
                                  max_events=MAX_EVENTS, disconnect_after_sends=r.get('disconnect_after'))
    finally:
        CUR['r'] = CUR['obs'] = None
    if obs.fill_exc is not None or obs.filled != 1:
        raise RuntimeError('harness: recipe not applied exactly once (%r, filled=%d): %r' % (obs.fill_exc, obs.filled, r))
    if r.get('render_fail'):
        judge_render_fail(rec, r, res, obs)
    else:
        judge(rec, r, res, obs)
    return res, obs


def judge_render_fail(rec, r, res, obs):
    """Rendering the body failed after the application had filled in the response.

    Whatever falcon answers instead (the error body itself is C04's subject) must still be a protocol-valid,
    length-consistent response: the statement's rules are evaluated on what the server received.
    """
    stack = r['stack']
    wit = None

    def bad(kind, **extra):
        nonlocal wit
        if wit is None:
            wit = {'recipe': compact(r), 'got': summary(res, stack)}
        w = dict(wit)
        w.update(extra)
        rec.violation(kind, w)

    rec.count('mon.render_fail.protocol.' + stack)
    for p in res.problems:
        bad('protocol-' + stack, problem=p)
    if res.exc is not None:
        bad('app-raised', trace=''.join(traceback.format_exception(type(res.exc), res.exc, res.exc.__traceback__))[-1500:])
        return
    if stack == 'wsgi':
        if len(res.start_calls) != 1:
            bad('start-response-count', n=len(res.start_calls))
    else:
        starts = sum(1 for e in res.events if isinstance(e, dict) and e.get('type') == 'http.response.start')
        if starts != 1:
            bad('response-start-count', n=starts)
        if res.outcome != 'done' or not res.complete:
            bad('asgi-incomplete', outcome=res.outcome)
    code = res.status
    if code is None:
        return
    if r['method'] == 'HEAD' or code in M.BODILESS:
        rec.count('mon.render_fail.bodiless_empty')
        if res.body != b'':
            bad('body-on-bodiless')
    else:
        # the answer is not streamed (the stream, if any, was never handed to the server)
        rec.count('mon.render_fail.content_length_equals_body')
        cls = res.header_values('content-length')
        if cls != [str(len(res.body))]:
            bad('content-length', got=cls, want=str(len(res.body)))
    if code not in M.TYPELESS:
        rec.count('mon.render_fail.content_type_present')
        if not res.header_values('content-type'):
            bad('content-type-missing')
    for log in obs.logs:
        if log.has_close and log.begun and log.closes != 1:
            bad('stream-close-count', stream_kind=log.kind, closes=log.closes, reads=log.reads)
    if obs.render_failed or code >= 400:
        rec.count('render_fail.%s.%s.%s' % (stack, r['render_fail'], 'cl' if r.get('cl') else 'nocl'))
    else:
        rec.count('render_fail.not_triggered')


def judge(rec, r, res, obs):
    orig = r
    r = M.effective(r)          # earlier steps of the filling-in history folded in (keeps every other key)
    stack = r['stack']
    code = M.status_code(r['status'])
    src = M.selected_source(r)
    bodiless = M.is_bodiless(r)
    wit = None

    def bad(kind, **extra):
        nonlocal wit
        if wit is None:
            wit = {'recipe': compact(orig), 'got': summary(res, stack)}
        w = dict(wit)
        w.update(extra)
        rec.violation(kind, w, known_key=classify(kind, r, extra.get('problem'), extra))

    def mon(name):
        rec.count('mon.' + name)

    if stack == 'wsgi':
        server_failed = res.write_failed_at is not None
        started = len(res.start_calls) >= 1
    else:
        server_failed = res.send_failed_at is not None
        started = any(isinstance(e, dict) and e.get('type') == 'http.response.start' for e in res.events)

    # ---- A. the protocol monitors of the drivers
    mon('protocol.' + stack)
    for p in res.problems:
        bad('protocol-' + stack, problem=p)
    if stack == 'wsgi':
        mon('start_response_once')
        if res.exc is None or res.start_calls:
            if len(res.start_calls) != 1:
                bad('start-response-count', n=len(res.start_calls))
        if started:
            mon('status_line')
            if not M.status_line_ok(r['status'], res.status_line):
                bad('status-line', want_code=code)
    else:
        starts = sum(1 for e in res.events if isinstance(e, dict) and e.get('type') == 'http.response.start')
        mon('response_start_once')
        if starts != (0 if (server_failed and res.send_failed_at == 0) else 1):
            bad('response-start-count', n=starts)
        if started and res.status is not None:      # (None: the monitor rejected the status; reported above)
            mon('status_code')
            if res.status != code:
                bad('status-code', want_code=code)

    # ---- B. injected faults and nothing else may escape the app
    injected = (StreamFault,) if stack == 'wsgi' else (StreamFault, OSError)
    mon('no_unexpected_exception')
    if res.exc is not None and not (isinstance(res.exc, injected) and
                                    (server_failed or isinstance(res.exc, StreamFault))):
        bad('app-raised', trace=''.join(traceback.format_exception(type(res.exc), res.exc, res.exc.__traceback__))[-1500:])
        return
    stream_raised = isinstance(res.exc, StreamFault)
    faulted = server_failed or stream_raised
    if stack == 'asgi' and not faulted:
        mon('asgi_complete')
        if res.outcome != 'done' or not res.complete:
            bad('asgi-incomplete', outcome=res.outcome)

    # ---- C. body
    if bodiless:
        mon('bodiless_empty')
        if res.body != b'':
            bad('body-on-bodiless')
        if stack == 'asgi' and any(isinstance(e, dict) and e.get('body') for e in res.events):
            bad('body-on-bodiless')
    elif src == 'sse':
        mon('sse_body')
        try:
            blocks = M.sse_parse(res.body)
        except ValueError as ex:
            blocks = None
            bad('sse-malformed', why=str(ex))
        if blocks is not None:
            events = r['sse']['events']
            k = r['sse'].get('raise_at')
            if k is not None and k <= len(events):
                events = events[:k]
            gone = r.get('disconnect_after') is not None and getattr(res, 'client_disconnected_at', None) is not None
            if gone and not faulted:
                # the emitter may legitimately be abandoned once the client is gone; termination is still owed
                rec.count('sse.disconnect.truncated' if len(blocks) < len(events) else 'sse.disconnect.full')
            if len(blocks) > len(events) or (not faulted and not gone and len(blocks) != len(events)):
                bad('sse-event-count', got=len(blocks), want=len(events))
            else:
                for b, ev in zip(blocks, events):
                    mon('sse_event')
                    if not M.sse_block_matches(b, M.sse_expected_block(ev)):
                        bad('sse-event-mismatch', block=b, event=ev)
                        break
    elif src == 'stream':
        full, raises = M.stream_prefix(r['stream'])
        want = b''.join(full)
        mon('stream_body')
        if server_failed:
            if not want.startswith(res.body):
                bad('body-mismatch', want_prefix_of=want[:200], got_len=len(res.body))
        elif res.body != want:
            bad('body-mismatch', want=want[:200], want_len=len(want), got_len=len(res.body))
    else:
        mon('body_' + src)
        if server_failed:
            if src != 'media' and not _model_body(r, src).startswith(res.body):
                bad('body-mismatch', src=src)
        elif not M.body_matches(r, src, res.body):
            bad('body-mismatch', src=src)

    if not started:
        return

    # ---- D. Content-Length
    cls = res.header_values('content-length')
    if not bodiless and src in ('text', 'data', 'media', 'none'):
        mon('content_length_equals_body')
        if server_failed:
            n = None if src == 'media' else len(_model_body(r, src))
        else:
            n = len(res.body)
        if n is not None and cls != [str(n)]:
            bad('content-length', got=cls, want=str(n))
    elif not bodiless and src in ('stream', 'sse') and not faulted:
        app_set = r.get('cl') is not None or (src == 'stream' and r['stream'].get('set_len') is not None)
        if not app_set:
            mon('stream_no_invented_length')
            if any(v != str(len(res.body)) for v in cls):
                bad('stream-content-length-invented', got=cls, sent=len(res.body))

    # ---- E. Content-Type
    cts = res.header_values('content-type')
    app_ct = r.get('ct') is not None and r['ct'][0] in ('prop', 'header', 'headers')
    if code in M.TYPELESS:
        mon('typeless_no_framework_content_type')
        if cts and not app_ct:
            bad('content-type-on-typeless', got=cts)
    else:
        mon('content_type_present')
        if not cts:
            bad('content-type-missing')

    # ---- F. cookies and other headers reach the server
    want_names = set()
    want_exact = {}
    for name in list(r.get('headers', [])) + list(r.get('late') or []):     # in execution order: a later set wins
        if name in HEADER_OPS:
            want_names.update(HEADER_OPS[name][1])
            for n in HEADER_OPS[name][1]:
                want_exact.pop(n, None)
        else:
            want_exact.update(NONSTR_OPS[name][1])
    if r.get('late'):
        mon('late_ops_leave_response_alone')
    if want_exact:
        # the pairs themselves (native str / bytes) are judged by the drivers' monitors (res.problems above)
        mon('nonstr_header_value_as_str')
        for n, v in sorted(want_exact.items()):
            got = res.header_values(n)
            if v is None:
                ok = got == []          # written only into a snapshot / an argument object after the call
            elif n == 'set-cookie':
                ok = v in got
            else:
                ok = got == [v]
            if not ok:
                bad('header-value-not-str-of-value', name=n, got=got, want=v)
    if want_names:
        mon('headers_present')
        for n in sorted(want_names):
            if not res.header_values(n):
                bad('header-missing', name=n)
    if r.get('cookies'):
        jar, raw = set(), 0
        for name in r['cookies']:
            jar.update(COOKIE_OPS[name][1])
            raw += COOKIE_OPS[name][2]
        raw += sum(1 for h in r.get('headers', []) if h == 'raw_cookie_strsub')
        mon('set_cookie_lines')
        if len(res.header_values('set-cookie')) != len(jar) + raw:
            bad('set-cookie-count', got=res.header_values('set-cookie'), want=len(jar) + raw)

    # ---- G. close() exactly once on every stream whose streaming began
    for log in obs.logs:
        if log.has_close:
            if log.begun:
                mon('close_once')
                rec.count('close_once.' + log.kind)
                if log.closes != 1:
                    bad('stream-close-count', stream_kind=log.kind, closes=log.closes, reads=log.reads)
            else:
                rec.count('stream_not_begun')
        elif log.begun:
            rec.count('stream_begun_without_close_method')
    if src != 'stream' or bodiless:
        for log in obs.logs:
            rec.count('diag.unselected_stream_read' if log.begun else 'diag.unselected_stream_untouched')


def _model_body(r, src):
    if src == 'text':
        return r['text'].encode('utf-8')
    if src == 'data':
        return r['data']
    return b''


# ====================================================================== coverage bookkeeping

def status_class(r):
    code = M.status_code(r['status'])
    if code in M.TYPELESS:
        return 'typeless'
    if code in M.BODILESS:
        return 'bodiless1xx'
    return 'bearing'


def nblocks(st):
    if st['kind'] in FILE_KINDS:
        return sum(-(-len(c) // 8192) for c in st['chunks'] if c) + len(st.get('none_reads') or ())
    return len(st['chunks'])


def position(k, n):
    if k == 0:
        return 'first'
    if k >= n - 1:
        return 'last'
    return 'middle'


def note_coverage(rec, r, res, obs):
    if r.get('pre'):
        rec.count('history.with_render' if any(op[0] == 'render' for op in r['pre']) else 'history.plain')
        if obs.pre_rendered:
            rec.count('history.render_calls', len(obs.pre_rendered))
    r = M.effective(r)
    stack = r['stack']
    src = M.selected_source(r)
    sc = status_class(r)
    mc = 'HEAD' if r['method'] == 'HEAD' else 'other'
    sources = '+'.join(s for s in ('text', 'data', 'media', 'stream', 'sse')
                       if (r.get(s) is not None and s != 'media') or (s == 'media' and r.get('media', ['unset'])[0] == 'set'))
    preset = ('ct' if r.get('ct') else '') + ('cl' if r.get('cl') else '')
    rec.seen('cells', (stack, sc, r['method'], sources, preset))
    rec.count('cell.%s.%s.%s.%s' % (stack, sc, mc, src))
    rec.count('stack.' + stack)
    rec.count('status_kind.' + r['status'][0])
    rec.count('rc.' + r.get('rc', 'std'))
    rec.count('via.' + r.get('via', 'responder'))
    if r.get('text_as') and src == 'text':
        rec.count('text_as.%s.%s.%s' % (r['text_as'], stack, r.get('rc', 'std')))
    if r.get('status_before'):
        rec.count('status_sequences')
    if (r.get('stream') or {}).get('falsy'):
        rec.count('falsy_stream.' + stack)
    if r.get('fw'):
        rec.count('wsgi.file_wrapper')
    if r.get('prerender') is not None:
        rec.count('prerender')
    st = r.get('stream')
    if st is not None and src == 'stream' and not M.is_bodiless(r):
        kind = st['kind']
        rec.count('streamed.%s.%s' % (stack, kind))
        if any(getattr(log, 'none_reads', 0) for log in obs.logs):
            rec.count('streamed.asgi.read_answered_none')
        n = len(st['chunks'])
        nb = nblocks(st)
        k = st.get('raise_at')
        if isinstance(res.exc, StreamFault) and k is not None:
            rec.count('fault.%s.%s.raise.%s' % (stack, kind, position(k, n + 1)))
        if stack == 'wsgi' and res.write_failed_at is not None:
            rec.count('fault.wsgi.%s.write.%s' % (kind, position(res.write_failed_at, nb)))
        if stack == 'asgi' and res.send_failed_at is not None:
            if res.send_failed_at == 0:
                rec.count('fault.asgi.%s.send.start' % kind)
            else:
                rec.count('fault.asgi.%s.send.%s' % (kind, position(res.send_failed_at - 1, nb + 1)))
    if src == 'sse' and not M.is_bodiless(r):
        rec.count('streamed.asgi.sse')
        if isinstance(res.exc, StreamFault):
            rec.count('fault.asgi.sse.raise')
        if res.send_failed_at is not None:
            rec.count('fault.asgi.sse.send')


def do(rec, r, nontrivial=True):
    res, obs = run_case(rec, r)
    if not r.get('render_fail'):
        note_coverage(rec, r, res, obs)
    if r.get('disconnect_after') is not None:
        rec.count('asgi.disconnect_after')
    rec.case(_key(r) if nontrivial else None)
    return res


def _key(r):
    return repr(sorted((k, repr(v)) for k, v in r.items()))


# ====================================================================== generators

STATUSES = [
    ['int', 100], ['int', 101], ['int', 200], ['int', 201], ['int', 204], ['int', 206], ['int', 299],
    ['int', 301], ['int', 304], ['int', 404], ['int', 500], ['int', 799], ['int', 999],
    ['line', '200 OK'], ['line', '404 Not Found'], ['line', '204 No Content'], ['line', '304 Not Modified'],
    ['line', '100 Continue'], ['line', '101 Switching Protocols'], ['line', '200 Fine, thanks'],
    ['line', '204 Nothing Here'], ['line', '304 Same As Before'], ['line', '101 Upgrading'],
    ['digits', '204'], ['digits', '304'], ['digits', '503'], ['digits', '299'], ['digits', '799'],
    ['bytes', '200 OK'], ['bytes', '404 Not Found'], ['bytes', '702 Emacs'], ['bytes', '204 No Content'],
    ['bytes', '304 Unchanged'], ['bytes', '200'], ['bytes', '204'], ['bytes', '304'], ['bytes', '101'],
    ['bytes', '299'], ['bytes', '598'], ['strsub', '201 Created'], ['strsub', '404'],
    ['strsub_odd', '201 Created'], ['strsub_odd', '204 No Content'], ['strsub_odd', '404'], ['strsub_odd', '299'],
    ['strenum', '201 Created'], ['strenum', '204 No Content'], ['strenum', '304 Not Modified'],
    ['strenum', '418 Short And Stout'], ['strenum', '204 Nothing Here'], ['strenum', '404'], ['strenum', '204'],
    ['strenum', '598'], ['intenum', 200], ['intenum', 204], ['intenum', 418], ['intenum', 299], ['intenum', 101],
    ['enum', 418], ['enum', 204], ['enum', 304], ['enum', 100], ['enum', 200],
]
METHODS = ['GET', 'HEAD', 'POST', 'OPTIONS']
GRID_TEXT = 'h\xe9llo € \U0001F600'
GRID_DATA = b'\x00\xff data'
GRID_MEDIA = {'k': ['v', 1, None, True], '\xe9': '\xfc'}
GRID_CHUNKS = [b'one-', b'', b'\xfftwo', b'3']
PRESETS = [(None, None), (['prop', 'text/plain; charset=utf-8'], None), (None, ['prop', 7]),
           (['header', 'application/x-custom'], ['header', '99999'])]


def grid_cases(stack):
    """status x method x subset of body sources x preset headers (the interaction matrix)."""
    subsets = [dict(zip(('text', 'data', 'media', 'stream'), bits)) for bits in itertools.product((0, 1), repeat=4)]
    extra = []
    if stack == 'asgi':
        extra = [{'sse': 1}, {'sse': 1, 'text': 1}, {'sse': 1, 'data': 1}]
    kinds = WSGI_KINDS if stack == 'wsgi' else ASGI_KINDS
    n = 0
    for status in STATUSES:
        for method in METHODS:
            for sub in subsets + extra:
                for ct, cl in PRESETS:
                    n += 1
                    r = {'stack': stack, 'method': method, 'status': status, 'text': None, 'data': None,
                         'media': ['unset'], 'stream': None, 'sse': None, 'ct': ct, 'cl': cl}
                    if sub.get('text'):
                        r['text'] = GRID_TEXT
                    if sub.get('data'):
                        r['data'] = GRID_DATA
                    if sub.get('media'):
                        r['media'] = ['set', GRID_MEDIA]
                    if sub.get('stream'):
                        kind = kinds[n % len(kinds)]
                        chunks = [c for c in GRID_CHUNKS if c or kind not in FILE_KINDS]
                        r['stream'] = {'kind': kind, 'chunks': chunks, 'raise_at': None}
                        if stack == 'asgi' and kind in FILE_KINDS and (n // len(kinds)) % 2:
                            r['stream']['none_reads'] = [0, 2]
                        if stack == 'wsgi' and kind in FILE_KINDS:
                            r['fw'] = bool((n // len(kinds)) % 2)
                    if sub.get('sse'):
                        r['sse'] = {'kind': 'agen' if n % 2 else 'aiter',
                                    'events': [{'text': 'hi'}, None, {'json': {'a': [1, '\xe9']}, 'event': 'upd',
                                                                      'event_id': '7', 'retry': 250}]}
                    # media is rendered through the JSON handler: keep an explicit type it can serve
                    if M.selected_source(r) == 'media' and ct is not None:
                        r['ct'] = [ct[0], 'application/json; charset=UTF-8']
                    r['rc'] = RESP_CLASSES[(n // 7) % 3]
                    yield r


FALSY_MEDIA = [0, False, '', {}, [], 0.0]


def falsy_cases(stack):
    """'set' means 'not None': falsy values still win over lower-precedence sources."""
    kinds = WSGI_KINDS if stack == 'wsgi' else ASGI_KINDS
    n = 0
    for method in ('GET', 'HEAD'):
        for status in (['int', 200], ['int', 204], ['line', '404 Not Found']):
            for rc in RESP_CLASSES:
                base = {'stack': stack, 'method': method, 'status': status, 'text': None, 'data': None,
                        'media': ['unset'], 'stream': None, 'sse': None, 'ct': None, 'cl': None, 'rc': rc}
                st = {'kind': kinds[n % len(kinds)], 'chunks': [b'lower'], 'raise_at': None}
                n += 1
                yield dict(base, text='', data=b'lower', media=['set', {'lower': 1}], stream=st)
                yield dict(base, data=b'', media=['set', {'lower': 1}], stream=st)
                for m in FALSY_MEDIA:
                    yield dict(base, media=['set', m], stream=st)
                yield dict(base, media=['set', None], stream=st)       # media None == unset: the stream is the body
                # the app renders once (public render_body()), then replaces the media: the last value is the body
                yield dict(base, prerender=[{'stale': 1}], media=['set', {'fresh': [n]}])
                yield dict(base, prerender=[['stale']], text='fresh t\xe9xt')
                yield dict(base, prerender=[{'stale': 1}], stream=st)
                yield dict(base, media=['set', None])


def decor_cases(stack):
    """Every header / cookie operation x way of filling in x (bearing, typeless) x (GET, HEAD)."""
    n = 0
    for via in ('responder', 'mw', 'sink'):
        for status in (['int', 200], ['enum', 204], ['line', '404 Not Found']):
            for method in ('GET', 'HEAD'):
                base = {'stack': stack, 'method': method, 'status': status, 'text': None, 'data': None,
                        'media': ['unset'], 'stream': None, 'sse': None, 'ct': None, 'cl': None, 'via': via}
                for op in sorted(HEADER_OPS):
                    n += 1
                    yield dict(base, headers=[op], rc=RESP_CLASSES[n % 3], text='t' if n % 2 else None)
                for op in sorted(COOKIE_OPS):
                    n += 1
                    yield dict(base, cookies=[op], rc=RESP_CLASSES[n % 3], data=b'd' if n % 2 else None)
                for op in sorted(NONSTR_OPS):
                    n += 1
                    yield dict(base, headers=[op], rc=RESP_CLASSES[n % 3], text='t' if n % 2 else None)
                    rec_ops = [op] + [o for o in ('set_ascii', 'append_twice') if n % 2]
                    yield dict(base, headers=rec_ops, cookies=['basic', 'raw'], rc=RESP_CLASSES[(n + 1) % 3])
                yield dict(base, headers=sorted(NONSTR_OPS))
                yield dict(base, headers=sorted(HEADER_OPS)[:12], cookies=sorted(COOKIE_OPS))
                yield dict(base, headers=[h for h in sorted(HEADER_OPS)[12:] if h != 'viewable_as'],
                           cookies=sorted(COOKIE_OPS), media=['set', [1]])


def status_sequence_cases(stack):
    """Equal-but-distinct statuses one after the other in one process (falcon memoises the normalisation by
    equality): every ordered pair of spellings of one code, and a cache driven past its size in between."""
    groups = {}
    for spec in STATUSES:
        groups.setdefault(M.status_code(spec), []).append(spec)
    n = 0
    filler = [['int', c] for c in range(500, 570)]           # 70 > the 64 entries of the caches
    for code, specs in sorted(groups.items()):
        for a in specs:
            for b in specs:
                if a == b:
                    continue
                n += 1
                r = {'stack': stack, 'method': 'HEAD' if n % 7 == 0 else 'GET', 'status': b, 'text': None, 'data': None,
                     'media': ['unset'], 'stream': None, 'sse': None, 'ct': None, 'cl': None,
                     'rc': RESP_CLASSES[n % 3], 'status_before': [a]}
                if n % 2:
                    r['text'] = 'body'
                yield r
                if n % 9 == 0:
                    yield dict(r, status_before=[a] + filler + [specs[n % len(specs)]])
                    yield dict(r, status_before=[a, b, a])


LATE_OPS = sorted(k for k in NONSTR_OPS if k.startswith(('snap_', 'arg_')))


def late_cases(stack):
    """After the response was completely filled in, code reads resp.headers / reuses argument objects and
    mutates them: x way of filling in x body source x preset headers x method x response class."""
    kinds = WSGI_KINDS if stack == 'wsgi' else ASGI_KINDS
    n = 0
    for op in LATE_OPS:
        for via in ('responder', 'mw', 'sink'):
            for src in ('text', 'data', 'media', 'stream', 'none'):
                for ct, cl in PRESETS[:1] + PRESETS[3:]:
                    for method in ('GET', 'HEAD'):
                        n += 1
                        r = {'stack': stack, 'method': method, 'status': [['int', 200], ['enum', 204], ['int', 404]][n % 3],
                             'text': None, 'data': None, 'media': ['unset'], 'stream': None, 'sse': None,
                             'ct': ct, 'cl': cl, 'via': via, 'rc': RESP_CLASSES[n % 3], 'late': [op]}
                        if src == 'text':
                            r['text'] = GRID_TEXT
                        elif src == 'data':
                            r['data'] = GRID_DATA
                        elif src == 'media':
                            r['media'] = ['set', GRID_MEDIA]
                            if ct is not None:
                                r['ct'] = [ct[0], 'application/json; charset=UTF-8']
                        elif src == 'stream':
                            r['stream'] = {'kind': kinds[n % len(kinds)], 'chunks': [b'ab', b'c'], 'raise_at': None}
                        if n % 4 == 0:
                            r['headers'] = ['set_ascii', LATE_OPS[n % len(LATE_OPS)]]
                            r['cookies'] = ['basic', 'raw']
                        yield r
    yield {'stack': stack, 'method': 'GET', 'status': ['int', 200], 'text': 't', 'data': None, 'media': ['unset'],
           'stream': None, 'sse': None, 'ct': None, 'cl': None, 'late': list(LATE_OPS)}


TEXT_VALUES = [GRID_TEXT, '', 'plain ascii', 'x' * 8193]


def text_object_cases(stack):
    """resp.text as every string-like type x response class (stock: inlined rendering; custom: render_body())."""
    n = 0
    for text_as in TEXT_AS:
        for rc in RESP_CLASSES:
            for value in TEXT_VALUES:
                for lower in (False, True):
                    for method in ('GET', 'HEAD', 'POST'):
                        n += 1
                        r = {'stack': stack, 'method': method, 'status': [['int', 200], ['line', '404 Not Found']][n % 2],
                             'text': value, 'text_as': text_as, 'data': GRID_DATA if lower else None,
                             'media': ['set', GRID_MEDIA] if lower else ['unset'], 'stream': None, 'sse': None,
                             'ct': None if n % 3 else ['prop', 'text/plain; charset=utf-8'],
                             'cl': None if n % 4 else ['prop', 1], 'rc': rc,
                             'via': ('responder', 'mw', 'sink')[n % 3]}
                        if n % 5 == 0:
                            r['pre'] = [['render']] if n % 2 else [['media', STALE['media']], ['render']]
                        yield r


def fault_cases(stack, big):
    """Every stream kind x chunk count x every raise index / every server failure index."""
    kinds = WSGI_KINDS if stack == 'wsgi' else ASGI_KINDS
    for kind in kinds:
        shapes = [[], [b'a'], [b'a', b'bb'], [b'a', b'bb', b'ccc'], [b'a', b'bb', b'ccc', b'dddd']]
        if kind in FILE_KINDS:
            shapes.append([b'x' * 20000])          # > 2 blocks of 8 KiB through read(size)
        if big:
            shapes.append([bytes([65 + i]) * (i + 1) for i in range(7)])
        for chunks in shapes:
            n = len(chunks)
            nreads = n if chunks != [b'x' * 20000] else 3
            fws = [False, True] if (stack == 'wsgi' and kind in FILE_KINDS) else [False]
            for fw in fws:
                for yieldy in ([False, True] if stack == 'asgi' else [False]):
                    base = {'stack': stack, 'method': 'GET', 'status': ['int', 200], 'text': None, 'data': None,
                            'media': ['unset'], 'sse': None, 'ct': None, 'cl': None, 'fw': fw}

                    def mk(raise_at, fail_at, set_len=None, method='GET', none_reads=None):
                        st = {'kind': kind, 'chunks': chunks, 'raise_at': raise_at, 'yieldy': yieldy}
                        if set_len is not None:
                            st['set_len'] = set_len
                        if none_reads:
                            st['none_reads'] = none_reads
                        return dict(base, stream=st, fail_at=fail_at, method=method)
                    yield mk(None, None)
                    yield mk(None, None, set_len=sum(len(c) for c in chunks))
                    yield mk(None, None, method='POST')
                    if kind in CAN_RAISE:
                        for k in range(n + 1):
                            yield mk(k, None)
                    lo = 0
                    hi = nreads + (1 if stack == 'wsgi' else 3)
                    for f in range(lo, hi):
                        yield mk(None, f)
                    if kind in CAN_RAISE and n >= 2:
                        yield mk(1, 1)
                        yield mk(n, 1)
                        yield mk(0, 2)
                    if stack == 'asgi' and kind in FILE_KINDS and chunks != [b'x' * 20000]:
                        # a read() that answers None ('no data yet') before any chunk, and before EOF
                        patterns = [[i] for i in range(n + 1)] + [list(range(n + 1))]
                        for nr in patterns:
                            yield mk(None, None, none_reads=nr)
                            yield mk(None, None, none_reads=nr, method='HEAD')
                            for k in range(n + 1):
                                yield mk(k, None, none_reads=nr)
                            for f in range(0, n + len(nr) + 3):
                                yield mk(None, f, none_reads=nr)


STALE = {'text': 'stale t\xe9xt', 'data': b'stale \xff data', 'media': {'stale': [1]}}
STALE2 = {'text': 'second stale', 'data': b'second stale', 'media': ['second', 'stale']}


def history_patterns():
    """Earlier steps of a filling-in history that call the public render_body() at some point."""
    fields = ('text', 'data', 'media')
    yield [['render']]
    for x in fields:
        yield [[x, STALE[x]], ['render']]
        yield [[x, STALE[x]], ['render'], [x, None]]
        yield [[x, STALE[x]], ['render'], ['render']]
        yield [['render'], [x, STALE[x]]]
        for y in fields:
            yield [[x, STALE[x]], ['render'], [y, STALE2[y]], ['render']]
            if y != x:
                yield [[x, STALE[x]], [y, STALE2[y]], ['render'], [y, None], ['render']]


def falsy_stream_cases(stack):
    """resp.stream set to an object that is falsy but not None (set iff not None, as for every other source)."""
    kinds = [k for k in (WSGI_KINDS if stack == 'wsgi' else ASGI_KINDS) if k in FALSY_KINDS]
    n = 0
    for kind in kinds:
        for mode in FALSY_MODES:
            for chunks in ([], [b'a'], [b'alpha-', b'beta-', b'gamma']):
                base = {'stack': stack, 'method': 'GET', 'status': ['int', 200], 'text': None, 'data': None,
                        'media': ['unset'], 'sse': None, 'ct': None, 'cl': None, 'rc': RESP_CLASSES[n % 3]}
                n += 1

                def mk(**kw):
                    st = {'kind': kind, 'chunks': chunks, 'raise_at': kw.pop('raise_at', None), 'falsy': mode,
                          'yieldy': bool(n % 2)}
                    if 'set_len' in kw:
                        st['set_len'] = kw.pop('set_len')
                    return dict(base, stream=st, **kw)
                yield mk()
                yield mk(method='HEAD')
                yield mk(method='POST', status=['line', '404 Not Found'], via='mw')
                yield mk(status=['enum', 204])
                yield mk(set_len=sum(len(c) for c in chunks))
                yield mk(text='text wins')
                yield mk(media=['set', None])
                yield mk(pre=[['media', {'stale': 1}], ['render'], ['media', None]])
                if stack == 'wsgi' and kind in FILE_KINDS:
                    yield mk(fw=True)
                for k in range(len(chunks) + 1):
                    yield mk(raise_at=k)
                for f in range(0, len(chunks) + 2):
                    yield mk(fail_at=f)


def same_object_patterns():
    """The media object is rendered early, changed in place and assigned again (same identity)."""
    d0, d1, d2 = {'stale': [1]}, {'fresh': ['in place', 2]}, {}
    l0, l1 = ['stale'], ['fresh', {'n': 1}]
    for a, b, c in ((d0, d1, d2), (l0, l1, [])):
        yield [['media', a], ['render'], ['media_mutate_reassign', b]]
        yield [['media', a], ['media_mutate_reassign', b]]
        yield [['media', a], ['render'], ['media_mutate_reassign', b], ['render'], ['media_mutate_reassign', c]]
        yield [['media', a], ['render'], ['render'], ['media_mutate_reassign', b], ['render']]
        yield [['media', a], ['render'], ['media_mutate_reassign', a]]          # re-assigned unchanged
        yield [['media', a], ['render'], ['media', a], ['media_mutate_reassign', b]]     # equal but distinct, then same
        yield [['data', STALE['data']], ['media', a], ['render'], ['data', None], ['render'], ['media_mutate_reassign', b]]


def history_cases(stack):
    """render_body() called at any point of the history, then any subset of the body attributes (re)assigned."""
    kinds = WSGI_KINDS if stack == 'wsgi' else ASGI_KINDS
    subsets = [dict(zip(('text', 'data', 'media', 'stream'), bits)) for bits in itertools.product((0, 1), repeat=4)]
    n = 0
    for pre in itertools.chain(history_patterns(), same_object_patterns()):
        for sub in subsets:
            for rc in RESP_CLASSES:
                n += 1
                r = {'stack': stack, 'method': 'HEAD' if n % 11 == 0 else ('POST' if n % 5 == 0 else 'GET'),
                     'status': [['int', 200], ['int', 200], ['line', '404 Not Found'], ['enum', 204]][n % 4],
                     'text': None, 'data': None, 'media': ['unset'], 'stream': None, 'sse': None, 'ct': None,
                     'cl': None if n % 3 else ['prop', 5], 'rc': rc, 'pre': pre,
                     'via': ('responder', 'mw', 'sink')[(n // 3) % 3]}
                if sub['text']:
                    r['text'] = GRID_TEXT
                if sub['data']:
                    r['data'] = GRID_DATA
                if sub['media']:
                    r['media'] = ['set', GRID_MEDIA]
                if sub['stream']:
                    kind = kinds[n % len(kinds)]
                    r['stream'] = {'kind': kind, 'chunks': [c for c in GRID_CHUNKS if c], 'raise_at': None}
                yield r


def render_fail_cases(stack):
    """Every render-time failure cause x preset Content-Length x response class x method x way of filling in."""
    n = 0
    for cause in RENDER_FAILS:
        if cause == 'file_wrapper_raises' and stack != 'wsgi':
            continue
        for rc in RESP_CLASSES:
            if cause == 'render_body_raises' and rc != 'sub_render':
                continue
            for cl in (None, ['prop', 42], ['header', '7']):
                for method in ('GET', 'POST', 'HEAD'):
                    for status in (['int', 200], ['int', 201], ['enum', 204], ['line', '404 Not Found']):
                        n += 1
                        r = {'stack': stack, 'method': method, 'status': status, 'text': None, 'data': None,
                             'media': ['unset'], 'stream': None, 'sse': None, 'ct': None, 'cl': cl, 'rc': rc,
                             'render_fail': cause, 'via': ('responder', 'mw', 'sink')[n % 3]}
                        if n % 4 == 0:
                            r['headers'] = ['set_ascii', 'append_first_int']
                            r['cookies'] = ['basic']
                        if n % 5 == 0 and cause in ('unserializable', 'render_body_raises'):
                            r['mt'] = 'text/html; charset=utf-8'     # then: no handler for the default type
                        yield r


def sse_disconnect_cases():
    """The client goes away after k sent events (k = 0 .. n + 2) while the emitter is still producing."""
    evs = [{'text': 'e0'}, None, {'json': {'n': 2}, 'event': 'tick'}, {'data': b'e3', 'event_id': '3'}, {'text': 'e4'}]
    for kind in ('agen', 'aiter'):
        for n in (0, 1, 2, 5):
            for yieldy in (True, False):
                for k in range(0, n + 3):
                    for method, status in (('GET', ['int', 200]), ('POST', ['line', '200 OK']), ('HEAD', ['int', 200])):
                        yield {'stack': 'asgi', 'method': method, 'status': status, 'text': None, 'data': None,
                               'media': ['unset'], 'stream': None, 'ct': None, 'cl': None,
                               'sse': {'kind': kind, 'events': evs[:n], 'raise_at': None, 'yieldy': yieldy},
                               'disconnect_after': k, 'rc': RESP_CLASSES[k % 3]}


def sse_fault_cases():
    evs = [{'data': b'raw \xc3\xa9', 'text': 'not me', 'json': {'nor': 'me'}}, {'text': '', 'json': 1}, None,
           {'comment': 'keep-alive'},
           {'json': [1, {'k': None}], 'event': 'e', 'event_id': 'id-1', 'retry': 0, 'comment': 'c'}, {}]
    for kind in ('agen', 'aiter'):
        for n in (0, 1, 3, len(evs)):
            events = evs[:n]
            for yieldy in (False, True):
                base = {'stack': 'asgi', 'method': 'GET', 'status': ['int', 200], 'text': None, 'data': None,
                        'media': ['unset'], 'stream': None, 'ct': None, 'cl': None}
                yield dict(base, sse={'kind': kind, 'events': events, 'raise_at': None, 'yieldy': yieldy}, fail_at=None)
                for k in range(n + 1):
                    yield dict(base, sse={'kind': kind, 'events': events, 'raise_at': k, 'yieldy': yieldy}, fail_at=None)
                for f in range(0, n + 3):
                    yield dict(base, sse={'kind': kind, 'events': events, 'raise_at': None, 'yieldy': yieldy}, fail_at=f)


TEXTS = ['', 'x', 'h\xe9llo €', '\U0001F600' * 3, 'a' * 9000, 'line1\nline2\r\n', '\x00\x7f', '{"not": "media"}']
DATAS = [b'', b'x', b'\x00\xff\xfe', bytes(range(256)), b'z' * 10000, b'\r\n\r\n']
MEDIAS = [0, False, True, '', {}, [], 'str', 12.5, -3, {'k': [1, '\xe9', None, {'n': {}}]}, ['\U0001F600', -1],
          {'k' + 'a' * 50: 'b' * 3000}, [[[[]]]], None]
CTS = ['text/plain; charset=utf-8', 'application/json', 'application/json; charset=UTF-8', 'image/png',
       'application/x-custom', 'text/event-stream', 'TEXT/HTML']
JSON_CTS = ['application/json', 'application/json; charset=UTF-8']
SSE_FIELDS = {
    'text': ['', 'hello', ' leading space', 'h\xe9 €', 'colon: inside'],
    'data': [b'', b'raw', b'\xe2\x82\xac'],
    'json': [0, False, {'a': 1}, ['x', None], 'str', {'nl': 'a\nb'}],
    'event': ['update', 'e-1', ''],
    'event_id': ['1', 'abc', ''],
    'retry': [0, 1, 5000],
    'comment': ['', 'ping', 'c: x'],
}


def gen_chunks(rng, kind):
    n = rng.choice([0, 1, 1, 2, 3, 4, 6])
    out = []
    for _ in range(n):
        t = rng.random()
        if t < 0.1 and kind not in FILE_KINDS:
            out.append(b'')
        elif t < 0.85:
            out.append(bytes(rng.randrange(256) for _ in range(rng.randint(1, 12))))
        else:
            out.append(bytes([rng.randrange(256)]) * rng.choice([8191, 8192, 8193, 20000]))
    return out


def gen_sse_event(rng):
    if rng.random() < 0.15:
        return None
    ev = {}
    payload = rng.choice(['text', 'data', 'json', None, 'all'])
    if payload == 'all':
        for f in ('data', 'text', 'json'):
            if rng.random() < 0.6:
                ev[f] = rng.choice(SSE_FIELDS[f])
    elif payload:
        ev[payload] = rng.choice(SSE_FIELDS[payload])
    for f in ('event', 'event_id', 'retry', 'comment'):
        if rng.random() < 0.3:
            ev[f] = rng.choice(SSE_FIELDS[f])
    return ev


def gen_recipe(rng):
    stack = rng.choice(['wsgi', 'asgi'])
    kinds = WSGI_KINDS if stack == 'wsgi' else ASGI_KINDS
    r = {'stack': stack, 'method': rng.choice(METHODS + ['GET', 'PUT']), 'status': rng.choice(STATUSES),
         'text': None, 'data': None, 'media': ['unset'], 'stream': None, 'sse': None, 'ct': None, 'cl': None}
    if rng.random() < 0.25:
        r['status'] = ['int', rng.choice([rng.randint(200, 599), rng.randint(100, 999)])]
        if r['status'][1] in (102, 103, 205):
            r['status'] = ['int', 200]     # other statuses HTTP defines as bodiless are outside the statement
    if r['status'][0] == 'int' and rng.random() < 0.3:
        r['status_via'] = 'code'
    if rng.random() < 0.35:
        r['text'] = rng.choice(TEXTS)
    if rng.random() < 0.35:
        r['data'] = rng.choice(DATAS)
    if rng.random() < 0.4:
        r['media'] = ['set', rng.choice(MEDIAS)]
    if rng.random() < 0.55:
        kind = rng.choice(kinds)
        st = {'kind': kind, 'chunks': gen_chunks(rng, kind), 'raise_at': None}
        if kind in CAN_RAISE and rng.random() < 0.3:
            st['raise_at'] = rng.randint(0, len(st['chunks']))
        if rng.random() < 0.2:
            st['set_len'] = rng.choice([sum(len(c) for c in st['chunks']), 0, 5])
        if kind in FALSY_KINDS and rng.random() < 0.15:
            st['falsy'] = rng.choice(FALSY_MODES)
        if stack == 'asgi':
            st['yieldy'] = rng.random() < 0.5
            if kind in FILE_KINDS and rng.random() < 0.35:
                st['none_reads'] = sorted(rng.sample(range(len(st['chunks']) + 1), rng.randint(1, len(st['chunks']) + 1)))
        r['stream'] = st
        if stack == 'wsgi':
            r['fw'] = rng.random() < 0.5
    if stack == 'asgi' and rng.random() < 0.2:
        events = [gen_sse_event(rng) for _ in range(rng.choice([0, 1, 2, 4]))]
        r['sse'] = {'kind': rng.choice(['agen', 'aiter']), 'events': events, 'raise_at': None,
                    'yieldy': rng.random() < 0.5}
        if rng.random() < 0.25:
            r['sse']['raise_at'] = rng.randint(0, len(events))
        r['media'] = ['unset']          # documented: sse supersedes text and data; nothing is said about media
        r['stream'] = None
    r['mt'] = rng.choice(APP_MEDIA_TYPES)
    if rng.random() < 0.45:
        form = rng.choice(['prop', 'header', 'headers', 'none', 'set_then_none'])
        r['ct'] = [form] if form == 'none' else [form, rng.choice(CTS)]
    src = M.selected_source(r)
    if src == 'media':
        # the media handler is selected by the content type: keep one the default handlers can serve
        if r['ct'] is not None and r['ct'][0] in ('prop', 'header', 'headers'):
            r['ct'] = [r['ct'][0], rng.choice(JSON_CTS)]
        elif r['mt'] is not None:
            r['ct'] = ['prop', rng.choice(JSON_CTS)]
    if rng.random() < 0.35:
        r['cl'] = rng.choice([['prop', rng.choice([0, 3, 99999])], ['header', str(rng.choice([0, 1, 12345]))]])
    if rng.random() < 0.4:
        r['headers'] = rng.sample(sorted(HEADER_OPS), rng.randint(1, 4))
        if rng.random() < 0.4:
            r['headers'] += rng.sample(sorted(NONSTR_OPS), rng.randint(1, 3))
            if 'retry_after' in r['headers'] and 'prop_int' in r['headers']:
                r['headers'].remove('prop_int')
            rng.shuffle(r['headers'])
        if 'downloadable_as' in r['headers'] and 'viewable_as' in r['headers']:
            r['headers'].remove('viewable_as')
    if rng.random() < 0.2:
        r['late'] = rng.sample(LATE_OPS, rng.randint(1, 2))
    if r['text'] is not None and rng.random() < 0.4:
        r['text_as'] = rng.choice(TEXT_AS)
    if rng.random() < 0.3:
        r['cookies'] = rng.sample(sorted(COOKIE_OPS), rng.randint(1, 3))
    r['rc'] = rng.choice(RESP_CLASSES)
    r['via'] = rng.choice(['responder', 'responder', 'mw', 'sink'])
    if rng.random() < 0.3:
        order = ['text', 'data', 'media', 'stream', 'sse']
        rng.shuffle(order)
        r['order'] = order
    if rng.random() < 0.3:
        r['fail_at'] = rng.randint(0, 5)
    if stack == 'asgi' and rng.random() < 0.2:
        r['disconnect_after'] = rng.randint(0, 6)
    if rng.random() < 0.06:
        # render-time failure: nothing of higher precedence than media may be set, no fault injection on top
        cause = rng.choice([c for c in RENDER_FAILS if c != 'file_wrapper_raises' or stack == 'wsgi'])
        r.update(text=None, data=None, media=['unset'], stream=None, sse=None, ct=None, render_fail=cause)
        r.pop('fail_at', None)
        r.pop('order', None)
        if cause == 'render_body_raises':
            r['rc'] = 'sub_render'
        return r
    if r['mt'] is None and r.get('sse') is None and rng.random() < 0.2 and (
            r['ct'] is None or r['ct'][0] in ('none', 'set_then_none') or r['ct'][1] in JSON_CTS):
        pre = []
        for _ in range(rng.randint(1, 5)):
            t = rng.random()
            if t < 0.4:
                pre.append(['render'])
            else:
                f = rng.choice(['text', 'data', 'media'])
                pre.append([f, rng.choice([None, STALE[f], STALE2[f]])])
                if f == 'media' and isinstance(pre[-1][1], dict) and rng.random() < 0.5:
                    if rng.random() < 0.6:
                        pre.append(['render'])
                    pre.append(['media_mutate_reassign', rng.choice([{'fresh': 1}, {}, {'stale': [1], 'more': None}])])
        r['pre'] = pre
        if M.selected_source(M.effective(r)) == 'media' and r['ct'] is not None and r['ct'][0] in ('prop', 'header', 'headers'):
            r['ct'] = [r['ct'][0], rng.choice(JSON_CTS)]
        return r
    if r['via'] == 'responder' and r['mt'] is None and rng.random() < 0.2 and (
            r['ct'] is None or r['ct'][0] in ('none', 'set_then_none') or r['ct'][1] in JSON_CTS):
        r['prerender'] = [rng.choice([{'stale': True}, 'stale', [0]])]
    return r


# ====================================================================== entry points

def run(rec):
    rec.rule = ('a recipe = stack x method x status (int/line/digits/HTTPStatus, unknown codes) x body sources '
                '(any subset of text/data/media/stream, sse) x preset Content-Type/Content-Length x headers/cookies x '
                'response class x responder/middleware/sink x fault point (stream raises at k, server write/send fails '
                'at k). Every executed recipe is non-trivial (a full request through a real App behind a monitored '
                'driver); distinct by the whole recipe')
    rec.assumptions = [
        'drivers vlib/drivers/{wsgi,asgi}.py behave as PEP 3333 / ASGI HTTP servers (a server calls close() on the '
        'iterable in a finally; after a failed send every later send fails)',
        'reference model vlib/models/c05_response.py: a body source is set iff it is not None; sse supersedes text/data',
        'header values are ASCII/latin-1 without control characters (falcon documents US-ASCII); non-str values '
        '(int, float, bool, str subclass, object with __str__) are accepted input and must arrive as str(value)',
        'bodiless statuses are exactly 100/101/204/304 as the statement lists them (102/103/205 not generated)',
        'a send failure on the response-start event precedes streaming: no close() demand (stream never begun)',
        'render-time failures (unserializable media, unsupported type, raising handler / render_body / file_wrapper): '
        'only protocol validity and length consistency of the answer are demanded, not a non-empty error body (C04)',
        'after http.disconnect an SSE emitter may be abandoned early; a terminating body event is still owed',
        'a filling-in history may call the public render_body() at any point; only the last assignment of each '
        'attribute decides the body (vlib/models/c05_response.py effective())',
        'resp.headers is documented to return a new copy on every access and header-setting methods convert at call '
        'time: mutating the copy or an argument object afterwards must leave the response alone',
        'resp.text accepts every string-like object offering encode() (str subclass, UserString, lazy string) and '
        'bytes, as all three copies of the rendering logic implement by EAFP; the body is the UTF-8 of its value',
        'falcon\'s lru caches of status normalisation are cleared before every case (functools cache_clear) so that a '
        'verdict depends on the recipe alone; equal-but-distinct statuses in sequence are explicit recipes (status_before)',
        'a stream object that is falsy (defines __len__/__bool__) but not None is set like any other: WSGI tests '
        '`is not None`, and the model uses the same rule for ASGI',
        'byte-string statuses (line or bare code) are accepted input (falcon\'s suite assigns resp.status = b\'200 OK\'); '
        'other spellings int() would accept (float, signs, underscores, whitespace) are not generated',
        'read() of an ASYNC file-like may answer None (no data yet, io.RawIOBase convention; falcon normalises it to an '
        'empty chunk); not generated for sync WSGI file-likes (blocking files; the wrapper may be the server\'s)',
    ]
    quick = rec.tier == 'quick'
    idx = 0
    for stack in ('wsgi', 'asgi'):
        for gen in (grid_cases(stack), falsy_cases(stack), decor_cases(stack), fault_cases(stack, big=not quick),
                    render_fail_cases(stack), history_cases(stack), late_cases(stack), text_object_cases(stack), falsy_stream_cases(stack),
                    status_sequence_cases(stack)):
            for r in gen:
                idx += 1
                if idx % rec.nshards != rec.shard:
                    continue
                do(rec, r)
                if idx % 1499 == 0:
                    rec.sample({'recipe': r})
    for r in itertools.chain(sse_fault_cases(), sse_disconnect_cases()):
        idx += 1
        if idx % rec.nshards != rec.shard:
            continue
        do(rec, r)
    rec.exhaustive = True
    if rec.shard == 0:
        rec.note('exhaustive over %d grid/falsy/header-cookie/fault-enumeration recipes (status x method x source subsets x presets; '
                 'stream kind x chunk count x every raise index x every server-failure index)' % idx)

    rng = rec.rng
    n = 0
    while n < 400 or rec.budget_ok(0.9):      # a counted minimum, then whatever the budget allows
        for _ in range(40):
            r = gen_recipe(rng)
            do(rec, r)
            rec.count('random.cases')
            n += 1
            if n <= 2:
                rec.sample({'recipe': r})

    # ---- floors: the deciding monitors were reached, every cell class and every fault class was hit
    for m in ('protocol.wsgi', 'protocol.asgi', 'start_response_once', 'response_start_once', 'bodiless_empty',
              'content_length_equals_body', 'typeless_no_framework_content_type', 'content_type_present',
              'close_once', 'stream_body', 'sse_body', 'sse_event', 'body_text', 'body_data', 'body_media',
              'body_none', 'stream_no_invented_length', 'asgi_complete',
              'set_cookie_lines', 'headers_present'):
        rec.floor('mon.' + m, 20)
    for stack in ('wsgi', 'asgi'):
        for sc in ('typeless', 'bodiless1xx', 'bearing'):
            for mc in ('HEAD', 'other'):
                for src in ('text', 'data', 'media', 'stream', 'none') + (('sse',) if stack == 'asgi' else ()):
                    rec.floor('cell.%s.%s.%s.%s' % (stack, sc, mc, src), 4)
        kinds = WSGI_KINDS if stack == 'wsgi' else ASGI_KINDS
        for kind in kinds:
            rec.floor('streamed.%s.%s' % (stack, kind), 5)
            if kind in HAS_CLOSE:
                rec.floor('close_once.' + kind, 5)
            for pos in ('first', 'middle', 'last'):
                if kind in CAN_RAISE:
                    rec.floor('fault.%s.%s.raise.%s' % (stack, kind, pos), 1)
                rec.floor('fault.%s.%s.%s.%s' % (stack, kind, 'write' if stack == 'wsgi' else 'send', pos), 1)
    rec.floor('fault.asgi.sse.raise', 5)
    rec.floor('fault.asgi.sse.send', 5)
    rec.floor('wsgi.file_wrapper', 20)
    for rc in RESP_CLASSES:
        rec.floor('rc.' + rc, 50)
    for via in ('responder', 'mw', 'sink'):
        rec.floor('via.' + via, 20)
    for sk in ('int', 'line', 'digits', 'enum', 'bytes', 'strsub', 'strsub_odd', 'strenum', 'intenum'):
        rec.floor('status_kind.' + sk, 50)
    rec.floor('random.cases', 200)
    rec.floor('prerender', 20)
    for stack in ('wsgi', 'asgi'):
        for cause in RENDER_FAILS:
            if cause == 'file_wrapper_raises' and stack != 'wsgi':
                continue
            for cl in ('cl', 'nocl'):
                rec.floor('render_fail.%s.%s.%s' % (stack, cause, cl), 4)
    rec.floor('mon.render_fail.content_length_equals_body', 100)
    rec.floor('streamed.asgi.read_answered_none', 50)
    rec.floor('mon.late_ops_leave_response_alone', 500)
    rec.floor('status_sequences', 500)
    rec.floor('falsy_stream.wsgi', 100)
    rec.floor('falsy_stream.asgi', 100)
    for t in TEXT_AS:
        for stack in ('wsgi', 'asgi'):
            for rc in RESP_CLASSES:
                rec.floor('text_as.%s.%s.%s' % (t, stack, rc), 10)
    rec.floor('history.with_render', 500)
    rec.floor('history.render_calls', 500)
    rec.floor('sse.disconnect.truncated', 10)
    rec.floor('sse.disconnect.full', 10)
    rec.floor('asgi.disconnect_after', 50)
    rec.floor('mon.nonstr_header_value_as_str', 100)


# ---- replay

def compact(o):
    """Recipe -> witness form: long runs of one byte/character are written as a count."""
    if isinstance(o, (bytes, str)) and len(o) > 64 and len(set(o)) == 1:
        return {'__rep_b': [o[0], len(o)]} if isinstance(o, bytes) else {'__rep_s': [o[0], len(o)]}
    if isinstance(o, list):
        return [compact(x) for x in o]
    if isinstance(o, dict):
        return {k: compact(v) for k, v in o.items()}
    return o


def revive(o):
    """Inverse of compact() and of verdict.jsonable for recipes (bytes were written as 'b:<unicode_escape>')."""
    if isinstance(o, dict) and len(o) == 1 and '__rep_b' in o:
        return bytes([o['__rep_b'][0]]) * o['__rep_b'][1]
    if isinstance(o, dict) and len(o) == 1 and '__rep_s' in o:
        return o['__rep_s'][0] * o['__rep_s'][1]
    if isinstance(o, str) and o.startswith('b:'):
        return o[2:].encode('ascii').decode('unicode_escape').encode('latin-1')
    if isinstance(o, list):
        return [revive(x) for x in o]
    if isinstance(o, dict):
        return {k: revive(v) for k, v in o.items()}
    return o


def replay(rec, w):
    r = revive(w['witness']['recipe'])
    res = do(rec, r)
    print('replayed recipe:', r)
    print('server received:', summary(res, r['stack']))
    # a neighbour so that the evidence has two distinct cases (verdict.finalize demands >= 2)
    r2 = dict(r, method='GET' if r['method'] != 'GET' else 'POST')
    do(rec, r2)
